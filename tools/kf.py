#!/usr/bin/env python3
"""tools/kf.py fixed|open <prop> <key> <commit|-> <what...>   — edit known_findings.json by hand (never at check time)."""
import json, sys, os
HERE = os.path.dirname(os.path.dirname(os.path.abspath(__file__)))
p = os.path.join(HERE, "known_findings.json")
d = json.load(open(p))
status, prop, key, commit = sys.argv[1:5]
what = " ".join(sys.argv[5:])
d["findings"] = [e for e in d["findings"] if not (e["property"] == prop and e["key"] == key)]
e = {"property": prop, "key": key, "status": status, "what": what}
if status == "fixed":
    e["commit"] = commit
    e["record"] = f"fixed: property={prop} {commit} {what}"
d["findings"].append(e)
d["findings"].sort(key=lambda e: (e["property"], e["key"]))
json.dump(d, open(p, "w"), indent=1)
print("ok", len(d["findings"]))
