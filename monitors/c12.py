"""C12 — pitch / key / duration / time-unit conversions agree with arithmetic.

Contracts (icontract.ensure with named conditions; a plain wrapper if icontract
is unavailable) are attached to the *real* conversion functions and to every
alias of them inside the package, so they also fire when other workloads reach
the functions.  Conditions record and return True (they never abort what they
observe).  The driver enumerates the finite domains of the quantifier.
"""
import itertools
import math
from fractions import Fraction

import numpy as np

from vmon import core
from vmon.refmodels import pitch as P

PROP = "C12"
EXHAUSTIVE = True
RULE = ("exhaustive enumeration of the quantifier's finite domains (steps x alter -3..3 x octave -1..9; MIDI 0..127; "
        "note names [A-G](#|b|x|##|bb)?digits; fifths -12..12 x mode spellings; types x dots 0..3 x tuplet ratios; 39 interval "
        "classes; tempo units) plus seeded (ppq, mpq, time) triples as Python numbers and numpy arrays; every argument tuple "
        "is a distinct case, non-trivial when it is not the function's identity element (alter/fifths/dots != 0 or array input)")
ASSUMPTIONS = ["reference arithmetic in vmon/refmodels/pitch.py (C4=60, circle of fifths from scratch)",
               "float comparisons use relative tolerance 1e-9"]
MIN_HOOKS = {"pitch_spelling_to_midi_pitch": 500, "fifths_mode_to_key_name": 100, "seconds_to_midi_ticks": 100,
             "key_name_to_fifths_mode": 30, "midi_pitch_to_pitch_spelling": 128}
MIN_NONTRIVIAL = {"quick": 2000, "thorough": 2000}

_installed = False


def V(key, what, witness=None):
    core.CURRENT.violation(key, what, witness)


def _close(a, b, rel=1e-9):
    return abs(a - b) <= rel * max(1.0, abs(b))


# ------------------------------------------------------------------ conditions
def c_ps2midi(step, alter, octave, result):
    ctx = core.CURRENT
    if isinstance(step, str) and step.upper() in P.STEP_NAMES and isinstance(octave, (int, np.integer)) \
            and (alter is None or isinstance(alter, (int, np.integer))):
        ctx.check()
        exp = P.midi(step, alter, int(octave))
        if result != exp:
            V("pitch_spelling_to_midi_pitch-wrong", f"{step},{alter},{octave} -> {result}, expected {exp}",
              {"args": [step, alter, octave], "result": result})
    return True


def c_midi2ps(midi_pitch, result):
    ctx = core.CURRENT
    if isinstance(midi_pitch, (int, np.integer)) and 0 <= midi_pitch <= 127:
        ctx.check()
        step, alter, octave = result
        if P.midi(step, alter, octave) != midi_pitch or abs(alter or 0) > 2:
            V("midi_pitch_to_pitch_spelling-wrong", f"{midi_pitch} -> {result}", {"arg": int(midi_pitch)})
    return True


def c_name2ps(note_name, result):
    ctx = core.CURRENT
    try:
        exp = P.note_name_parse(note_name)
    except Exception:
        return True
    ctx.check()
    if tuple(result) != (exp[0], exp[1], exp[2]):
        V("note_name_to_pitch_spelling-wrong", f"{note_name} -> {result}, expected {exp}", {"arg": note_name})
    return True


def c_name2midi(note_name, result):
    try:
        exp = P.midi(*P.note_name_parse(note_name))
    except Exception:
        return True
    core.CURRENT.check()
    if result != exp:
        V("note_name_to_midi_pitch-wrong", f"{note_name} -> {result}, expected {exp}", {"arg": note_name})
    return True


def c_ps2name(step, alter, octave, result):
    if isinstance(alter, (int, np.integer)) and -3 <= alter <= 3 and isinstance(octave, (int, np.integer)) and octave >= -1:
        core.CURRENT.check()
        try:
            back = P.note_name_parse(result)
        except Exception:
            back = None
        if back != (step.upper(), alter, octave):
            V("pitch_spelling_to_note_name-wrong", f"{step},{alter},{octave} -> {result!r}", {"args": [step, alter, octave]})
    return True


def c_step2pc(step, alter, result):
    if isinstance(step, str) and step in P.STEP_NAMES and isinstance(alter, (int, np.integer)):
        core.CURRENT.check()
        if result != P.pitch_class(step, alter):
            V("step2pc-wrong", f"{step},{alter} -> {result}", {"args": [step, alter]})
    return True


_MODE = {"major": "major", "minor": "minor", None: "major", "none": "major", 1: "major", -1: "minor"}


def c_fm2name(fifths, mode, result):
    """A *returned* name must be the name of that very key; out-of-range fifths
    must not return at all (checked here because the contract sees every call)."""
    try:
        m = _MODE[mode]
    except (KeyError, TypeError):
        V("fifths_mode_to_key_name-unknown-mode-accepted", f"mode {mode!r} -> {result!r}", {"args": [repr(fifths), repr(mode)]})
        return True
    if isinstance(fifths, (int, np.integer)):
        core.CURRENT.check()
        if not -7 <= fifths <= 7:
            V("fifths_mode_to_key_name-out-of-range-mapped", f"fifths {fifths} mapped to {result!r} instead of being rejected",
              {"args": [int(fifths), repr(mode)]})
        elif result != P.ALL_KEYS[(int(fifths), m)]:
            V("fifths_mode_to_key_name-wrong", f"{fifths},{mode!r} -> {result!r}, expected {P.ALL_KEYS[(int(fifths), m)]!r}",
              {"args": [int(fifths), repr(mode)]})
    return True


_NAME2KEY = {v: k for k, v in P.ALL_KEYS.items()}


def c_name2fm(key_name, result):
    if key_name in _NAME2KEY:
        core.CURRENT.check()
        if tuple(result) != _NAME2KEY[key_name]:
            V("key_name_to_fifths_mode-wrong", f"{key_name!r} -> {result}, expected {_NAME2KEY[key_name]}", {"arg": key_name})
    return True


def c_mode2int(mode, result):
    try:
        m = _MODE[mode]
    except (KeyError, TypeError):
        V("key_mode_to_int-unknown-mode-accepted", f"{mode!r} -> {result}", {"arg": repr(mode)})
        return True
    core.CURRENT.check()
    if result != (1 if m == "major" else -1):
        V("key_mode_to_int-wrong", f"{mode!r} -> {result}", {"arg": repr(mode)})
    return True


def c_int2mode(mode, result):
    try:
        m = _MODE[mode]
    except (KeyError, TypeError):
        V("key_int_to_mode-unknown-mode-accepted", f"{mode!r} -> {result}", {"arg": repr(mode)})
        return True
    core.CURRENT.check()
    if result != m:
        V("key_int_to_mode-wrong", f"{mode!r} -> {result}", {"arg": repr(mode)})
    return True


def c_qtempo(unit, tempo, result):
    u = unit.strip()
    dots = u.count(".")
    base = u.rstrip(".")
    base = P.ABBREV.get(base, base)
    if base in P.TYPES and dots <= 3 and isinstance(tempo, (int, float, np.integer, np.floating)):
        core.CURRENT.check()
        exp = float(tempo) * float(P.TYPES[base] * P.dots_factor(dots))
        if not _close(result, exp):
            V("to_quarter_tempo-wrong", f"{unit!r},{tempo} -> {result}, expected {exp}", {"args": [unit, tempo]})
    return True


def _ticks_exact(t, mpq, ppq):
    """round(1e6*ppq*t/mpq) with exact rationals; returns (floor-ish value, is_half)."""
    x = Fraction(t) * 10**6 * ppq / Fraction(mpq)
    lo = math.floor(x)
    frac = x - lo
    return lo, frac


def _tick_ok(got, t, mpq, ppq):
    lo, frac = _ticks_exact(t, mpq, ppq)
    # float evaluation of the product may land on either side of an exact .5 (and
    # within 1e-6 of it): accept both neighbours there (ambiguous), else nearest.
    if abs(frac - Fraction(1, 2)) < Fraction(1, 10**6):
        core.CURRENT.ambiguous()
        return got in (lo, lo + 1)
    return got == (lo if frac < Fraction(1, 2) else lo + 1)


def c_sec2ticks(time_in_seconds, mpq, ppq, result):
    ctx = core.CURRENT
    if isinstance(time_in_seconds, np.ndarray):
        ctx.check()
        if not (isinstance(result, np.ndarray) and result.shape == time_in_seconds.shape
                and np.issubdtype(result.dtype, np.integer)):
            V("seconds_to_midi_ticks-array-shape-or-dtype", f"array in, {type(result).__name__} out", None)
            return True
        for t, r in zip(time_in_seconds.ravel().tolist(), result.ravel().tolist()):
            if not _tick_ok(r, t, mpq, ppq):
                V("seconds_to_midi_ticks-wrong", f"array element {t!r} mpq={mpq} ppq={ppq} -> {r}",
                  {"t": t, "mpq": mpq, "ppq": ppq})
                break
    elif isinstance(time_in_seconds, (np.integer, np.floating)):
        # numpy scalars of any width (a cell of an onset_sec column is single precision): the value they hold is converted
        ctx.check()
        if not _tick_ok(int(result), float(time_in_seconds), mpq, ppq):
            V("seconds_to_midi_ticks-wrong", f"{type(time_in_seconds).__name__}({float(time_in_seconds)!r}) mpq={mpq} ppq={ppq} -> {result!r}",
              {"t": float(time_in_seconds), "mpq": mpq, "ppq": ppq, "width": type(time_in_seconds).__name__})
    elif isinstance(time_in_seconds, (int, float)):
        ctx.check()
        if not isinstance(result, int) or not _tick_ok(result, time_in_seconds, mpq, ppq):
            V("seconds_to_midi_ticks-wrong", f"{time_in_seconds!r} mpq={mpq} ppq={ppq} -> {result!r}",
              {"t": time_in_seconds, "mpq": mpq, "ppq": ppq})
    return True


def c_ticks2sec(midi_ticks, mpq, ppq, result):
    ctx = core.CURRENT
    if isinstance(midi_ticks, np.ndarray):
        ctx.check()
        exp = [float(Fraction(x) * mpq / (10**6 * ppq)) for x in midi_ticks.ravel().tolist()]
        got = np.asarray(result, dtype=float).ravel().tolist()
        if len(got) != len(exp) or any(not _close(g, e) for g, e in zip(got, exp)):
            V("midi_ticks_to_seconds-wrong", "array result differs from ticks*mpq/(1e6*ppq)", {"mpq": mpq, "ppq": ppq})
    elif isinstance(midi_ticks, (int, float, np.integer, np.floating)):
        ctx.check()
        exp = float(Fraction(float(midi_ticks)) * mpq / (10**6 * ppq))
        if not _close(float(result), exp):
            V("midi_ticks_to_seconds-wrong", f"{midi_ticks} mpq={mpq} ppq={ppq} -> {result}, expected {exp}",
              {"t": float(midi_ticks), "mpq": mpq, "ppq": ppq})
    return True


def c_midi2freq(midi_pitch, a4, result):
    if isinstance(midi_pitch, (int, float, np.integer, np.floating)):
        core.CURRENT.check()
        exp = a4 * 2.0 ** ((float(midi_pitch) - 69.0) / 12.0)
        if not _close(float(result), exp):
            V("midi_pitch_to_frequency-wrong", f"{midi_pitch} a4={a4} -> {result}, expected {exp}", {"arg": float(midi_pitch)})
    return True


def c_freq2midi(freq, a4, result):
    if isinstance(freq, (int, float, np.integer, np.floating)) and freq > 0:
        core.CURRENT.check()
        x = 69 + 12 * math.log2(freq / a4)
        if result is None or abs(float(result) - x) > 0.5 + 1e-6:
            V("frequency_to_midi_pitch-wrong", f"{freq} -> {result!r}, exact {x}", {"arg": freq})
    return True


def c_sym2num(symbolic_dur, divs, result):
    t = symbolic_dur.get("type")
    if t in P.TYPES or t in P.ABBREV:
        core.CURRENT.check()
        exp = P.symbolic_quarters(symbolic_dur) * Fraction(divs)
        if not _close(float(result), float(exp)):
            V("symbolic_to_numeric_duration-wrong", f"{symbolic_dur} divs={divs} -> {result}, expected {exp}",
              {"sym": symbolic_dur, "divs": divs})
    return True


# contracts on properties: (owner class name, property, condition(self, result))
def p_note_midi(self, result):
    if isinstance(self.step, str) and self.step.upper() in P.STEP_NAMES and self.octave is not None:
        core.CURRENT.check()
        exp = P.midi(self.step, self.alter, self.octave)
        if result != exp:
            V("Note.midi_pitch-wrong", f"{self.step}{self.alter}{self.octave} -> {result}, expected {exp}", None)
    return True


def p_key_name(self, result):
    return c_fm2name(self.fifths, self.mode, result)


def p_tempo_mpq(self, result):
    u = (self.unit or "q")
    try:
        base = u.strip().rstrip(".")
        q = float(self.bpm) * float(P.TYPES[P.ABBREV.get(base, base)] * P.dots_factor(u.count(".")))
    except Exception:
        return True
    core.CURRENT.check()
    exp = 60e6 / q
    if abs(result - exp) > 0.5 + 1e-6:
        V("Tempo.microseconds_per_quarter-wrong", f"{self.bpm} {self.unit} -> {result}, expected {exp}", None)
    return True


def p_interval_semitones(self, result):
    core.CURRENT.check()
    exp = P.interval_semitones(self.number, self.quality)
    if result != exp:
        V("Interval.semitones-wrong", f"{self.quality}{self.number} -> {result}, expected {exp}", None)
    return True


def p_tuplet_mult(self, result):
    if self.actual_notes and self.normal_notes:
        core.CURRENT.check()
        exp = Fraction(self.normal_notes, self.actual_notes)
        if self.actual_type != self.normal_type and self.actual_type in P.TYPES and self.normal_type in P.TYPES:
            exp = exp * P.TYPES[self.normal_type] / P.TYPES[self.actual_type]
        if result != exp:
            V("Tuplet.duration_multiplier-wrong", f"{self.actual_notes}:{self.normal_notes} {self.actual_type}/{self.normal_type} -> {result}", None)
    return True


FUNC_CONTRACTS = {
    "pitch_spelling_to_midi_pitch": c_ps2midi,
    "midi_pitch_to_pitch_spelling": c_midi2ps,
    "note_name_to_pitch_spelling": c_name2ps,
    "note_name_to_midi_pitch": c_name2midi,
    "pitch_spelling_to_note_name": c_ps2name,
    "step2pc": c_step2pc,
    "fifths_mode_to_key_name": c_fm2name,
    "key_name_to_fifths_mode": c_name2fm,
    "key_mode_to_int": c_mode2int,
    "key_int_to_mode": c_int2mode,
    "to_quarter_tempo": c_qtempo,
    "seconds_to_midi_ticks": c_sec2ticks,
    "midi_ticks_to_seconds": c_ticks2sec,
    "midi_pitch_to_frequency": c_midi2freq,
    "frequency_to_midi_pitch": c_freq2midi,
    "symbolic_to_numeric_duration": c_sym2num,
}
PROP_CONTRACTS = [("Note", "midi_pitch", p_note_midi), ("KeySignature", "name", p_key_name),
                  ("Tempo", "microseconds_per_quarter", p_tempo_mpq), ("Interval", "semitones", p_interval_semitones),
                  ("Tuplet", "duration_multiplier", p_tuplet_mult)]


class ContractBroken(Exception):
    pass


def install(ctx):
    """Attach the contracts to the real functions (idempotent). Usable from any
    monitor so that C12's conditions run under other workloads too."""
    global _installed
    core.set_current(ctx)
    if _installed:
        return
    _installed = True
    import inspect
    import partitura  # noqa
    import partitura.utils.music as M
    import partitura.score as S
    try:
        import icontract
    except Exception:
        icontract = None
    ctx.extra["icontract_available"] = int(icontract is not None)

    for name, cond in FUNC_CONTRACTS.items():
        orig = getattr(M, name)
        inner = inspect.unwrap(orig)
        sig = inspect.signature(inner)

        def counted(*a, __orig=orig, __name=name, **k):
            core.CURRENT.hook(__name)
            return __orig(*a, **k)

        # icontract needs the real signature to bind condition arguments by name
        if icontract is not None:
            def make(orig=orig, name=name, sig=sig):
                params = ", ".join(str(p.replace(annotation=inspect.Parameter.empty)) for p in sig.parameters.values())
                call = ", ".join(f"{p}={p}" if sig.parameters[p].kind == inspect.Parameter.KEYWORD_ONLY else p
                                 for p in sig.parameters)
                src = f"def {name}({params}):\n    _hook({name!r})\n    return _orig({call})\n"
                ns = {"_orig": inspect.unwrap(orig), "_hook": lambda n: core.CURRENT.hook(n), "np": np,
                      "Union": None, "A4": 440.0}
                exec(src, ns)
                f = ns[name]
                f.__doc__ = orig.__doc__
                return icontract.ensure(cond, error=ContractBroken)(f)
            try:
                wrapped = make()
            except Exception:
                wrapped = None
        else:
            wrapped = None
        if wrapped is None:
            def wrapped(*a, __orig=orig, __cond=cond, __sig=sig, __name=name, **k):
                core.CURRENT.hook(__name)
                res = __orig(*a, **k)
                try:
                    ba = __sig.bind(*a, **k)
                    ba.apply_defaults()
                    __cond(result=res, **{p: v for p, v in ba.arguments.items()
                                          if p in inspect.signature(__cond).parameters})
                except TypeError:
                    pass
                return res
        if orig is not inner:
            # keep the library's own decorator (deprecated_alias) outside the contract
            import functools

            def outer(*a, __w=wrapped, __name=name, **k):
                if "t" in k and __name == "seconds_to_midi_ticks":
                    k["time_in_seconds"] = k.pop("t")
                return __w(*a, **k)
            functools.update_wrapper(outer, orig)
            wrapped = outer
        setattr(M, name, wrapped)
        core.rebind_everywhere(orig, wrapped)

    for cname, pname, cond in PROP_CONTRACTS:
        cls = getattr(S, cname)
        prop = cls.__dict__[pname]

        def getter(self_, __fget=prop.fget, __cond=cond, __label=f"{cname}.{pname}"):
            core.CURRENT.hook(__label)
            res = __fget(self_)
            __cond(self_, res)
            return res

        setattr(cls, pname, property(getter, prop.fset, prop.fdel, prop.__doc__))


def setup(ctx):
    install(ctx)


# ------------------------------------------------------------------ driver
ACCS = ["", "#", "b", "x", "##", "bb"]
MODE_SPELLINGS = ["major", "minor", None, "none", 1, -1]
UNKNOWN_MODES = ["dorian", "Major", 0, 2, "maj", ""]


def plan(tier, seed):
    items = [["spelling"], ["names"], ["midi"], ["keys"], ["durations"], ["intervals"], ["tempo"], ["codes"],
             ["tables"], ["freq"]]
    n = 16 if tier == "quick" else 96
    items += [["ticks", i] for i in range(n)]
    return items


def expect_reject(ctx, fn, args, key, what):
    try:
        r = fn(*args)
    except Exception:
        ctx.extra["rejections_observed"] += 1
        return
    ctx.violation(key, f"{what}: returned {r!r} instead of rejecting", {"args": [repr(a) for a in args]})


def run_item(ctx, item):
    import partitura.utils.music as M
    import partitura.utils.globals as G
    import partitura.score as S
    kind = item[0]
    if kind == "spelling":
        for step, alter, octave in itertools.product("CDEFGAB", range(-3, 4), range(-1, 10)):
            for st in (step, step.lower()):
                ctx.call(M.pitch_spelling_to_midi_pitch, st, alter, octave)
            ctx.call(M.step2pc, step, alter)
            if octave >= -1:
                name = ctx.call(M.pitch_spelling_to_note_name, step, alter, octave)
                back = ctx.call(M.note_name_to_pitch_spelling, name)
                ctx.check()
                if tuple(back) != (step, alter, octave):
                    ctx.violation("note-name-roundtrip", f"{(step, alter, octave)} -> {name!r} -> {back}", {"args": [step, alter, octave]})
            n = S.Note(step=step, octave=octave, alter=alter)
            n.midi_pitch
            ctx.case(["ps", step, alter, octave], alter != 0)
        for step, octave in itertools.product("CDEFGAB", range(-1, 10)):
            ctx.call(M.pitch_spelling_to_midi_pitch, step, None, octave)
            r = ctx.call(M.ensure_pitch_spelling_format, step.lower(), "#", str(octave))
            ctx.check()
            if tuple(r) != (step, 1, octave):
                ctx.violation("ensure_pitch_spelling_format-wrong", f"{step.lower()},'#',{octave!r} -> {r}", None)
            ctx.case(["psn", step, octave], False)
    elif kind == "names":
        for step, acc, octave in itertools.product("ABCDEFG", ACCS, range(0, 12)):
            name = f"{step}{acc}{octave}"
            ctx.call(M.note_name_to_pitch_spelling, name)
            ctx.call(M.note_name_to_midi_pitch, name)
            ctx.case(["name", name], acc != "")
        for bad in ["H4", "c4", "C", "4C", ""]:
            expect_reject(ctx, M.note_name_to_pitch_spelling, (bad,), "note_name-invalid-accepted", f"invalid note name {bad!r}")
    elif kind == "midi":
        for m in range(128):
            st, al, oc = ctx.call(M.midi_pitch_to_pitch_spelling, m)
            back = ctx.call(M.pitch_spelling_to_midi_pitch, st, al, oc)
            ctx.check()
            if back != m:
                ctx.violation("midi-spelling-midi-roundtrip", f"{m} -> {(st, al, oc)} -> {back}", {"arg": m})
            for width in (np.int64, np.uint8, np.int8, np.int32, np.uint16):
                if m <= np.iinfo(width).max:
                    r = ctx.call(M.midi_pitch_to_pitch_spelling, width(m))
                    ctx.check()
                    if tuple(r) != (st, al, oc):
                        ctx.violation("midi_pitch_to_pitch_spelling-depends-on-integer-width", f"{width.__name__}({m}) -> {tuple(r)}, int -> {(st, al, oc)}", {"arg": m, "width": width.__name__})
            ctx.case(["midi", m], m % 12 in (1, 3, 6, 8, 10))
    elif kind == "keys":
        seen_names = {}
        for f in range(-12, 13):
            for mode in MODE_SPELLINGS:
                if -7 <= f <= 7:
                    name = ctx.call(M.fifths_mode_to_key_name, f, mode)
                    canon = _MODE[mode]
                    seen_names.setdefault(name, set()).add((f, canon))
                    back = ctx.call(M.key_name_to_fifths_mode, name)
                    ctx.check()
                    if tuple(back) != (f, canon):
                        ctx.violation("key-name-roundtrip", f"({f},{mode!r}) -> {name!r} -> {back}", {"args": [f, repr(mode)]})
                    ks = S.KeySignature(f, mode)
                    ks.name
                else:
                    expect_reject(ctx, M.fifths_mode_to_key_name, (f, mode), "fifths_mode_to_key_name-out-of-range-mapped",
                                  f"fifths {f} outside -7..7")
                ctx.case(["key", f, repr(mode)], f != 0)
            for mode in UNKNOWN_MODES:
                expect_reject(ctx, M.fifths_mode_to_key_name, (f, mode), "fifths_mode_to_key_name-unknown-mode-accepted",
                              f"unknown mode {mode!r}")
        ctx.check()
        if len(seen_names) != 30 or any(len(v) != 1 for v in seen_names.values()):
            ctx.violation("key-name-not-bijective", f"{len(seen_names)} names for 30 keys", None)
        for name, key in _NAME2KEY.items():
            ctx.call(M.key_name_to_fifths_mode, name)
        for mode in UNKNOWN_MODES:
            expect_reject(ctx, M.key_mode_to_int, (mode,), "key_mode_to_int-unknown-mode-accepted", f"unknown mode {mode!r}")
            expect_reject(ctx, M.key_int_to_mode, (mode,), "key_int_to_mode-unknown-mode-accepted", f"unknown mode {mode!r}")
    elif kind == "durations":
        types = list(P.TYPES) + list(P.ABBREV)
        ratios = [(None, None), (3, 2), (5, 4), (6, 4), (7, 4), (7, 8), (2, 3), (4, 3), (9, 8), (11, 8), (13, 8)]
        for t, dots, (a, n), divs in itertools.product(types, range(4), ratios, (1, 2, 3, 4, 6, 7, 12, 16, 480, 960)):
            sym = {"type": t, "dots": dots}
            if a:
                sym.update(actual_notes=a, normal_notes=n)
            ctx.call(M.symbolic_to_numeric_duration, sym, divs)
            ctx.case(["dur", t, dots, a, n, divs], dots > 0 or a is not None)
        for d, exp in enumerate([Fraction(1), Fraction(3, 2), Fraction(7, 4), Fraction(15, 8)]):
            ctx.check()
            if not _close(G.DOT_MULTIPLIERS[d], float(exp)):
                ctx.violation("dot-multiplier-wrong", f"dots={d}: {G.DOT_MULTIPLIERS[d]}", None)
        for t, v in P.TYPES.items():
            ctx.check()
            if not _close(G.LABEL_DURS[t], float(v)):
                ctx.violation("label-dur-wrong", f"{t}: {G.LABEL_DURS[t]}", None)
        for (a, n, at, nt) in itertools.product((2, 3, 5, 6, 7, 9), (2, 3, 4, 8), ("eighth", "quarter", "16th"),
                                                ("eighth", "quarter", "16th")):
            tp = S.Tuplet(actual_notes=a, normal_notes=n, actual_type=at, normal_type=nt)
            ctx.call(lambda: tp.duration_multiplier)
            ctx.case(["tuplet", a, n, at, nt], True)
    elif kind == "intervals":
        for number, q in P.interval_classes():
            for direction in ("up", "down"):
                iv = ctx.call(S.Interval, number, q, direction)
                ctx.call(lambda: iv.semitones)
                ctx.case(["interval", number, q, direction], True)
        ctx.check()
        if len(G.INTERVALCLASSES) != 39 or sorted(G.INTERVALCLASSES) != sorted(f"{q}{n}" for n, q in P.interval_classes()):
            ctx.violation("interval-classes-differ", f"{len(G.INTERVALCLASSES)} classes", None)
        for k, v in G.INTERVAL_TO_SEMITONES.items():
            ctx.check()
            q, n = k[:-1], int(k[-1])
            if v != P.interval_semitones(n, q):
                ctx.violation("Interval.semitones-wrong", f"table {k} -> {v}", None)
    elif kind == "tempo":
        for u, dots, tempo in itertools.product(list(P.TYPES) + list(P.ABBREV), range(4), (1, 30, 60, 72.5, 100, 120, 208, 400)):
            unit = u + "." * dots
            ctx.call(M.to_quarter_tempo, unit, tempo)
            ctx.call(M.to_quarter_tempo, " " + unit + " " if dots == 0 else unit, tempo)
            t = S.Tempo(tempo, unit)
            ctx.call(lambda: t.microseconds_per_quarter)
            ctx.case(["tempo", unit, tempo], dots > 0 or u not in ("q", "quarter"))
        for bpm in (30, 60, 61, 100, 119.5, 240):
            t = S.Tempo(bpm)
            ctx.call(lambda: t.microseconds_per_quarter)
    elif kind == "codes":
        for sign in ["G", "F", "C", "percussion", "TAB", "jianpu", "none"]:
            i = ctx.call(M.clef_sign_to_int, sign)
            back = ctx.call(M.clef_int_to_sign, i)
            ctx.check()
            if back != sign:
                ctx.violation("clef-code-roundtrip", f"{sign} -> {i} -> {back}", None)
            ctx.case(["clef", sign], True)
        codes = {ctx.call(M.clef_sign_to_int, s) for s in ["G", "F", "C", "percussion", "TAB", "jianpu", "none"]}
        ctx.check()
        if len(codes) != 7:
            ctx.violation("clef-codes-not-injective", str(codes), None)
        for mode in MODE_SPELLINGS:
            i = ctx.call(M.key_mode_to_int, mode)
            back = ctx.call(M.key_int_to_mode, i)
            ctx.check()
            if back != _MODE[mode]:
                ctx.violation("mode-code-roundtrip", f"{mode!r} -> {i} -> {back}", None)
            ctx.call(M.key_int_to_mode, mode)
            ctx.case(["mode", repr(mode)], True)
    elif kind == "tables":
        for i, s in enumerate("CDEFGAB"):
            ctx.check(4)
            if G.MIDI_BASE_CLASS[s.lower()] != P.NATURAL[i] or G.BASE_PC[s] != P.NATURAL[i] or G.STEPS[s] != i or G.STEPS[i] != s:
                ctx.violation("pitch-table-inconsistent", f"step {s}", None)
        for pc, (st, al) in G.DUMMY_PS_BASE_CLASS.items():
            ctx.check()
            if P.pitch_class(st, al) != pc:
                ctx.violation("pitch-table-inconsistent", f"DUMMY_PS_BASE_CLASS[{pc}]", None)
        for i, name in enumerate(G.MAJOR_KEYS):
            ctx.check(2)
            if name != P.key_name(i - 7, "major") or G.MINOR_KEYS[i] + "m" != P.key_name(i - 7, "minor"):
                ctx.violation("key-table-wrong", f"index {i}: {name}/{G.MINOR_KEYS[i]}", None)
        ctx.case(["tables"], True)
        ctx.case(["tables2"], True)
    elif kind == "freq":
        for m in range(128):
            for a4 in (440.0, 415.0, 442):
                f = ctx.call(M.midi_pitch_to_frequency, m, a4)
                for width in (np.uint8, np.int8, np.int64, np.uint16):
                    if m <= np.iinfo(width).max:
                        ctx.call(M.midi_pitch_to_frequency, width(m), a4)
                back = ctx.call(M.frequency_to_midi_pitch, float(f), a4)
                ctx.check()
                if back is None or int(back) != m:
                    ctx.violation("frequency-midi-roundtrip", f"{m} -> {f} -> {back!r}", {"arg": m, "a4": a4})
                for width in (np.float32, np.float64):
                    back = ctx.call(M.frequency_to_midi_pitch, width(f), a4)
                    ctx.check()
                    if back is None or int(back) != m:
                        ctx.violation("frequency-midi-roundtrip", f"{m} -> {width.__name__}({f}) -> {back!r}", {"arg": m, "a4": a4, "width": width.__name__})
                ctx.case(["freq", m, a4], a4 != 440.0)
        arr = np.arange(128)
        f = ctx.call(M.midi_pitch_to_frequency, arr)
        back = ctx.call(M.frequency_to_midi_pitch, f)
        ctx.check()
        if back is None or not np.array_equal(np.asarray(back), arr):
            ctx.violation("frequency-midi-roundtrip", "array round trip differs", None)
    elif kind == "ticks":
        rng = ctx.rng("ticks", item[1])
        for j in range(250):
            ppq = rng.choice([1, 24, 96, 120, 384, 480, 960, 1000, rng.randint(1, 2000)])
            mpq = rng.choice([500000, 250000, 612244, 1000000, rng.randint(100000, 2000000)])
            shape = rng.random()
            if shape < 0.3:
                t = rng.randint(0, 10000)                        # python int
            elif shape < 0.6:
                t = rng.uniform(0, 600)                         # python float
            elif shape < 0.75:
                k = rng.randint(0, 100000)                      # exactly on a tick
                t = float(Fraction(k * mpq, 10**6 * ppq))
            else:
                k = rng.randint(0, 100000)                      # near a half tick
                t = float(Fraction((2 * k + 1) * mpq, 2 * 10**6 * ppq)) + rng.choice([0, 1e-7, -1e-7, 1e-4, -1e-4])
                t = max(t, 0.0)
            if shape < 0.75 and rng.random() < 0.15:
                t = -t                                          # an event before the time origin
            r = ctx.call(M.seconds_to_midi_ticks, t, mpq, ppq)
            back = ctx.call(M.midi_ticks_to_seconds, r, mpq, ppq)
            ctx.check()
            # "and back": the tick's time is within half a tick of the original
            if abs(back - t) > 0.5 * mpq / (1e6 * ppq) * (1 + 1e-6) + 1e-12:
                ctx.violation("ticks-seconds-roundtrip", f"{t} -> {r} -> {back}", {"t": t, "mpq": mpq, "ppq": ppq})
            n = rng.randint(0, 12)
            arr = np.array([rng.uniform(0, 300) for _ in range(n)] + [t], dtype=float)
            ra = ctx.call(M.seconds_to_midi_ticks, arr, mpq, ppq)
            ctx.call(M.midi_ticks_to_seconds, np.asarray(ra), mpq, ppq)
            if np.all(np.abs(np.asarray(ra)) < 2 ** 31):
                # tick columns of note arrays are 32-bit integers
                ctx.call(M.midi_ticks_to_seconds, np.asarray(ra).astype(np.int32), mpq, ppq)
                ctx.call(M.midi_ticks_to_seconds, np.int32(int(np.asarray(ra).ravel()[-1])), mpq, ppq)
            # single-precision seconds (the onset_sec column of a note array), far from the origin too
            t4 = np.float32(t if rng.random() < 0.5 else t + rng.choice([600, 3000, 20000]))
            ctx.call(M.seconds_to_midi_ticks, t4, mpq, ppq)
            ctx.call(M.seconds_to_midi_ticks, np.array([t4, np.float32(rng.uniform(0, 5000))], dtype=np.float32), mpq, ppq)
            ctx.check()
            if np.asarray(ra).ravel()[-1] != r:
                lo, frac = _ticks_exact(t, mpq, ppq)
                if abs(frac - Fraction(1, 2)) >= Fraction(1, 10**6):
                    ctx.violation("seconds_to_midi_ticks-scalar-array-disagree", f"{t}: scalar {r}, array {np.asarray(ra).ravel()[-1]}",
                                  {"t": t, "mpq": mpq, "ppq": ppq})
            ctx.case(["ticks", repr(t), mpq, ppq, n], True, sample={"t": t, "mpq": mpq, "ppq": ppq, "ticks": r, "array_len": n + 1}
                     if j == 0 else None)
        ia = np.arange(0, 50) * 7
        ctx.call(M.midi_ticks_to_seconds, ia, 500000, 480)
        ctx.call(M.seconds_to_midi_ticks, np.array([[0.1, 0.2], [0.3, 0.4]]), 500000, 480)
