#!/bin/sh
# tools/try_seed_wt.sh <Cnn> <name> <patch.diff> [tier] — like try_seed.sh, but on a scratch worktree of /repo's HEAD
# (VERIF_REPO points the check at it), so that other runs against /repo are not disturbed.  Log: /tmp/try_seed_keep_<name>.log
ID=$1; NAME=$2; PATCH=$3; TIER=${4:-quick}
WT=/tmp/ts_$NAME
git -C /repo worktree remove --force $WT >/dev/null 2>&1
git -C /repo worktree add --detach $WT HEAD >/dev/null 2>&1 || { echo "worktree failed"; exit 9; }
if ! git -C $WT apply --check "$PATCH" 2>/dev/null; then echo "PATCH DOES NOT APPLY to current /repo HEAD"; git -C /repo worktree remove --force $WT; exit 8; fi
git -C $WT apply "$PATCH"
cd "$(dirname "$0")/.." && VERIF_EVIDENCE_DIR=/tmp/seed_evidence VERIF_REPO=$WT ./check "$ID" --tier "$TIER" > /tmp/try_seed_keep_$NAME.log 2>&1
rc=$?
git -C /repo worktree remove --force $WT
grep -c "^VIOLATION" /tmp/try_seed_keep_$NAME.log | sed "s/^/violation lines: /"
grep "key=" /tmp/try_seed_keep_$NAME.log | sort | uniq -c | cut -c1-260 | head -8
tail -1 /tmp/try_seed_keep_$NAME.log | cut -c1-200
echo "exit=$rc"
