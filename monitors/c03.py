"""C03 — MusicXML export then import returns the same score; re-export is a fixpoint.

Post-condition hook on the real save_musicxml: for every call the produced bytes
are (a) re-loaded with load_musicxml and fingerprinted against the argument on
exactly the attribute list of the statement, (b) read by an independent
MusicXML interpreter and compared with the argument's sounding notes in exact
quarters, (c) re-saved from the re-loaded score and compared byte for byte.
"""
import collections
import io
from fractions import Fraction

from vmon import core
from vmon.refmodels import musicxml_reader, timemaps
from vmon.refmodels import pitch as P

PROP = "C03"
RULE = ("W1 generated scores in the importer's image (1-3 aligned parts, optional part group, measures contiguous from 0 and "
        "filled by voice 1, voices/staves explicit, unique ids, chords, ties, tuplets, grace runs, slurs, dynamics, wedges, words, "
        "tempo, repeats/endings, fermatas, articulations, fingering, mid-score division/signature/clef changes, pickups); W2 all "
        "MusicXML fixtures loaded by the importer; W3 hostile (under-full measures, unequal chords in a voice); non-trivial = >=2 "
        "voices or staves, >=1 tie or tuplet, >=1 direction; distinct by fingerprint digest")
ASSUMPTIONS = ["fingerprint = exactly the attribute list of the statement; alter None == 0, tempo as integer quarter bpm, "
               "direction staff None == 1, clef octave_change None == 0, grace type acciaccatura vs other",
               "independent reader vmon/refmodels/musicxml_reader.py (divisions, backup/forward, chords, ties by pitch, grace)",
               "domain: every note inside a measure; concurrently tied notes of one part have distinct pitches"]
MIN_HOOKS = {"save_musicxml": {"quick": 150, "thorough": 3000}}
MIN_NONTRIVIAL = {"quick": 40, "thorough": 800}
_installed = False
_in_check = False


def group_chain(part):
    out = []
    g = getattr(part, "parent", None)
    while g is not None:
        out.append((g.group_symbol, g.group_name))
        g = getattr(g, "parent", None)
    return tuple(out)


def sym(d):
    if not d:
        return None
    return (d.get("type"), d.get("dots") or 0, d.get("actual_notes"), d.get("normal_notes"))


def grace_target(g, S):
    """what a grace note leads to: the next grace note of its run (by id), or the main note (any member of the chord it
    embellishes: by onset and voice)"""
    nxt = getattr(g, "grace_next", None)
    if nxt is None:
        return None
    if isinstance(nxt, S.GraceNote):
        return nxt.id
    if nxt.start is None:
        return ("main-not-on-the-timeline",)
    return ("main", int(nxt.start.t), nxt.voice)


def fingerprint_part(part):
    import partitura.score as S
    fp = collections.OrderedDict()
    fp["part"] = [(part.id, part.part_name or None, group_chain(part))]
    fp["divisions"] = [(int(t), int(q)) for t, q in part.quarter_durations()]
    cat = collections.defaultdict(list)
    for tp in part._points:
        for cls, objs in tp.starting_objects.items():
            for o in objs:
                t = int(tp.t)
                e = int(o.end.t) if o.end is not None else None
                if isinstance(o, S.GenericNote):
                    if isinstance(o, S.Note):
                        pitch = (o.step, int(o.alter or 0), int(o.octave))      # (the MIDI importer leaves numpy integers)
                    elif isinstance(o, S.UnpitchedNote):
                        pitch = ("unpitched", o.step, o.octave)
                    else:
                        pitch = None
                    grace = None
                    if isinstance(o, S.GraceNote):
                        grace = "acciaccatura" if o.grace_type == "acciaccatura" else "grace"
                    fing = tuple(str(x.fingering) for x in (o.technical or []) if isinstance(x, S.Fingering))
                    # (a note without a staff stands on staff 1: MusicXML has no way to say "no staff" in a one-staff part)
                    cat["notes"].append((cls.__name__, o.id, t, e, pitch, int(o.voice) if o.voice is not None else None, int(o.staff or 1), sym(o._sym_dur if o._sym_dur else o.symbolic_duration),
                                         getattr(o.tie_next, "id", None), getattr(o.tie_prev, "id", None),
                                         tuple(sorted(o.articulations or ())), fing, o.stem_direction, o.fermata is not None, grace,
                                         # the run a grace note belongs to: its neighbours in the run / the main note
                                         (getattr(getattr(o, "grace_prev", None), "id", None), grace_target(o, S))
                                         if isinstance(o, S.GraceNote) else None))
                elif cls is S.Measure:
                    cat["measures"].append((o.number, str(o.name) if o.name is not None else None, t, e))
                elif cls is S.TimeSignature:
                    cat["time_signatures"].append((t, o.beats, o.beat_type))
                elif cls is S.KeySignature:
                    cat["key_signatures"].append((t, o.fifths, "minor" if o.mode in ("minor", -1) else "major" if o.mode in ("major", 1) else None))
                elif cls is S.Clef:
                    cat["clefs"].append((t, o.staff, o.sign, o.line, o.octave_change or 0))
                elif cls is S.Slur:
                    cat["slurs"].append((getattr(o.start_note, "id", None), getattr(o.end_note, "id", None)))
                elif cls is S.Tuplet:
                    cat["tuplets"].append((getattr(o.start_note, "id", None), getattr(o.end_note, "id", None), o.actual_notes, o.normal_notes,
                                           o.actual_type, o.normal_type))
                elif cls is S.Tempo:
                    import partitura.utils.music as M
                    cat["tempo"].append((t, round(float(M.to_quarter_tempo(o.unit or "q", o.bpm)), 6)))      # (the value, not its integer part)
                elif cls is S.Words:
                    cat["words"].append((t, o.text, o.staff or 1))
                elif cls is S.Repeat:
                    cat["repeats"].append((t, e))
                elif cls is S.Ending:
                    cat["endings"].append((t, e, str(o.number)))
                elif cls is S.Fermata:
                    if not isinstance(o.ref, S.GenericNote):
                        cat["barline_fermatas"].append((t, o.ref if isinstance(o.ref, str) else None))
                elif isinstance(o, S.DynamicLoudnessDirection) and getattr(o, "wedge", False):
                    cat["wedges"].append((cls.__name__, t, e, o.staff or 1))
                elif isinstance(o, S.LoudnessDirection):
                    cat["dynamics"].append((cls.__name__, o.text, t, e, o.staff or 1))
                elif isinstance(o, S.Direction):
                    cat["words_directions"].append((cls.__name__, o.text, o.raw_text, t, e, o.staff or 1))
    for k in ("measures", "time_signatures", "key_signatures", "clefs", "notes", "slurs", "tuplets", "dynamics", "wedges", "words",
              "words_directions", "tempo", "repeats", "endings", "barline_fermatas"):
        fp[k] = sorted(cat.get(k, []), key=repr)
    for k in ("time_signatures", "key_signatures", "clefs"):
        # several identical signatures at one position denote the same thing as one
        fp[k] = sorted(set(fp[k]), key=repr)
    return fp


def structure_tree(score):
    import partitura.score as S

    def node(x):
        if isinstance(x, S.PartGroup):
            return ("group", x.group_symbol, x.group_name, [node(c) for c in x.children])
        return ("part", x.id)
    ps = getattr(score, "part_structure", None)
    return [node(x) for x in (ps if ps is not None else score.parts)]


def fingerprint(score):
    return [fingerprint_part(p) for p in score.parts]


def sounding_quarters(part):
    import partitura.score as S
    d = timemaps.describe(part)
    if d["n_points"] < 2:
        return []
    model = timemaps.Model(d)
    rows = []
    for n in timemaps.objects_of(part, S.Note, exact=False):
        if n.tie_prev is not None:
            continue
        last, end = n, n.end.t
        while last.tie_next is not None:
            last = last.tie_next
            end = last.end.t
        rows.append((model.quarter(int(n.start.t)), model.quarter(int(end)) - model.quarter(int(n.start.t)), P.midi(n.step, n.alter, n.octave)))
    return sorted(rows)


def has_underfull_measure(part):
    """a measure in which nothing (not even a rest) reaches the barline, or a voice-less stretch inside it"""
    import partitura.score as S
    notes = [n for n in timemaps.objects_of(part, S.GenericNote, exact=False) if n.end is not None]
    for m in timemaps.objects_of(part, S.Measure):
        if m.end is None:
            continue
        inside = [n for n in notes if m.start.t <= n.start.t < m.end.t]
        reach = max([n.end.t for n in inside] + [m.start.t])
        if inside and reach < m.end.t:
            return True
        if not inside and m.end.t > m.start.t:
            return True
    return False


OFFPOINT_KEY = "divisions-change-inside-measure-where-nothing-starts"


def overlaps_in_its_voice(part, note_id):
    """The note sounds together with a note of its own voice that has another onset or end (the writer moves one of them)."""
    import partitura.score as S
    notes = [n for n in timemaps.objects_of(part, S.GenericNote, exact=False) if not isinstance(n, S.GraceNote) and n.end is not None]
    me = [n for n in notes if n.id == note_id]
    if len(me) != 1:
        return False
    me = me[0]
    same = [n for n in notes if (n.voice or 0) == (me.voice or 0)]
    # the writer's rule is transitive over the measure: any overlap among the notes of that voice in the same measure may move this note
    lo, hi = me.start.t, me.end.t
    for m_ in timemaps.objects_of(part, S.Measure):
        if m_.end is not None and m_.start.t <= me.start.t < m_.end.t:
            lo, hi = m_.start.t, m_.end.t
    inside = [n for n in same if lo <= n.start.t < hi]
    return any(a is not b and a.start.t < b.end.t and b.start.t < a.end.t and (a.start.t, a.end.t) != (b.start.t, b.end.t)
               for a in inside for b in inside)


def first_diff(a, b):
    for cat in a:
        if a[cat] != b.get(cat):
            ca = collections.Counter(map(repr, a[cat]))
            cb = collections.Counter(map(repr, b.get(cat, [])))
            ra = {repr(x): x for x in a[cat]}
            rb = {repr(x): x for x in b.get(cat, [])}
            only_a = [ra[k] for k in (ca - cb)][:2]
            only_b = [rb[k] for k in (cb - ca)][:2]
            return cat, only_a, only_b
    return None


NOTE_FIELDS = ["class", "id", "start", "end", "pitch", "voice", "staff", "symbolic_duration", "tie_next", "tie_prev", "articulations",
               "fingering", "stem", "fermata", "grace", "grace_run_links"]


def classify(cat, only_a, only_b, arg_part):
    if cat == "words" and only_a and not only_b:
        return "words-objects-not-written"
    if cat == "wedges" and only_a and all(x[1] == x[2] for x in only_a):
        return "zero-length-wedge-lost"
    if cat == "barline_fermatas" and not only_a and only_b and all(x[1] == "left" for x in only_b):
        return "right-barline-fermata-written-again-on-the-next-measure"
    if cat != "notes" or not only_a or not only_b:
        return f"roundtrip-differs:{cat}"
    a, b = only_a[0], only_b[0]
    if a[1] == b[1]:
        diff = [NOTE_FIELDS[i] for i in range(len(a)) if a[i] != b[i]]
        return "roundtrip-differs:note-" + "+".join(diff[:3])
    return "roundtrip-differs:notes"


def check_roundtrip(ctx, arg, xml_bytes, label):
    import partitura
    import partitura.score as S
    from partitura.io.importmusicxml import load_musicxml
    from partitura.io.exportmusicxml import save_musicxml
    global _in_check
    if _in_check:
        return
    _in_check = True
    try:
        score_arg = arg if isinstance(arg, S.Score) else S.Score(arg if isinstance(arg, list) else [arg])
        w = {"source": label, "parts": [p.id for p in score_arg.parts]}
        fa = fingerprint(score_arg)
        # (b) independent interpreter
        ctx.check()
        try:
            denoted = musicxml_reader.sounding_notes(xml_bytes)
        except Exception as e:  # noqa
            ctx.violation("written-file-not-readable-by-independent-interpreter", f"{type(e).__name__}: {e}", w)
            denoted = None
        if denoted is not None:
            for p in score_arg.parts:
                if any(n.tie_next is not None and (n.tie_next.start.t != n.end.t or (n.tie_next.step, n.tie_next.alter or 0, n.tie_next.octave) !=
                                                   (n.step, n.alter or 0, n.octave)) for n in timemaps.objects_of(p, S.Note, exact=False)):
                    ctx.ambiguous()      # a tie between notes that do not touch or differ in pitch (tests/data/kern/tie_mismatch.krn): no file can denote it
                    continue
                exp = sounding_quarters(p)
                got = denoted.get(p.id)
                if got is None or [tuple(x) for x in got] != exp:
                    miss = [x for x in exp if got is None or x not in got][:3]
                    extra = [x for x in (got or []) if x not in exp][:3]
                    ctx.violation(OFFPOINT_KEY if getattr(ctx, "c03_hostile", None) == "divisions-change-off-time-points"
                                  else "written-file-denotes-other-sounding-notes", f"part {p.id}: score-only {[(str(a), str(b), c) for a, b, c in miss]}, "
                                  f"file-only {[(str(a), str(b), c) for a, b, c in extra]}", w)
                    break
        # (a) reload and compare
        try:
            back = load_musicxml(io.BytesIO(xml_bytes))
        except Exception as e:  # noqa
            import traceback
            ctx.violation(f"reload-raises:{type(e).__name__}", f"load_musicxml of the written file raised {type(e).__name__}: {e}",
                          dict(w, traceback=traceback.format_exc()[-800:]))
            return
        fb = fingerprint(back)
        ctx.check(len(fa))
        if len(fa) != len(fb):
            ctx.violation("roundtrip-differs:number-of-parts", f"{len(fa)} parts saved, {len(fb)} loaded", w)
            return
        # the same part groups: the tree of groups (symbol, name) with the parts as leaves, not only each part's chain of ancestors
        ta, tb = structure_tree(score_arg), structure_tree(back)
        ctx.check()
        if ta != tb:
            ctx.violation("roundtrip-differs:part-group-tree", f"saved {ta}, loaded {tb}", w)
            return
        for pa, pb, part in zip(fa, fb, score_arg.parts):
            nums = [m_[0] for m_ in sorted(pa["measures"], key=lambda m_: m_[2])]
            if nums != list(range(1, len(nums) + 1)):
                # MusicXML carries the measure's name; the number is the running index the importer assigns
                ctx.ambiguous()
                pa = dict(pa, measures=sorted([(None,) + m_[1:] for m_ in pa["measures"]], key=repr))
                pb = dict(pb, measures=sorted([(None,) + m_[1:] for m_ in pb["measures"]], key=repr))
            # grace notes that were never linked into a run or to a main note (the MEI importer leaves them so): the file
            # cannot say "unlinked", the reader links them by position
            unlinked = {r_[1] for r_ in pa["notes"] if r_[0] == "GraceNote" and r_[-1] == (None, None)}
            if unlinked:
                ctx.ambiguous()
                drop = lambda rows: sorted([r_[:-1] + (None,) if (r_[0] == "GraceNote" and r_[1] in unlinked) else r_ for r_ in rows], key=repr)  # noqa
                pa = dict(pa, notes=drop(pa["notes"]))
                pb = dict(pb, notes=drop(pb["notes"]))
            bf_times = [x[0] for x in pa["barline_fermatas"]]
            if len(set(bf_times)) != len(bf_times):
                # several barline fermatas at one position (unfolding copies one per adjoining segment): which side of the
                # barline each is written on is don't-care
                ctx.ambiguous()
                pa = dict(pa, barline_fermatas=sorted(set(bf_times)))
                pb = dict(pb, barline_fermatas=sorted({x[0] for x in pb["barline_fermatas"]}))
            ids_ = [n_[1] for n_ in pa["notes"]]
            if len(set(ids_)) != len(ids_) or None in ids_:
                # MusicXML ids are unique: the writer renames repeated ids (and cannot write a missing one)
                ctx.ambiguous()
                strip = lambda rows: sorted([(r_[0], None) + r_[2:8] + (None, None) + r_[10:] for r_ in rows], key=repr)  # noqa
                pa = dict(pa, notes=strip(pa["notes"]), slurs=[], tuplets=[])
                pb = dict(pb, notes=strip(pb["notes"]), slurs=[], tuplets=[])
            d = first_diff(pa, pb)
            if d:
                cat, only_a, only_b = d
                key = classify(cat, only_a, only_b, part)
                hz = getattr(ctx, "c03_hostile", None)
                if hz == "divisions-change-off-time-points":
                    key = OFFPOINT_KEY
                if hz is None and cat == "notes" and "voice" in key and only_a and all(overlaps_in_its_voice(part, r_[1]) for r_ in only_a):
                    hz = "intra-voice-overlap"       # (an importer's score, e.g. from MIDI, with notes overlapping inside a voice)
                if hz == "intra-voice-overlap" and cat == "notes" and "voice" in key:
                    key = "voice-reassigned-on-intra-voice-overlap"
                ctx.violation(key, f"part {part.id} {cat}: saved-only {only_a}, loaded-only {only_b}", dict(w, category=cat))
                break
        # (c) byte fixpoint
        try:
            again = save_musicxml(back)
        except Exception as e:  # noqa
            ctx.violation(f"resave-raises:{type(e).__name__}", f"saving the re-loaded score raised: {e}", w)
            return
        ctx.check()
        dup_sig = any(len(objs) > 1 and len({(getattr(o, "beats", None), getattr(o, "beat_type", None), getattr(o, "fifths", None), getattr(o, "mode", None)) for o in objs}) == 1
                      for p in score_arg.parts for tp in p._points for cls, objs in tp.starting_objects.items()
                      if cls in (S.TimeSignature, S.KeySignature))
        if again != xml_bytes and dup_sig:
            ctx.ambiguous()          # several identical signature objects at one position: how often they are written is don't-care
        elif again != xml_bytes:
            la, lb = xml_bytes.decode().splitlines(), again.decode().splitlines()
            i = next((i for i, (x, y) in enumerate(zip(la, lb)) if x != y), min(len(la), len(lb)))
            # what the second file has more / less than the first, line by line (a real diff: a line that also occurs elsewhere
            # in the other file still counts)
            import difflib
            extra_a, extra_b = [], []
            for tag, a0, a1, b0, b1 in difflib.SequenceMatcher(None, la, lb, autojunk=False).get_opcodes():
                if tag != "equal":
                    extra_a += [x.strip() for x in la[a0:a1]]
                    extra_b += [y.strip() for y in lb[b0:b1]]
            prints = {'<print new-page="yes" new-system="yes"/>', '<print new-page="yes"/>', '<print new-system="yes"/>'}
            lacks_page_or_system = any(not timemaps.objects_of(p_, S.Page) or not timemaps.objects_of(p_, S.System) for p_ in score_arg.parts)
            if lacks_page_or_system and not extra_a and extra_b and set(extra_b) <= prints:
                ctx.violation("re-export-gains-print-element-for-score-without-page-and-system-objects",
                              "the importer adds a page and a system at the start of every part; a score built without them is re-exported with "
                              "an additional <print> element", w)
                return
            if lacks_page_or_system:
                extra_b = [x for x in extra_b if x not in prints]       # (that finding is reported once the rest is explained)
            barline_lines = lambda x: x == "<fermata/>" or x.startswith("<barline") or x == "</barline>" or x.startswith("<bar-style")  # noqa
            has_right_fermata = any(getattr(f_, "ref", None) == "right" for p_ in score_arg.parts for f_ in timemaps.objects_of(p_, S.Fermata))
            if has_right_fermata and not extra_a and extra_b and all(barline_lines(x) for x in extra_b) and "<fermata/>" in extra_b:
                # (open known finding: the fermata of an inner right barline is written on both sides, so the re-loaded score has two)
                ctx.violation("right-barline-fermata-written-again-on-the-next-measure", "the re-export of the re-loaded score has the additional "
                              f"barline fermata(s): {extra_b[:4]}", w)
                return
            if any(timemaps.objects_of(p, S.Staff) for p in score_arg.parts) and (extra_a or extra_b) and \
                    all(("staff-details" in x or "staff-lines" in x or "<staves>" in x or x in ("<attributes>", "</attributes>") or x in prints)
                        for x in extra_a + extra_b):
                ctx.violation("staff-details-written-but-not-read-back", "Staff objects are written as <staff-details> but load_musicxml does not "
                              "read them, so the re-export of the re-loaded score lacks them", w)
                return
            hz = getattr(ctx, "c03_hostile", None)
            if hz in ("intra-voice-overlap", "divisions-change-off-time-points"):
                return                   # consequences of the hostile construction are reported by the comparison above
            ctx.violation("re-export-not-byte-identical", f"line {i}: {la[i].strip() if i < len(la) else '<eof>'!r} vs {lb[i].strip() if i < len(lb) else '<eof>'!r}; "
                          f"first file only {extra_a[:3]}, second file only {extra_b[:3]}", w)
    finally:
        _in_check = False


def install(ctx):
    global _installed
    core.set_current(ctx)
    if _installed:
        return
    _installed = True
    import partitura.io.exportmusicxml as EX

    def post(ret, exc, token, a, k):
        if exc is not None or _in_check:
            return
        arg = a[0] if a else k.get("score_data", k.get("parts"))
        out = a[1] if len(a) > 1 else k.get("out")
        if ret is not None:
            data = ret
        elif hasattr(out, "getvalue"):
            data = out.getvalue()
        elif isinstance(out, (str, bytes)) or hasattr(out, "__fspath__"):
            with open(out, "rb") as f:
                data = f.read()
        else:
            return
        if isinstance(data, str):
            data = data.encode()
        check_roundtrip(core.CURRENT, arg, data, getattr(core.CURRENT, "c03_label", "call"))

    h = core.Hook(EX, "save_musicxml", post=post, ctx=ctx, label="save_musicxml")
    core.rebind_everywhere(h.orig, h.wrapper)


def setup(ctx):
    install(ctx)


# ---------------------------------------------------------------- workload
def plan(tier, seed):
    from workloads import corpora
    n = 16 * 8 if tier == "quick" else 16 * 200
    items = [["gen", i] for i in range(n)]
    fx = corpora.musicxml_files()
    items += [["fixture", f] for f in fx]
    other = corpora.kern_files() + corpora.mei_files() + corpora.midi_files()
    if tier == "quick":
        other = corpora.kern_files()[:4] + corpora.mei_files()[:3] + corpora.midi_files()[:1]
    items += [["fixture-other", f] for f in other]
    items += [["divchange", i] for i in range(n // 2)]
    return items


def importer_image(sc, rng):
    """make a generated score lie in the importer's image (documented in DESIGN appendix A)"""
    import partitura.score as S
    if rng.random() < 0.9:
        for p in sc.parts:
            # the importer starts every part with a page and a system
            p.add(S.Page(1), 0)
            p.add(S.System(1), 0)
    else:
        sc.no_pages = True
    S.set_end_times(sc.parts)
    return sc


def run_item(ctx, item):
    import partitura
    import partitura.score as S
    from workloads import gen_score
    if item[0] == "divchange":
        # divisions changing inside a measure (set after the content is on the timeline)
        rng = ctx.rng("divchange", item[1])
        part, q, f, where, change, n_before = gen_score.make_midmeasure_divchange_part(rng, late=rng.random() < 0.5)
        part.add(S.Page(1), 0)
        part.add(S.System(1), 0)
        S.set_end_times([part])          # as the importer does (constant directions last until the next one / the end)
        sc = S.Score([part], id="dc")
        # the exporter cuts a measure where the divisions of neighbouring time points differ: a change where nothing starts
        # (inside a note, or in a silent stretch without a time point) is a known finding
        crossing = any(n.start.t < change < n.end.t for n in part.notes)
        ctx.c03_hostile = None if (part.get_point(change) is not None and not crossing) else "divisions-change-off-time-points"
        ctx.c03_label = f"divchange:{item[1]}"
        ctx.try_call(partitura.save_musicxml, sc)
        ctx.case(["divchange", item[1]], True, cls="divisions-change-inside-measure:" + ("where-nothing-starts-or-inside-a-note" if ctx.c03_hostile else "at-an-onset"), sample={"divisions": [q, q * f], "change_at": change, "where": where})
        return
    if item[0] in ("fixture", "fixture-other"):
        ctx.c03_hostile = None
        ctx.c03_label = "fixture:" + item[1].split("/")[-1]
        sc = ctx.call(partitura.load_score, item[1])
        ok, data = ctx.try_call(partitura.save_musicxml, sc)
        fp = fingerprint(sc)
        n_notes = sum(len(p["notes"]) for p in fp)
        ctx.case(["fixture", item[1]], n_notes > 10, cls=item[0], sample={"file": item[1].split("/")[-1], "notes": n_notes})
        return
    rng = ctx.rng("gen", item[1])
    ctx.c03_label = f"generated:{item[1]}"
    feats = [f for f in ("chords", "rests", "ties", "graces", "tuplets", "multivoice", "multistaff", "slurs", "clefs", "keys", "pickup",
                         "ts_changes", "div_changes", "fermata", "articulations", "directions") if rng.random() < 0.6]
    n_parts = rng.choice([1, 1, 2, 3, 3])
    sc = gen_score.make_score(rng, n_parts=n_parts, features=feats, groups=rng.random() < 0.4, profile="full")
    sc = importer_image(sc, rng)
    # more of the statement's attribute list: fingering, stems, unpitched notes, clef changes inside a measure
    for p_ in sc.parts:
        pitched = [n for n in timemaps.objects_of(p_, S.Note, exact=True)]
        for n in pitched:
            r_ = rng.random()
            if r_ < 0.08:
                n.technical = [S.Fingering(rng.choice([0, 1, 2, 3, 4, 5]))]
            elif r_ < 0.16:
                n.stem_direction = rng.choice(["up", "down"])
        if pitched and rng.random() < 0.3:
            n = rng.choice(pitched)
            if n.tie_next is None and n.tie_prev is None and not n.slur_starts and not n.slur_stops and not n.tuplet_starts and not n.tuplet_stops \
                    and n.fermata is None and not any(isinstance(x, S.GraceNote) and x.grace_next is n for x in timemaps.objects_of(p_, S.GraceNote)):
                u = S.UnpitchedNote("E", 4, id=n.id + "u", voice=n.voice, staff=n.staff, symbolic_duration=dict(n._sym_dur) if n._sym_dur else None)
                s_, e_ = n.start.t, n.end.t
                p_.remove(n)
                p_.add(u, s_, e_)
        pitched = [n for n in timemaps.objects_of(p_, S.Note, exact=True)]
        if p_.number_of_staves >= 2 and rng.random() < 0.5:
            # a run of grace notes handed from one staff to the other (an arpeggio shared by both hands)
            for g_ in timemaps.objects_of(p_, S.GraceNote):
                if g_.grace_prev is not None and isinstance(g_.grace_prev, S.GraceNote) and rng.random() < 0.5:
                    g_.staff = rng.choice([st for st in range(1, p_.number_of_staves + 1) if st != (g_.staff or 1)])
                    ctx.extra["grace_runs_crossing_staves"] += 1
        if rng.random() < 0.12:
            ms_ = sorted(timemaps.objects_of(p_, S.Measure), key=lambda m_: m_.start.t)
            if len(ms_) >= 2:
                # a fermata on the right barline of an inner measure (known finding: written twice)
                p_.add(S.Fermata("right"), rng.choice(ms_[:-1]).end.t)
        if rng.random() < 0.3:
            # repeats and endings on barlines (as the importer builds them: spans from barline to barline)
            ms_ = sorted(timemaps.objects_of(p_, S.Measure), key=lambda m_: m_.start.t)
            if len(ms_) >= 3:
                i_ = rng.randrange(0, len(ms_) - 1)
                j_ = rng.randrange(i_, len(ms_) - 1)
                p_.add(S.Repeat(), ms_[i_].start.t, ms_[j_].end.t)
                ctx.extra["generated_repeats"] += 1
                if j_ > i_ and rng.random() < 0.6:
                    p_.add(S.Ending(1), ms_[j_].start.t, ms_[j_].end.t)
                    p_.add(S.Ending(2), ms_[j_ + 1].start.t, ms_[j_ + 1].end.t)
                    ctx.extra["generated_endings"] += 2
                if j_ + 2 < len(ms_) and rng.random() < 0.4:       # a second repeat later on
                    k_ = rng.randrange(j_ + 2, len(ms_))
                    p_.add(S.Repeat(), ms_[j_ + 2].start.t, ms_[k_].end.t)
                    ctx.extra["generated_repeats"] += 1
        if pitched and rng.random() < 0.2:
            # a text dynamics direction that lasts (written as words followed by dashes)
            on_ = sorted({int(n.start.t) for n in pitched})
            if len(on_) >= 3:
                a_ = rng.randrange(0, len(on_) - 1)
                b_ = rng.randrange(a_ + 1, min(len(on_), a_ + 5))
                from partitura.directions import parse_direction
                # (loudness and tempo alike: cresc. - - -, rit. - - -, accel. - - -)
                d_ = parse_direction(rng.choice(["cresc.", "dim.", "crescendo", "decresc.", "rit.", "accel.", "rall.", "ritardando"]))[0]
                if isinstance(d_, S.DynamicDirection):
                    p_.add(d_, on_[a_], on_[b_])
                    ctx.extra["generated_dashes"] += 1
                    if isinstance(d_, S.DynamicTempoDirection):
                        ctx.extra["generated_tempo_dashes"] += 1
        if pitched and rng.random() < 0.15 and not any(isinstance(o, S.DynamicLoudnessDirection) for o in timemaps.objects_of(p_, S.DynamicLoudnessDirection, exact=False)):
            # two hairpins open at the same time (one per staff or hand): the first begins and ends inside one measure, the
            # second begins while the first is open and ends later
            for m_ in timemaps.objects_of(p_, S.Measure):
                inside = sorted({int(n.start.t) for n in pitched if m_.start.t <= n.start.t < m_.end.t})
                later = sorted({int(n.start.t) for n in pitched if n.start.t >= m_.end.t})
                if len(inside) >= 3 and later:
                    p_.add(S.IncreasingLoudnessDirection("crescendo", wedge=True), inside[0], inside[2])
                    p_.add(S.DecreasingLoudnessDirection("diminuendo", wedge=True), inside[1], rng.choice(later[:3]))
                    ctx.extra["generated_overlapping_hairpins"] += 1
                    break
        if pitched and rng.random() < 0.2:
            # sustain pedal marks, within a measure or over several (non-overlapping, as on a staff)
            on_ = sorted({int(n.start.t) for n in pitched} | {int(n.end.t) for n in pitched})
            t_ = 0
            for _ in range(rng.randint(1, 3)):
                later = [x for x in on_ if x >= t_]
                if len(later) < 2:
                    break
                a_ = rng.choice(later[:-1])
                b_ = rng.choice([x for x in later if x > a_][:8])
                p_.add(S.SustainPedalDirection(line=rng.random() < 0.5, staff=None), a_, b_)
                ctx.extra["generated_pedal_marks"] += 1
                t_ = b_
        if pitched and rng.random() < 0.25:
            inner = sorted({int(n.start.t) for n in pitched})[1:]
            if inner:
                if rng.random() < 0.3:
                    # a clef written without a line (MusicXML's <line> is optional), transposing by an octave (a tenor's treble clef)
                    p_.add(S.Clef(staff=1, sign=rng.choice(["G", "F"]), line=None, octave_change=rng.choice([-1, 1, -1, 0])), rng.choice(inner))
                    ctx.extra["generated_clefs_without_line"] += 1
                else:
                    p_.add(S.Clef(staff=1, sign=rng.choice(["G", "F", "C"]), line=rng.choice([2, 3, 4]), octave_change=rng.choice([0, 0, -1])), rng.choice(inner))
    hostile = None
    r = rng.random()
    p0 = sc.parts[0]
    if r < 0.12:
        # W3a: a measure whose content stops before its end (nothing, not even a rest, up to the barline)
        ms = sorted(timemaps.objects_of(p0, S.Measure), key=lambda m_: m_.start.t)
        m_ = rng.choice(ms)
        victims = [n for n in timemaps.objects_of(p0, S.GenericNote, exact=False)
                   if n.end is not None and n.end.t == m_.end.t and n.start.t >= m_.start.t and n.start.t > m_.start.t
                   and n.tie_next is None and n.tie_prev is None and not n.slur_starts and not n.slur_stops and not n.tuplet_starts
                   and not n.tuplet_stops and n.fermata is None and not isinstance(n, S.GraceNote)]
        mains = {id(g_.grace_next) for g_ in timemaps.objects_of(p0, S.GraceNote) if g_.grace_next is not None}
        victims = [v_ for v_ in victims if id(v_) not in mains]         # (a grace note keeps the note it leads to)
        if victims:
            for v_ in victims:
                p0.remove(v_)
            hostile = "underfull-measure"
    elif r < 0.24:
        # W3b: a second note of another length inside a voice while the first still sounds
        cands = [n for n in timemaps.objects_of(p0, S.Note, exact=True) if n.end.t - n.start.t >= 2 and n.tie_next is None and n.tie_prev is None]
        if cands:
            n = rng.choice(cands)
            q_ = int(p0.quarter_duration_map(n.start.t))
            from workloads.gen_score import straight_durations
            ds = [d for d in straight_durations(q_) if d < n.end.t - n.start.t]
            if ds:
                d_ = rng.choice(ds)
                o = S.Note("C", 7, None, id="overlap1", voice=n.voice, staff=n.staff, symbolic_duration=dict(straight_durations(q_)[d_]))
                p0.add(o, n.start.t, n.start.t + d_)
                hostile = "intra-voice-overlap"
    elif r < 0.40:
        # a tie from a note of one voice to a note of another voice (MusicXML pairs ties by pitch, not by voice)
        pairs = [(n, n.tie_next) for n in timemaps.objects_of(p0, S.Note, exact=True)
                 if n.tie_next is not None and n.tie_next.tie_next is None and not n.tie_next.slur_starts and not n.tie_next.slur_stops
                 and not n.tie_next.tuplet_starts and not n.tie_next.tuplet_stops]
        if pairs:
            a_, b_ = rng.choice(pairs)
            new_voice = max((x.voice or 1) for x in timemaps.objects_of(p0, S.GenericNote, exact=False)) + 1
            # every note of the chord that b_ belongs to moves along, so that the voice keeps one duration per onset
            for x in [x for x in timemaps.objects_of(p0, S.GenericNote, exact=False)
                      if x.start.t == b_.start.t and x.voice == b_.voice and not isinstance(x, S.GraceNote) and x.end.t == b_.end.t]:
                x.voice = new_voice
            ctx.extra["cross_voice_tie_cases"] += 1
    ctx.c03_hostile = hostile
    ok, data = ctx.try_call(partitura.save_musicxml, sc)
    metas = sc.meta
    nt = (max(m["voices"] for m in metas) >= 2 or max(m["staves"] for m in metas) >= 2) and sum(m["ties"] + m["tuplets"] for m in metas) >= 1
    ctx.case(core.digest([sorted(feats), item[1]]), nt, cls="generated" if not hostile else f"hostile:{hostile}",
             sample={"features": sorted(feats), "parts": n_parts, "notes": sum(m["notes"] for m in metas), "ties": sum(m["ties"] for m in metas),
                     "tuplets": sum(m["tuplets"] for m in metas)})
    ctx.state(":".join(sorted(feats))[:80])
