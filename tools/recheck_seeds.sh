#!/bin/sh
# tools/recheck_seeds.sh [names...] — every stored seeded change against the current checks (scratch worktree each); one line per seed
cd "$(dirname "$0")/.."
NAMES=${*:-$(ls seeded)}
for n in $NAMES; do
  prop=$(python3 -c "import json;print(json.load(open('seeded/$n/meta.json'))['property'])")
  out=$(tools/try_seed_wt.sh $prop re_$n "$(pwd)/seeded/$n/patch.diff" 2>&1)
  echo "$n $prop $(echo "$out" | grep -c 'PATCH DOES NOT APPLY' | sed 's/^1$/NOAPPLY/;s/^0$//') $(echo "$out" | grep '^exit=') $(echo "$out" | grep 'violation lines')"
done
