"""Brute-force reference for the signature / clef / measure maps (C10):
'the latest element of that kind starting at or before t'."""
from fractions import Fraction

from .timemaps import objects_of

CLEF_CODES = {"G": 0, "F": 1, "C": 2, "percussion": 3, "TAB": 4, "jianpu": 5, "none": 6}


def describe(part):
    import partitura.score as S
    d = {}
    pts = part._points
    d["first"], d["last"] = (int(pts[0].t), int(pts[-1].t)) if len(pts) else (0, 0)
    d["ts"] = sorted(((int(o.start.t), int(o.beats), int(o.beat_type), int(o.musical_beats)) for o in objects_of(part, S.TimeSignature)))
    d["ks"] = sorted(((int(o.start.t), int(o.fifths), -1 if o.mode in ("minor", -1) else 1) for o in objects_of(part, S.KeySignature)))
    d["clefs"] = sorted(((int(o.start.t), int(o.staff), CLEF_CODES[o.sign], int(o.line or 0), int(o.octave_change or 0))
                         for o in objects_of(part, S.Clef)))
    ms = objects_of(part, S.Measure)
    d["measures"] = sorted(((int(m.start.t), int(m.end.t), m.number) for m in ms if m.end is not None))
    d["measures_open"] = sum(1 for m in ms if m.end is None)
    staves = [1]
    for cls in (S.GenericNote, S.Direction):
        staves += [o.staff for o in objects_of(part, cls, exact=False) if getattr(o, "staff", None) is not None]
    staves += [o.staff for o in objects_of(part, S.Clef) if o.staff is not None]
    staves += [o.staff for o in objects_of(part, S.Words) if o.staff is not None]
    d["n_staves"] = max(staves)
    d["q"] = [(int(t), int(q)) for t, q in part.quarter_durations()]
    return d


def latest(table, t):
    """latest row with row[0] <= t; the first row for earlier t; None for an empty table.
    Returns (row, ambiguous) — ambiguous when several rows share the deciding time with different values."""
    if not table:
        return None, False
    best = None
    for row in table:
        if row[0] <= t:
            best = row
    if best is None:
        best = table[0]
    same = [r for r in table if r[0] == best[0]]
    return best, len({r[1:] for r in same}) > 1


def ts_at(d, t):
    row, amb = latest(d["ts"], t)
    return ((4, 4, 4) if row is None else row[1:]), amb


def ks_at(d, t):
    row, amb = latest(d["ks"], t)
    return ((0, 1) if row is None else row[1:]), amb


def clef_at(d, staff, t):
    row, amb = latest([c for c in d["clefs"] if c[1] == staff], t)
    return ((staff, CLEF_CODES["none"], 0, 0) if row is None else row[1:]), amb


def div_at(d, t):
    q = d["q"][0][1]
    for tt, qq in d["q"]:
        if tt <= t:
            q = qq
    return q


def measure_at(d, t):
    """(start, end, number, index) of the measure containing t (start <= t < end), or None (gap / beyond)."""
    hits = [(i, m) for i, m in enumerate(d["measures"]) if m[0] <= t < m[1]]
    if len(hits) != 1:
        return None
    i, m = hits[0]
    return m[0], m[1], m[2], i


def pickup_start(d):
    """Reported start of the first measure under the documented pickup convention
    (a short first measure is treated as ending a full bar). Returns (start, certain)."""
    m0 = d["measures"][0]
    (b, bt, _), amb = ts_at(d, m0[0])
    q = div_at(d, m0[0])
    certain = not amb and any(r[0] == m0[0] for r in d["ts"]) and all(not (m0[0] < tt <= m0[1]) for tt, _ in d["q"]) and \
        all(not (m0[0] < r[0] < m0[1]) for r in d["ts"])
    bar = Fraction(4 * b * q, bt)
    if m0[1] - m0[0] < bar:
        return m0[1] - bar, certain
    return Fraction(m0[0]), certain
