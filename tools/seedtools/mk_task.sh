#!/bin/sh
# usage: mk_task.sh C01 l   -> worktree /tmp/wt_C01l, task file /tmp/seedtools/task_C01l.md
# The author of a seeded change gets ONLY the task file and the worktree (nothing from /verif): the earlier
# stored patches of the property are copied to /tmp/seedtools/prior/ so that a different mechanism is chosen.
# Afterwards: tools/try_seed_wt.sh, tools/confirm_seed.sh, tools/store_seed.py; remove the worktree with
# `git -C /repo worktree remove --force /tmp/wt_<id>`.
HERE=$(cd "$(dirname "$0")" && pwd)
P=$1; R=$2; ID=$P$R; WT=/tmp/wt_$ID
mkdir -p /tmp/seedtools/prior /tmp/seeded
git -C /repo worktree add --detach $WT HEAD >/dev/null 2>&1 || { echo "worktree failed"; exit 1; }
cp "$HERE/../baseline.sh" /tmp/seedtools/baseline.sh
python3 - "$P" > /tmp/seedtools/prop_$P.txt <<PY
import json,sys
for l in open("$HERE/../../properties.jsonl"):
    d=json.loads(l)
    if d.get("id")==sys.argv[1]: print(json.dumps(d,indent=1))
PY
sed -e "s#{WT}#$WT#g" -e "s#prop_{PID}#prop_$P#g" -e "s#{PID}#$ID#g" -e "s#{PIDBASE}#$P#g" "$HERE/INSTRUCTIONS.md" > /tmp/seedtools/task_$ID.md
prev=""
for d in "$HERE"/../../seeded/$P-*; do
  [ -f "$d/patch.diff" ] || continue
  n=$(basename "$d"); cp "$d/patch.diff" /tmp/seedtools/prior/$n.diff; prev="$prev /tmp/seedtools/prior/$n.diff"
done
if [ -n "$prev" ]; then
  echo "" >> /tmp/seedtools/task_$ID.md
  echo "Earlier seeded changes for this property exist:$prev — read them all and choose a clearly DIFFERENT clause of the property, site and mechanism (a different function, ideally a different file among the anchored ones)." >> /tmp/seedtools/task_$ID.md
fi
echo $WT /tmp/seedtools/task_$ID.md
