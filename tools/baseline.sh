#!/bin/sh
# Runs the repository's baseline test command (guard off) on a tree and compares with BASELINE.json's stable_pass list.
# usage: tools/baseline.sh [repo_dir]
REPO=${1:-/repo}
OUT=$(mktemp /tmp/junit.XXXXXX.xml)
cd "$REPO" && env -u PARTITURA_VERIF /venv/bin/python -m pytest -ra -q -p no:cacheprovider --timeout=900 --continue-on-collection-errors --junitxml="$OUT" >/dev/null 2>&1
python3 - "$OUT" <<'PY'
import json, sys, xml.etree.ElementTree as ET
base = set(json.load(open('/root/.vp/BASELINE.json'))['stable_pass'])
passed = set()
for tc in ET.parse(sys.argv[1]).getroot().iter('testcase'):
    if not any(c.tag in ('failure', 'error', 'skipped') for c in tc):
        passed.add(f"{tc.get('classname')}::{tc.get('name')}")
missing = sorted(base - passed)
print(f"baseline: {len(base & passed)}/{len(base)} stable tests pass; newly passing: {len(passed - base)}")
for m in missing:
    print("  MISSING", m)
sys.exit(1 if missing else 0)
PY
rc=$?
rm -f "$OUT"
exit $rc
