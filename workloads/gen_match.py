"""Generator of match-file line objects (C07) through the public constructors of
partitura.io.matchlines_v0 / matchlines_v1, for every line kind and format version.

`make_line(rng, kind, version)` -> Case(obj, kind, version, spec, shape, nontrivial)
  spec   JSON-serialisable description of the intended field values (the witness)
  shape  tuple of categorical features of the field values (abstract situation)
"""
from decimal import Decimal

VERSIONS_V0 = [(0, 1, 0), (0, 2, 0), (0, 3, 0), (0, 4, 0), (0, 5, 0)]
V1 = (1, 0, 0)
ALL_VERSIONS = VERSIONS_V0 + [V1]

KINDS_V1 = ["info", "scoreprop", "section", "stime", "ptime", "stime_ptime", "snote", "note", "snote_note", "deletion",
            "insertion", "ornament", "sustain", "soft"]
KINDS_V0 = ["info", "meta", "snote", "note", "snote_note", "deletion", "trailing_score_note", "no_played_note",
            "insertion", "hammer_bounce", "trailing_played_note", "trill", "sustain", "soft"]


def kinds_for(version):
    if tuple(version) >= V1:
        return KINDS_V1
    return [k for k in KINDS_V0 if k != "meta" or tuple(version) >= (0, 3, 0)]


class Case:
    __slots__ = ("obj", "kind", "version", "spec", "shape", "nontrivial")

    def __init__(self, obj, kind, version, spec, shape, nontrivial):
        self.obj, self.kind, self.version, self.spec, self.shape, self.nontrivial = obj, kind, version, spec, shape, nontrivial


# ----------------------------------------------------------------- atoms
_ID_CHARS = "abcdefghijklmnopqrstuvwxyzABCDEFGHIJKLMNOPQRSTUVWXYZ0123456789"
ATTRS = ["v1", "v2", "staff1", "staff2", "s", "stacc", "grace", "arp", "trill", "fermata", "accent", "leftOutTied",
         "diff_score_version", "voice3", "fingering1", "m", "ped", "ten"]
ANNOT = ["beat", "downbeat", "measure", "tactus", "sub", "onset"]
REPEAT_END = ["end", "repeat", "volta", "dacapo", "fine", "segno"]
ORNAMENTS = ["trill", "mordent", "turn", "grace", "arpeggio", "tremolo"]
WORDS = ["lento", "ma", "non", "troppo", "allegro", "andante", "con", "moto", "Presto", "vivace"]


def ident(rng, numeric_ok=True):
    """Identifier without separators (no comma, bracket, parenthesis, colon, blank)."""
    r = rng.random()
    if r < 0.45:
        return "n" + str(rng.randint(0, 99999))
    if r < 0.55 and numeric_ok:
        return str(rng.randint(0, 9999))
    if r < 0.75:
        return "n" + str(rng.randint(1, 999)) + "-" + str(rng.randint(1, 9))          # unfolded-score style id
    body = "".join(rng.choice(_ID_CHARS) for _ in range(rng.randint(1, 10)))
    mid = rng.choice(["", "_", ".", "-", "#"])
    tail = "".join(rng.choice(_ID_CHARS) for _ in range(rng.randint(1, 4))) if mid else ""
    return body + mid + tail


def text_value(rng):
    """Free text of info lines: words, blanks inside, dots, accents; no separators, no outer blanks."""
    words = [rng.choice(["Chopin", "op10", "no3", "W.", "A.", "Mozart", "Frèdéryk", "Cancino-Chacón", "k265_var1",
                         "score.musicxml", "perf#18.mid", "Pianist", "01", "Ünï", "L'isle"]) for _ in range(rng.randint(1, 4))]
    if rng.random() < 0.15:
        # file names and titles as they occur: a copy counter, an opus with a comma, an abbreviation closing a parenthesis
        words.insert(rng.randrange(len(words) + 1), rng.choice(["take (1).mid", "(posth.).", "Op. 10, No. 3", "(2nd ed.)", "a).b"]))
    return " ".join(words)


def grid_float(rng, d, lo=-8.0, hi=600.0):
    """A float that a text with d decimals denotes exactly."""
    k = rng.randint(int(lo * 10 ** d), int(hi * 10 ** d))
    return float(Decimal(k).scaleb(-d))


def any_float(rng, lo=-8.0, hi=600.0):
    return rng.uniform(lo, hi)


def beat_time(rng, d, offgrid_p=0.15):
    """-> (value, on_grid?) for a float field whose format keeps d decimals (None: unconstrained)."""
    r = rng.random()
    if d is None:
        if r < 0.4:
            return float(rng.randint(-4, 400)) / rng.choice([1, 2, 4, 8]), True
        if r < 0.8:
            return grid_float(rng, rng.choice([1, 2, 4, 6])), True
        return any_float(rng), True
    if r < offgrid_p:
        if rng.random() < 0.4:   # next to a rounding boundary of the grid
            return grid_float(rng, d) + rng.choice([0.5, 0.49, 0.51]) * 10.0 ** -d, False
        return any_float(rng), False
    if r < 0.5:
        return float(rng.randint(-4, 400)) / rng.choice([1, 2, 4, 8]), True     # dyadic: on every grid with d >= 3
    return grid_float(rng, d), True


def str_list(rng, pool, maxlen=6, p_empty=0.08, fresh=0.2):
    if rng.random() < p_empty:
        return []
    n = rng.randint(1, maxlen)
    return [ident(rng, numeric_ok=False) if rng.random() < fresh else rng.choice(pool) for _ in range(n)]


# ----------------------------------------------------------------- durations
DENS = [1, 2, 4, 8, 16, 32, 64, 128, 3, 6, 12, 24, 5, 7, 9, 10, 20, 48, 96]
TUPLE_DIVS = [3, 5, 7, 2, 6, 9]


def duration_spec(rng, allow_zero=True, p_add=0.2, p_tuplet=0.2, p_big=0.02):
    """-> list of components [(num, den, tuple_div|None), ...] (1 = plain, 2-3 = additive)."""
    def comp(nonzero):
        r = rng.random()
        if r < 0.15:
            n, d = rng.randint(0 if not nonzero else 1, 6), 1
        else:
            d = rng.choice(DENS)
            n = rng.randint(0 if not nonzero else 1, max(1, 2 * d)) if rng.random() < 0.3 else rng.randint(1, 7)
        t = rng.choice(TUPLE_DIVS) if rng.random() < p_tuplet else None
        return (n, d, t)
    r = rng.random()
    if r < p_big:
        return [(rng.randint(1025, 5000), rng.choice([1, 3, 7, 960, 1920, 2048]), None)]
    if r < p_big + p_add:
        return [comp(True) for _ in range(rng.choice([2, 2, 3]))]
    c = comp(not allow_zero)
    return [c]


def duration_shape(comps):
    if len(comps) > 1:
        return f"add{len(comps)}" + ("t" if any(c[2] for c in comps) else "")
    n, d, t = comps[0]
    if n > 1024 or d > 1024:
        return "big"
    if t is not None:
        return "tuplet1" if d == 1 else "tuplet"
    if d == 1:
        return "zero" if n == 0 else "int"
    return "rat"


def build_duration(comps):
    from partitura.io.matchfile_utils import FractionalSymbolicDuration as FSD
    objs = [FSD(n, d, t) for n, d, t in comps]
    out = objs[0]
    for o in objs[1:]:
        out = out + o
    return out


# ----------------------------------------------------------------- pitch
STEPS = "CDEFGAB"
ALTERS = [0, 0, 0, 1, -1, 2, -2]


def pitch_spec(rng, allow_rest):
    if allow_rest and rng.random() < 0.1:
        return ("R", None, None)
    return (rng.choice(STEPS), rng.choice(ALTERS), rng.randint(-1, 9) if rng.random() < 0.3 else rng.randint(1, 7))


# ----------------------------------------------------------------- keys / time signatures
def key_spec(rng, allow_alt, allow_list):
    def one():
        return (rng.randint(-7, 7), rng.choice(["major", "minor"]))
    k = {"key": list(one()), "alt": None, "others": []}
    if allow_alt and rng.random() < 0.2:
        k["alt"] = list(one())
    if allow_list and rng.random() < 0.25:
        k["others"] = [list(one()) for _ in range(rng.randint(1, 2))]
    return k


def build_key(k):
    from partitura.io.matchfile_utils import MatchKeySignature as K
    others = [K(f, m) for f, m in k["others"]]
    alt = k["alt"] or (None, None)
    return K(k["key"][0], k["key"][1], alt[0], alt[1], other_components=others)


TIMESIGS = [(2, 4), (3, 4), (4, 4), (6, 8), (3, 8), (2, 2), (5, 8), (7, 8), (12, 8), (9, 16), (4, 1), (3, 2), (1, 4)]


def build_timesig(num, den, others):
    from partitura.io.matchfile_utils import MatchTimeSignature as T, FractionalSymbolicDuration as FSD
    return T(num, den, [FSD(a, b) for a, b in others])


# ----------------------------------------------------------------- sub-lines
def _mods():
    from partitura.io import matchlines_v0 as M0, matchlines_v1 as M1
    from partitura.io.matchfile_utils import Version
    return M0, M1, Version


def make_snote(rng, version, allow_rest=True):
    M0, M1, Version = _mods()
    from vmon.refmodels.matchline import decimals
    v = Version(*version)
    step, alter, octave = pitch_spec(rng, allow_rest)
    d = decimals("snote", version, "OnsetInBeats")
    onset, g1 = beat_time(rng, d)
    offset, g2 = beat_time(rng, d)
    off_c = duration_spec(rng)
    dur_c = duration_spec(rng)
    attrs = str_list(rng, ATTRS)
    spec = {"Anchor": ident(rng), "NoteName": step, "Modifier": alter, "Octave": octave,
            "Measure": rng.randint(0, 300), "Beat": rng.randint(1, 12), "Offset": [list(c) for c in off_c],
            "Duration": [list(c) for c in dur_c], "OnsetInBeats": onset, "OffsetInBeats": offset,
            "ScoreAttributesList": attrs}
    cls = M1.MatchSnote if tuple(version) >= V1 else M0.MatchSnote
    obj = cls(version=v, anchor=spec["Anchor"], note_name=step, modifier=alter, octave=octave, measure=spec["Measure"],
              beat=spec["Beat"], offset=build_duration(off_c), duration=build_duration(dur_c), onset_in_beats=onset,
              offset_in_beats=offset, score_attributes_list=list(attrs))
    shape = ("rest" if step == "R" else f"alt{alter}", duration_shape(off_c), duration_shape(dur_c),
             "grid" if g1 and g2 else "offgrid", f"attrs{min(len(attrs), 3)}")
    nontrivial = bool(attrs) or step == "R" or alter != 0 or duration_shape(dur_c) not in ("rat", "int")
    return obj, spec, shape, nontrivial


def make_note(rng, version):
    M0, M1, Version = _mods()
    v = Version(*version)
    nid = ident(rng)
    if tuple(version) >= V1:
        on = rng.randint(0, 10 ** rng.randint(2, 7))
        spec = {"Id": nid, "MidiPitch": rng.randint(0, 127), "Onset": on, "Offset": on + rng.randint(0, 5000),
                "Velocity": rng.randint(0, 127), "Channel": rng.randint(0, 16), "Track": rng.randint(0, 20)}
        obj = M1.MatchNote(version=v, id=nid, midi_pitch=spec["MidiPitch"], onset=spec["Onset"], offset=spec["Offset"],
                           velocity=spec["Velocity"], channel=spec["Channel"], track=spec["Track"])
        return obj, spec, ("v1note", "ch1tr0" if (spec["Channel"], spec["Track"]) == (1, 0) else "chtr"), \
            (spec["Channel"], spec["Track"]) != (1, 0)
    step, alter, octave = pitch_spec(rng, allow_rest=False)
    if tuple(version) < (0, 3, 0):
        r = rng.random()
        if r < 0.15:
            on, grid = any_float(rng, 0, 5000), False
            off = on + any_float(rng, 0, 50)
        elif r < 0.25:                       # exactly between two integer ticks (upgrade rounding is open there)
            on, grid = rng.randint(0, 10 ** 5) + 0.5, True
            off = on + rng.randint(0, 500)
        else:
            on, grid = grid_float(rng, 2, 0, 5000), True
            off = grid_float(rng, 2, 0, 5000)
        adj = None
    else:
        on, grid = rng.randint(0, 10 ** rng.randint(2, 7)), True
        off = on + rng.randint(0, 5000)
        adj = off + rng.choice([0, 0, rng.randint(1, 4000)])
    spec = {"Id": nid, "NoteName": step, "Modifier": alter, "Octave": octave, "Onset": on, "Offset": off,
            "Velocity": rng.randint(0, 127)}
    kw = {}
    if adj is not None:
        spec["AdjOffset"] = adj
        kw["adj_offset"] = adj
    obj = M0.MatchNote(version=v, id=nid, note_name=step, modifier=alter, octave=octave, onset=on, offset=off,
                       velocity=spec["Velocity"], **kw)
    shape = (f"alt{alter}", "grid" if grid else "offgrid", "adj" if adj is not None and adj != off else "noadj")
    return obj, spec, shape, alter != 0 or (adj is not None and adj != off)


def make_stime(rng, version):
    M0, M1, Version = _mods()
    on, g = beat_time(rng, 4)
    off_c = duration_spec(rng)
    annot = str_list(rng, ANNOT, maxlen=4, fresh=0.0)
    spec = {"Measure": rng.randint(0, 300), "Beat": rng.randint(1, 12), "Offset": [list(c) for c in off_c],
            "OnsetInBeats": on, "AnnotationType": annot}
    obj = M1.MatchStime(version=Version(*version), measure=spec["Measure"], beat=spec["Beat"],
                        offset=build_duration(off_c), onset_in_beats=on, annotation_type=list(annot))
    return obj, spec, (duration_shape(off_c), "grid" if g else "offgrid", f"annot{min(len(annot), 2)}"), len(annot) > 0


def make_ptime(rng, version):
    M0, M1, Version = _mods()
    onsets = [rng.randint(0, 10 ** rng.randint(1, 7)) for _ in range(rng.randint(1, 6))]
    obj = M1.MatchPtime(version=Version(*version), onsets=list(onsets))
    return obj, {"Onsets": onsets}, (f"n{min(len(onsets), 3)}",), len(onsets) > 1


# ----------------------------------------------------------------- info-like lines
V1_INFO = {"str": ["piece", "scoreFileName", "scoreFilePath", "midiFileName", "midiFilePath", "audioFileName",
                   "audioFilePath", "performer", "composer", "subtitle"],
           "float": ["audioFirstNote", "audioLastNote", "approximateTempo"],
           "int": ["midiClockUnits", "midiClockRate"], "version": ["matchFileVersion"]}
V0_INFO = {"str": ["piece", "scoreFileName", "scoreFilePath", "midiFileName", "midiFilename", "midiFilePath",
                   "audioFileName", "audioFilePath", "performer", "composer"],
           "float": ["audioFirstNote", "audioLastNote", "approximateTempo"],
           "int": ["midiClockUnits", "midiClockRate"], "version": ["matchFileVersion"],
           "list": ["subtitle", "tempoIndication", "beatSubDivision", "beatSubdivision", "mergedFrom"],
           "plain": ["partSequence"], "key": ["keySignature"], "timesig": ["timeSignature"]}


def make_info(rng, version):
    M0, M1, Version = _mods()
    v = Version(*version)
    is_v1 = tuple(version) >= V1
    table = V1_INFO if is_v1 else V0_INFO
    typ = rng.choice(list(table))
    attr = rng.choice(table[typ])
    shape_extra = ""
    if typ == "str":
        value = jv = text_value(rng) if rng.random() < 0.7 else ident(rng, numeric_ok=False)
        if rng.random() < 0.03:
            value = jv = ""                 # an attribute left empty (performer unknown)
    elif typ == "plain":
        value = jv = ident(rng, numeric_ok=False)
    elif typ == "float":
        value, g = beat_time(rng, 4 if is_v1 else None)
        value = abs(value)
        jv = value
        shape_extra = "grid" if g else "offgrid"
    elif typ == "int":
        value = jv = rng.choice([480, 4000, 500000, 1, rng.randint(1, 10 ** 6)])
    elif typ == "version":
        value, jv = v, list(version)
    elif typ == "list":
        if attr.lower() == "beatsubdivision":
            jv = [str(rng.choice([1, 2, 3, 4, 6, 8])) for _ in range(rng.randint(1, 3))]
        else:
            jv = str_list(rng, WORDS, maxlen=5, fresh=0.1)
        value = list(jv)
        shape_extra = f"len{min(len(jv), 2)}"
    elif typ == "key":
        old = tuple(version) < (0, 3, 0)
        k = key_spec(rng, allow_alt=not old, allow_list=not old)
        value, jv = build_key(k), k
        shape_extra = f"{k['key'][0]}{k['key'][1][:3]}" + ("/alt" if k["alt"] else "") + ("+list" if k["others"] else "")
    else:  # timesig
        num, den = rng.choice(TIMESIGS)
        # (a list of signatures in every version: files of versions 0.1.0-0.3.0 have them too)
        others = [list(rng.choice(TIMESIGS)) for _ in range(rng.randint(1, 3))] if rng.random() < 0.3 else []
        value, jv = build_timesig(num, den, others), {"ts": [num, den], "others": others}
        shape_extra = f"{num}/{den}" + ("+list" if others else "")
    spec = {"Attribute": attr, "Value": jv}
    if is_v1:
        obj = M1.make_info(v, attr, value)
    else:
        _, fmt, typ_ = M0.INFO_LINE[v][attr]
        obj = M0.MatchInfo(version=v, attribute=attr, value=value, value_type=typ_, format_fun=fmt)
    return obj, spec, (attr, shape_extra), typ not in ("version",)


def make_scoreprop(rng, version):
    M0, M1, Version = _mods()
    v = Version(*version)
    attr = rng.choice(["timeSignature", "keySignature", "keySignature", "tempoIndication", "beatSubDivision",
                       "directions"])
    if attr == "timeSignature":
        num, den = rng.choice(TIMESIGS)
        value, jv, sx = build_timesig(num, den, []), {"ts": [num, den], "others": []}, f"{num}/{den}"
    elif attr == "keySignature":
        k = key_spec(rng, allow_alt=True, allow_list=False)
        value, jv = build_key(k), k
        sx = f"{k['key'][0]}{k['key'][1][:3]}" + ("/alt" if k["alt"] else "")
    elif attr == "tempoIndication":
        from partitura.io.matchfile_utils import MatchTempoIndication
        jv = " ".join(rng.choice(WORDS) for _ in range(rng.randint(1, 3)))
        value, sx = MatchTempoIndication(jv), "tempo"
    elif attr == "beatSubDivision":
        jv = [rng.choice([1, 2, 3, 4, 6, 8]) for _ in range(rng.randint(1, 3))]
        value, sx = list(jv), f"len{len(jv)}"
    else:
        jv = str_list(rng, WORDS, maxlen=5, fresh=0.2)
        value, sx = list(jv), f"len{min(len(jv), 2)}"
    t, g = beat_time(rng, 4)
    off_c = duration_spec(rng)
    spec = {"Attribute": attr, "Value": jv, "Measure": rng.randint(0, 300), "Beat": rng.randint(1, 12),
            "Offset": [list(c) for c in off_c], "TimeInBeats": t}
    obj = M1.make_scoreprop(v, attr, value, spec["Measure"], spec["Beat"], build_duration(off_c), t)
    return obj, spec, (attr, sx, duration_shape(off_c), "grid" if g else "offgrid"), True


def make_meta(rng, version):
    M0, M1, Version = _mods()
    v = Version(*version)
    attr = rng.choice(["timeSignature", "keySignature"])
    if attr == "timeSignature":
        num, den = rng.choice(TIMESIGS)
        value, jv, sx = build_timesig(num, den, []), {"ts": [num, den], "others": []}, f"{num}/{den}"
    else:
        k = key_spec(rng, allow_alt=True, allow_list=False)
        value, jv = build_key(k), k
        sx = f"{k['key'][0]}{k['key'][1][:3]}" + ("/alt" if k["alt"] else "")
    t, _ = beat_time(rng, None)
    spec = {"Attribute": attr, "Value": jv, "Measure": rng.randint(0, 300), "TimeInBeats": t}
    _, fmt, typ = M0.META_LINE[v][attr]
    obj = M0.MatchMeta(version=v, attribute=attr, value=value, value_type=typ, format_fun=fmt,
                       measure=spec["Measure"], time_in_beats=t)
    return obj, spec, (attr, sx), True


def make_section(rng, version):
    M0, M1, Version = _mods()
    vals, grids = zip(*[beat_time(rng, 4) for _ in range(4)])
    rep = str_list(rng, REPEAT_END, maxlen=3, fresh=0.0)
    spec = {"StartInBeatsUnfolded": vals[0], "EndInBeatsUnfolded": vals[1], "StartInBeatsOriginal": vals[2],
            "EndInBeatsOriginal": vals[3], "RepeatEndType": rep}
    obj = M1.make_section(Version(*version), vals[0], vals[1], vals[2], vals[3], list(rep))
    return obj, spec, ("grid" if all(grids) else "offgrid", f"rep{min(len(rep), 2)}"), len(rep) > 0


def make_pedal(rng, kind, version):
    M0, M1, Version = _mods()
    mod = M1 if tuple(version) >= V1 else M0
    cls = mod.MatchSustainPedal if kind == "sustain" else mod.MatchSoftPedal
    spec = {"Time": rng.randint(0, 10 ** rng.randint(1, 7)), "Value": rng.choice([0, 127, 64, 63, rng.randint(0, 127)])}
    obj = cls(version=Version(*version), time=spec["Time"], value=spec["Value"])
    return obj, spec, ("zero" if spec["Value"] == 0 else "down" if spec["Value"] > 63 else "up",), spec["Value"] not in (0, 127)


# ----------------------------------------------------------------- dispatcher
def make_line(rng, kind, version):
    M0, M1, Version = _mods()
    v = Version(*version)
    is_v1 = tuple(version) >= V1
    mod = M1 if is_v1 else M0
    if kind == "info":
        r = make_info(rng, version)
    elif kind == "scoreprop":
        r = make_scoreprop(rng, version)
    elif kind == "meta":
        r = make_meta(rng, version)
    elif kind == "section":
        r = make_section(rng, version)
    elif kind == "stime":
        r = make_stime(rng, version)
    elif kind == "ptime":
        r = make_ptime(rng, version)
    elif kind == "stime_ptime":
        s, ss, sh1, n1 = make_stime(rng, version)
        p, ps, sh2, n2 = make_ptime(rng, version)
        r = (M1.MatchStimePtime(version=v, stime=s, ptime=p), {"stime": ss, "ptime": ps}, sh1 + sh2, n1 or n2)
    elif kind == "snote":
        r = make_snote(rng, version)
    elif kind == "note":
        r = make_note(rng, version)
    elif kind == "snote_note":
        s, ss, sh1, n1 = make_snote(rng, version)
        n, ns, sh2, n2 = make_note(rng, version)
        r = (mod.MatchSnoteNote(version=v, snote=s, note=n), {"snote": ss, "note": ns}, sh1 + sh2, n1 or n2)
    elif kind in ("deletion", "trailing_score_note", "no_played_note"):
        s, ss, sh1, n1 = make_snote(rng, version)
        cls = {"deletion": mod.MatchSnoteDeletion,
               "trailing_score_note": getattr(mod, "MatchSnoteTrailingScore", None),
               "no_played_note": getattr(mod, "MatchSnoteNoPlayedNote", None)}[kind]
        r = (cls(version=v, snote=s), {"snote": ss}, sh1, n1)
    elif kind in ("insertion", "hammer_bounce", "trailing_played_note"):
        n, ns, sh2, n2 = make_note(rng, version)
        cls = {"insertion": mod.MatchInsertionNote, "hammer_bounce": getattr(mod, "MatchHammerBounceNote", None),
               "trailing_played_note": getattr(mod, "MatchTrailingPlayedNote", None)}[kind]
        r = (cls(version=v, note=n), {"note": ns}, sh2, n2)
    elif kind == "ornament":
        n, ns, sh2, n2 = make_note(rng, version)
        typ = str_list(rng, ORNAMENTS, maxlen=3, fresh=0.1)
        anchor = ident(rng)
        r = (M1.MatchOrnamentNote(version=v, anchor=anchor, ornament_type=list(typ), note=n),
             {"Anchor": anchor, "OrnamentType": typ, "note": ns}, sh2 + (f"types{min(len(typ), 2)}",), True)
    elif kind == "trill":
        n, ns, sh2, n2 = make_note(rng, version)
        anchor = ident(rng)
        r = (M0.MatchTrillNote(version=v, anchor=anchor, note=n), {"Anchor": anchor, "note": ns}, sh2, True)
    elif kind in ("sustain", "soft"):
        r = make_pedal(rng, kind, version)
    else:
        raise ValueError(kind)
    obj, spec, shape, nontrivial = r
    return Case(obj, kind, tuple(version), spec, tuple(shape), nontrivial)
