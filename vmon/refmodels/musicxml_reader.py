"""A from-scratch MusicXML interpreter (lxml walk) that knows only: <divisions>,
the time cursor, <backup>/<forward>, <chord>, <grace>, <tie>, pitch.  It returns
the sounding notes a file denotes, per part, in exact quarters from the start."""
import collections
from fractions import Fraction

from lxml import etree

NAT = {"C": 0, "D": 2, "E": 4, "F": 5, "G": 7, "A": 9, "B": 11}


def sounding_notes(xml_bytes):
    root = etree.fromstring(xml_bytes)
    out = collections.OrderedDict()
    for part in root.findall("part"):
        divisions = Fraction(1)
        cursor = Fraction(0)
        raw = []                       # (onset, end, midi, tie types) of every pitched note in document order
        for measure in part.findall("measure"):
            start = cursor
            reach = cursor
            last_onset = cursor
            for el in measure:
                if el.tag == "attributes":
                    d = el.find("divisions")
                    if d is not None:
                        divisions = Fraction(int(d.text))
                elif el.tag == "backup":
                    cursor -= Fraction(int(el.find("duration").text)) / divisions
                elif el.tag == "forward":
                    cursor += Fraction(int(el.find("duration").text)) / divisions
                    reach = max(reach, cursor)
                elif el.tag == "note":
                    grace = el.find("grace") is not None
                    chord = el.find("chord") is not None
                    dur_el = el.find("duration")
                    dur = Fraction(0) if grace or dur_el is None else Fraction(int(dur_el.text)) / divisions
                    onset = last_onset if chord else cursor
                    if not chord and not grace:
                        last_onset = cursor
                        cursor += dur
                        reach = max(reach, cursor)
                    elif grace and not chord:
                        last_onset = cursor
                    pitch = el.find("pitch")
                    if pitch is None:
                        continue           # rests and unpitched notes do not sound a pitch
                    midi = 12 * (int(pitch.find("octave").text) + 1) + NAT[pitch.find("step").text] + \
                        (int(float(pitch.find("alter").text)) if pitch.find("alter") is not None else 0)
                    types = {t.get("type") for t in el.findall("tie")}
                    raw.append((onset, onset + dur, midi, types))
            cursor = reach
        # ties are paired by pitch and by time (not by document order: voices are written one after the other):
        # a note with a tie stop continues the note of that pitch with a tie start that ends where it begins
        raw.sort(key=lambda r: (r[0], r[1]))
        notes = []                     # [onset, end, midi]
        open_ties = {}                 # (midi, end time) -> index into notes
        for onset, end, midi, types in raw:
            k = (midi, onset)
            if "stop" in types and k in open_ties:
                i = open_ties.pop(k)
                notes[i][1] = end
            else:
                notes.append([onset, end, midi])
                i = len(notes) - 1
            if "start" in types:
                open_ties[(midi, end)] = i
        out[part.get("id")] = sorted((n[0], n[1] - n[0], n[2]) for n in notes)
    return out
