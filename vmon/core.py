"""Monitoring core: per-shard context, hooks on real functions, verdict data.

A *monitor module* (monitors/cNN.py) exposes

    PROP            "C01"
    RULE            text: how cases are generated and what makes one non-trivial
    ASSUMPTIONS     list of str
    MIN_HOOKS       {hook name: minimum evaluations per run}   (deciding hooks)
    MIN_NONTRIVIAL  {"quick": n, "thorough": n}
    plan(tier, seed) -> list of JSON-serialisable work items
    run_item(ctx, item) -> None      executes the real code under the monitors

`run_item` reports through the Ctx:  ctx.case(...), ctx.violation(...),
ctx.hook(...), ctx.state(...), ctx.ambiguous(...).  Calls into partitura that
the property promises not to fail go through ctx.call(...), which turns an
exception of the library into a violation (key raise:<Type>@<module>.<func>)
while an exception of the monitor itself is a MONITOR-ERROR (inconclusive).
"""
import collections
import functools
import hashlib
import json
import os
import random
import sys
import time
import traceback

REPO = os.environ.get("VERIF_REPO", "/repo")


def digest(obj):
    """Stable short digest of a JSON-like object (used for distinct counting)."""
    s = json.dumps(obj, sort_keys=True, default=repr, separators=(",", ":"))
    return hashlib.sha1(s.encode()).hexdigest()[:16]


class PartituraRaised(Exception):
    """The library raised on an input the property promises a result for."""

    def __init__(self, exc, where, tb):
        super().__init__(f"{type(exc).__name__}: {exc}")
        self.exc = exc
        self.where = where
        self.tb = tb


def innermost_partitura_frame(tb):
    where = None
    for fs in traceback.extract_tb(tb):
        fn = fs.filename.replace("\\", "/")
        if "/partitura/" in fn and "/verif/" not in fn:
            mod = fn.split("/partitura/", 1)[1][:-3].replace("/", ".")
            where = f"{mod}.{fs.name}"
    return where


class Ctx:
    def __init__(self, prop, tier, seed, shard=0, nshards=1):
        self.prop = prop
        self.tier = tier
        self.seed = seed
        self.shard = shard
        self.nshards = nshards
        self.hooks = collections.Counter()
        self.evaluations = 0
        self.oracle_checks = 0
        self.n_ambiguous = 0
        self.nontrivial = set()
        self.states = set()
        self.samples = []
        self.violations = []
        self.monitor_errors = []
        self.extra = collections.Counter()
        self.classes = collections.Counter()
        self.item = None
        self._viol_keys = collections.Counter()

    # ---------------------------------------------------------------- recording
    def rng(self, *parts):
        return random.Random(":".join(str(p) for p in (self.prop, self.seed) + parts))

    def hook(self, name, n=1):
        self.hooks[name] += n

    def check(self, n=1):
        self.oracle_checks += int(n)

    def ambiguous(self, n=1):
        self.n_ambiguous += n

    def state(self, s):
        if len(self.states) < 200000:
            self.states.add(s if isinstance(s, str) else digest(s))

    def case(self, sig, nontrivial, sample=None, cls=None):
        """One executed case; `sig` identifies it for distinct counting."""
        self.evaluations += 1
        if cls:
            self.classes[cls] += 1
        if nontrivial:
            self.nontrivial.add(sig if isinstance(sig, str) else digest(sig))
        if len(self.samples) < 3:
            # a monitor that gives no sample of its own still shows what kind of case ran
            self.samples.append(sample if sample is not None else {"case": sig if isinstance(sig, str) else repr(sig)[:200], "class": cls})

    def violation(self, key, what, witness=None):
        """An oracle disagreed with the real code. `key` names the mechanism."""
        self._viol_keys[key] += 1
        if self._viol_keys[key] > 5:      # keep a few witnesses per mechanism
            return
        self.violations.append(
            {"key": key, "what": what, "item": self.item, "witness": witness}
        )

    def call(self, fn, *args, **kwargs):
        """Invoke library code whose failure is a violation of the property."""
        try:
            return fn(*args, **kwargs)
        except PartituraRaised:
            raise
        except Exception as e:  # noqa
            tb = sys.exc_info()[2]
            where = innermost_partitura_frame(tb)
            if where is None:  # raised in monitor/third-party code only
                raise
            raise PartituraRaised(e, where, traceback.format_exc(limit=-6)) from None

    def try_call(self, fn, *args, **kwargs):
        """Like call, but records the raise as a violation and returns (ok, result)."""
        try:
            return True, self.call(fn, *args, **kwargs)
        except PartituraRaised as pr:
            self.raised(pr)
            return False, None

    def raised(self, pr, extra=None):
        self.violation(
            f"raise:{type(pr.exc).__name__}@{pr.where}",
            f"library raised {type(pr.exc).__name__}: {pr.exc}",
            {"traceback": pr.tb[-1500:], "detail": extra},
        )

    # ---------------------------------------------------------------- results
    def result(self):
        return {
            "shard": self.shard,
            "hooks": dict(self.hooks),
            "evaluations": self.evaluations,
            "oracle_checks": self.oracle_checks,
            "ambiguous": self.n_ambiguous,
            "nontrivial": sorted(self.nontrivial),
            "states": sorted(self.states),
            "samples": self.samples,
            "violations": self.violations,
            "viol_counts": dict(self._viol_keys),
            "monitor_errors": self.monitor_errors[:5],
            "n_monitor_errors": len(self.monitor_errors),
            "extra": dict(self.extra),
            "classes": dict(self.classes),
        }


class ItemTimeout(BaseException):
    """A single work item exceeded its time budget (a BaseException so that neither the
    monitor's nor the library's `except Exception` swallows it). Inconclusive, never a violation."""


def run_items(mod, ctx, items, deadline=None):
    import signal
    budget = getattr(mod, "ITEM_TIMEOUT_S", 180)

    def on_alarm(signum, frame):
        raise ItemTimeout()

    try:
        signal.signal(signal.SIGALRM, on_alarm)
        have_alarm = True
    except (ValueError, AttributeError):
        have_alarm = False
    for it in items:
        if deadline and time.time() > deadline:
            ctx.extra["items_skipped_deadline"] += 1
            continue
        ctx.item = it
        pytest_item = isinstance(it, list) and it and it[0] in ("pytest-tier", "pytest")
        if have_alarm:
            signal.setitimer(signal.ITIMER_REAL, 2400 if pytest_item else budget)
        try:
            if pytest_item:
                # the repository's own tests under this property's monitors (a violation found there
                # is replayed by running that one test again: item ["pytest", nodeid])
                from . import pytest_tier
                pytest_tier.run(ctx, mod.__name__.rsplit(".", 1)[-1], timeout=2100,
                                select=[it[1]] if it[0] == "pytest" and len(it) > 1 else None)
            else:
                mod.run_item(ctx, it)
        except PartituraRaised as pr:
            ctx.raised(pr)
        except ItemTimeout:
            ctx.monitor_errors.append({"item": it, "traceback": f"ITEM-TIMEOUT after {budget}s (inconclusive)"})
        except Exception:  # the monitor itself failed: inconclusive, not a violation
            ctx.monitor_errors.append({"item": it, "traceback": traceback.format_exc()[-2500:]})
        finally:
            if have_alarm:
                signal.setitimer(signal.ITIMER_REAL, 0)
    ctx.item = None


# ------------------------------------------------------------------------ hooks
class Hook:
    """Replace attribute `name` of `owner` by a wrapper calling pre/post around the
    real function.  post(ret, exc, pre_token, args, kwargs).  Counted per call."""

    installed = []

    def __init__(self, owner, name, pre=None, post=None, ctx=None, label=None, prop=False):
        self.owner, self.name = owner, name
        self.orig = owner.__dict__[name] if isinstance(owner, type) else getattr(owner, name)
        self.label = label or f"{getattr(owner, '__name__', owner)}.{name}"
        self.active = True
        self.depth = 0
        hook = self
        real = self.orig
        if isinstance(real, property):
            fget = real.fget

            def getter(self_):
                return hook._invoke(fget, (self_,), {}, pre, post, ctx)

            wrapper = property(getter, real.fset, real.fdel, real.__doc__)
        elif isinstance(real, (staticmethod, classmethod)):
            raise TypeError("wrap the underlying function instead")
        else:
            @functools.wraps(real)
            def wrapper(*a, **k):
                return hook._invoke(real, a, k, pre, post, ctx)

        setattr(owner, name, wrapper)
        self.wrapper = wrapper
        Hook.installed.append(self)

    def _invoke(self, real, a, k, pre, post, ctx):
        if not self.active or self.depth:
            return real(*a, **k)
        self.depth += 1
        try:
            if ctx is not None:
                ctx.hook(self.label)
            token = pre(*a, **k) if pre else None
        finally:
            self.depth -= 1
        try:
            ret = real(*a, **k)
        except BaseException as e:
            if post:
                self.depth += 1
                try:
                    post(None, e, token, a, k)
                finally:
                    self.depth -= 1
            raise
        if post:
            self.depth += 1
            try:
                post(ret, None, token, a, k)
            finally:
                self.depth -= 1
        return ret

    def remove(self):
        setattr(self.owner, self.name, self.orig)
        if self in Hook.installed:
            Hook.installed.remove(self)

    @classmethod
    def remove_all(cls):
        for h in list(cls.installed):
            h.remove()


def rebind_everywhere(orig, wrapper, root="partitura"):
    """References bound by `from m import f` before wrapping bypass a wrapper:
    rebind every module-level alias of `orig` inside the package."""
    n = 0
    for name, m in list(sys.modules.items()):
        if m is None or not (name == root or name.startswith(root + ".")):
            continue
        for attr, val in list(vars(m).items()):
            if val is orig:
                setattr(m, attr, wrapper)
                n += 1
    return n


CURRENT = None  # the Ctx contracts report to (set by monitors' setup())


def set_current(ctx):
    global CURRENT
    CURRENT = ctx
    return ctx
