"""C06 — performance MIDI export and import preserve notes, controls and timing.

Three hooks sit on the real functions and fire on every call:

* `save_performance_midi` (post-condition): the written file (returned
  `MidiFile`, path, or file-like) is re-parsed with mido and its absolute-tick
  event table is compared, per written track, with the table the statement
  prescribes for the argument as it was when the call was made: every
  note/control/program/signature/meta event at the nearest tick of its time
  (exact `Fraction` rounding; both neighbours accepted on a half tick), one
  `set_tempo` = mpq at tick 0, `ticks_per_beat` = ppq.
* `load_performance_midi` (post-condition): the file is read again by
  `vmon.refmodels.midi_model` (tempo integration over *all* set_tempo events of
  the file in tick order with Fractions, note pairing per stream, id order) and
  compared with the returned `Performance`.
* `adjust_time` (post-condition): for a tick-sorted tempo list the result is the
  exact piecewise sum.

The driver generates performances / raw MIDI files (workloads/gen_perf.py),
runs save -> load, and additionally compares the loaded performance with the
saved one end to end (only reported when no hook explains the difference).
"""
import collections
import io
import numpy as np
import itertools
import os
import tempfile
from fractions import Fraction

from vmon import core
from vmon.refmodels import midi_model as MM
from vmon.refmodels import pitch as P

PROP = "C06"
EXHAUSTIVE = False
RULE = ("round-trip cases: generated performances (1-4 performed parts, 1-3 tracks each, float times free / on a tick / on "
        "or next to a half tick, touching and zero-length notes, velocities 1..127, channels 0..15, controls of any "
        "number/value, programs or none, key/time signatures, other meta events) given as Performance, PerformedPart or "
        "list/tuple, saved with ppq in {96,480,960,1000,random} x mpq in {250000,500000,612244,random}, with/without "
        "track merging on either side, to a path / file object / returned MidiFile, loaded through load_performance_midi "
        "or load_performance; hostile classes: shuffled note lists, non-contiguous track numbers, parts sharing a track; "
        "reader cases: directly built type-0/1 files with 0-8 set_tempo events in any track (only first, only last, "
        "spread; repeated equal tempi), zero-velocity note-ons as offs, interleaved pitchwheel/aftertouch/sysex; the "
        "MIDI fixtures of tests/data loaded and round-tripped. Non-trivial: round trip with >= 2 notes, >= 1 control "
        "and (>= 2 written tracks or merging or non-default ppq/mpq); reader case with >= 1 effective tempo change "
        "after tick 0 and a note ending after it; fixture with >= 10 notes. Distinct by digest of the generated spec")
ASSUMPTIONS = ["mido parses/writes MIDI bytes correctly (the model starts from mido messages)",
               "seconds compared with exact rationals at relative tolerance 1e-9",
               "a time within 1e-6 tick of a half tick may round either way (counted as ambiguous)",
               "default program_change(program=0) events inserted for parts without programs, and end_of_track, are "
               "format artefacts: tolerated, never required",
               "equal-tick note-off/note-on of one channel+pitch written in non-chronological list order, tempo events of "
               "different tracks on one tick with different values, overlapping/stray note events: not judged"]
MIN_HOOKS = {"save_performance_midi": {"quick": 2500, "thorough": 25000},
             "load_performance_midi": {"quick": 4000, "thorough": 40000},
             "adjust_time": {"quick": 20000, "thorough": 200000}}
MIN_NONTRIVIAL = {"quick": 2500, "thorough": 25000}
WATCHDOG_S = {"quick": 900, "thorough": 7200}

CASES_PER_ITEM = 20
_hooks = []
KEY2FM = {v: k for k, v in P.ALL_KEYS.items()}


def C():
    return core.CURRENT


def close(x, exact, rel=1e-9):
    try:
        fx = Fraction(float(x))
    except (TypeError, ValueError, OverflowError):
        return False
    return abs(fx - exact) <= Fraction(rel) * max(1, abs(exact))


def nviol(ctx):
    return sum(ctx._viol_keys.values())


def jsonable(x):
    if isinstance(x, dict):
        return {str(k): jsonable(v) for k, v in x.items()}
    if isinstance(x, (list, tuple)):
        return [jsonable(v) for v in x]
    if isinstance(x, Fraction):
        return float(x) if x.denominator != 1 else int(x)
    if hasattr(x, "item") and not isinstance(x, (str, bytes)):
        return x.item()
    return x


# ------------------------------------------------------------------ snapshot of what is saved
def snap_perf(data):
    from partitura.performance import Performance, PerformedPart
    if isinstance(data, Performance):
        kind, pps = "performance", list(data.performedparts)
    elif isinstance(data, PerformedPart):
        kind, pps = "part", [data]
    elif isinstance(data, (list, tuple)) and all(isinstance(p, PerformedPart) for p in data):
        kind, pps = "list", list(data)
    else:
        return None
    parts = []
    for pp in pps:
        parts.append({
            "notes": [(int(n["midi_pitch"]), int(n["velocity"]), int(n["channel"]), int(n["track"]),
                       float(n["note_on"]), float(n["note_off"])) for n in pp.notes],
            "controls": [(int(c["number"]), int(c["value"]), int(c.get("channel", 1)), int(c.get("track", 0)), float(c["time"]))
                         for c in pp.controls],
            "programs": [(int(c["program"]), int(c.get("channel", 1)), int(c.get("track", 0)), float(c["time"]))
                         for c in pp.programs],
            "keys": [(c.get("fifths", 0), c.get("mode", None), int(c.get("track", 0)), float(c["time"])) for c in pp.key_signatures],
            "times": [(int(c.get("beats", 4)), int(c.get("beat_type", 4)), int(c.get("track", 0)), float(c["time"]))
                      for c in pp.time_signatures],
            "metas": [(c["type"], MM.norm_payload({k: v for k, v in c.items() if k not in ("time", "time_tick", "track", "type")}),
                       int(c.get("track", 0)), float(c["time"])) for c in pp.meta_other],
        })
    return {"kind": kind, "parts": parts}


def snap_tracks(snap):
    s = set()
    for p in snap["parts"]:
        s.update(n[3] for n in p["notes"])
        s.update(c[3] for c in p["controls"])
        s.update(c[2] for c in p["programs"])
        s.update(c[2] for c in p["keys"])
        s.update(c[2] for c in p["times"])
        s.update(c[2] for c in p["metas"])
    return sorted(s)


def key_payload(fifths, mode):
    m = {None: "major", "none": "major", 1: "major", -1: "minor"}.get(mode, mode)
    return P.ALL_KEYS.get((int(fifths), m))


def expected_table(snap, mpq, ppq, track_of):
    """-> {written track: [(payload, allowed ticks, source)]}, default-program combos."""
    exp = collections.defaultdict(list)
    defaults = set()
    for p in snap["parts"]:
        for pitch, vel, ch, tr, on, off in p["notes"]:
            src = {"note": {"midi_pitch": pitch, "velocity": vel, "channel": ch, "track": tr, "note_on": on, "note_off": off}}
            exp[track_of[tr]].append((("on", ch, pitch, vel), MM.allowed_ticks(on, mpq, ppq), src))
            exp[track_of[tr]].append((("off", ch, pitch), MM.allowed_ticks(off, mpq, ppq), src))
        for num, val, ch, tr, t in p["controls"]:
            exp[track_of[tr]].append((("cc", ch, num, val), MM.allowed_ticks(t, mpq, ppq),
                                      {"control": {"number": num, "value": val, "channel": ch, "track": tr, "time": t}}))
        for prog, ch, tr, t in p["programs"]:
            exp[track_of[tr]].append((("pc", ch, prog), MM.allowed_ticks(t, mpq, ppq),
                                      {"program": {"program": prog, "channel": ch, "track": tr, "time": t}}))
        for fifths, mode, tr, t in p["keys"]:
            exp[track_of[tr]].append((("ks", key_payload(fifths, mode)), MM.allowed_ticks(t, mpq, ppq),
                                      {"key_signature": {"fifths": fifths, "mode": mode, "track": tr, "time": t}}))
        for beats, bt, tr, t in p["times"]:
            exp[track_of[tr]].append((("ts", beats, bt), MM.allowed_ticks(t, mpq, ppq),
                                      {"time_signature": {"beats": beats, "beat_type": bt, "track": tr, "time": t}}))
        for ty, payload, tr, t in p["metas"]:
            if ty == "end_of_track":      # rewritten by the MIDI writer / by track merging: only its track counts
                continue
            exp[track_of[tr]].append((("meta", ty, payload), MM.allowed_ticks(t, mpq, ppq),
                                      {"meta": {"type": ty, "payload": payload, "track": tr, "time": t}}))
        if not p["programs"]:
            defaults.update((track_of[n[3]], n[2]) for n in p["notes"])
            defaults.update((track_of[c[3]], c[2]) for c in p["controls"])
    return exp, defaults


KIND = {"on": "note", "off": "note", "cc": "control", "pc": "program", "ks": "key_signature", "ts": "time_signature",
        "meta": "meta", "other": "message"}


def file_table(mid):
    """-> ([{payload: [ticks]}] per track, [(track, tick, tempo)])"""
    tracks, tempos = [], []
    for ti, tr in enumerate(mid.tracks):
        t = 0
        d = collections.defaultdict(list)
        for m in tr:
            t += m.time
            ty = m.type
            if ty == "note_on" and m.velocity > 0:
                d[("on", int(m.channel), int(m.note), int(m.velocity))].append(t)
            elif ty in ("note_on", "note_off"):
                d[("off", int(m.channel), int(m.note))].append(t)
            elif ty == "control_change":
                d[("cc", int(m.channel), int(m.control), int(m.value))].append(t)
            elif ty == "program_change":
                d[("pc", int(m.channel), int(m.program))].append(t)
            elif ty == "key_signature":
                d[("ks", str(m.key))].append(t)
            elif ty == "time_signature":
                d[("ts", int(m.numerator), int(m.denominator))].append(t)
            elif ty == "set_tempo":
                tempos.append((ti, t, m.tempo))
            elif getattr(m, "is_meta", False):
                d[("meta", ty, MM.meta_payload(m))].append(t)
            else:
                d[("other", ty)].append(t)
        tracks.append(d)
    return tracks, tempos


def match(expected, actual):
    """Assign expected (payload, allowed, src) to actual {payload: [values]}; unambiguous ones first.
    -> (missing [(payload, allowed, src)], leftovers {payload: [values]})"""
    act = {k: list(v) for k, v in actual.items()}
    missing = []
    open_ = collections.defaultdict(list)
    for e in expected:
        payload, allowed, _ = e
        if len(allowed) > 1:
            open_[payload].append(e)
            continue
        have = act.get(payload)
        if have and allowed[0] in have:
            have.remove(allowed[0])
        else:
            missing.append(e)
    # events that may sit on either of two ticks: maximum bipartite matching per payload (Kuhn)
    for payload, es in open_.items():
        have = act.get(payload, [])
        owner = {}                      # index into have -> index into es

        def try_assign(i, seen):
            for j, v in enumerate(have):
                if v in es[i][1] and j not in seen:
                    seen.add(j)
                    if j not in owner or try_assign(owner[j], seen):
                        owner[j] = i
                        return True
            return False

        for i in range(len(es)):
            if not try_assign(i, set()):
                missing.append(es[i])
        act[payload] = [v for j, v in enumerate(have) if j not in owner]
    return missing, {k: v for k, v in act.items() if v}


def open_written(ret, out):
    import mido
    if ret is not None and hasattr(ret, "tracks"):
        return ret
    if out is None:
        return None
    if hasattr(out, "getvalue"):
        return mido.MidiFile(file=io.BytesIO(out.getvalue()))
    if isinstance(out, (str, os.PathLike)) and os.path.exists(out):
        return mido.MidiFile(out)
    return None


def check_saved(ctx, snap, mid, mpq, ppq, merge_save):
    """Post-condition of save_performance_midi."""
    before = nviol(ctx)
    tracks = snap_tracks(snap)
    ctx.check()
    if mid.ticks_per_beat != ppq:
        ctx.violation("export:ppq-not-written", f"ticks_per_beat {mid.ticks_per_beat} != ppq {ppq}", {"ppq": ppq})
    merged = bool(merge_save) and len(tracks) > 1
    track_of = {t: (0 if merged else j) for j, t in enumerate(tracks)}
    n_expected_tracks = 1 if merged else max(1, len(tracks))
    got_tracks, tempos = file_table(mid)
    ctx.check()
    if tracks and len(got_tracks) != n_expected_tracks:
        ctx.violation("export:number-of-tracks", f"{len(got_tracks)} tracks written for track numbers {tracks} merge={merge_save}",
                      {"tracks": tracks, "merge_tracks_save": bool(merge_save)})
        return nviol(ctx) - before
    ctx.check()
    if tempos != [(0, 0, mpq)]:
        ctx.violation("export:tempo-event-wrong", f"set_tempo events (track, tick, mpq) = {tempos[:4]}, expected one ({mpq}) at tick 0 of the first track",
                      {"mpq": mpq, "ppq": ppq, "tempos": tempos[:6]})
    exp, defaults = expected_table(snap, mpq, ppq, track_of)
    for ti, actual in enumerate(got_tracks):
        e = exp.get(ti, [])
        ctx.check(len(e))
        for _, allowed, _ in e:
            if len(allowed) > 1:
                ctx.ambiguous()
        missing, left = match(e, actual)
        for payload, allowed, src in missing:
            kind = KIND[payload[0]]
            elsewhere = left.get(payload)
            if elsewhere:
                ctx.violation(f"export:{kind}-tick-not-nearest",
                              f"{payload} written at tick {elsewhere[0]}, nearest tick of its time is {list(allowed)} (mpq={mpq}, ppq={ppq})",
                              {"event": src, "mpq": mpq, "ppq": ppq, "exact_ticks": float(MM.exact_ticks(_time_of(src, payload), mpq, ppq)),
                               "expected_tick": list(allowed), "written_tick": elsewhere[0], "written_track": ti})
                elsewhere.pop(0)
            else:
                ctx.violation(f"export:{kind}-lost-or-altered", f"no {payload} event in written track {ti} (expected at tick {list(allowed)})",
                              {"event": src, "mpq": mpq, "ppq": ppq, "expected_tick": list(allowed), "written_track": ti,
                               "merge_tracks_save": bool(merge_save)})
        for payload, ticks in left.items():
            if not ticks or payload[:2] == ("meta", "end_of_track"):      # closing event added by the MIDI writer
                continue
            if payload[0] == "pc" and payload[2] == 0 and (ti, payload[1]) in defaults or \
                    (payload[0] == "pc" and payload[2] == 0 and merged and any(ch == payload[1] for _, ch in defaults)):
                ctx.ambiguous(len(ticks))
                ctx.extra["default_program_inserted"] += len(ticks)
                continue
            ctx.violation(f"export:unexpected-{KIND[payload[0]]}", f"written track {ti} has {payload} at tick(s) {ticks[:3]} that the argument does not contain",
                          {"payload": jsonable(payload), "ticks": ticks[:5], "written_track": ti, "mpq": mpq, "ppq": ppq})
    return nviol(ctx) - before


def _time_of(src, payload):
    (k, d), = src.items()
    if k == "note":
        return d["note_on"] if payload[0] == "on" else d["note_off"]
    return d["time"]


# ------------------------------------------------------------------ post-condition of the reader
def check_loaded(ctx, mid, perf, merge, default_bpm, label="load"):
    before = nviol(ctx)
    default_mpq = Fraction(60 * 10**6) / Fraction(default_bpm)
    tm = MM.TempoMap(mid, default_mpq)
    model = MM.read(mid, merge)
    exp_parts = [pm for pm in model if pm.has_content]
    got_parts = list(perf.performedparts)
    ctx.check()
    if len(exp_parts) != len(got_parts):
        ctx.violation("import:parts-do-not-match-tracks",
                      f"{len(got_parts)} performed parts for {len(exp_parts)} tracks with notes/controls/programs (merge={merge})",
                      {"tracks_with_content": [pm.track for pm in exp_parts], "parts": len(got_parts)})
        return nviol(ctx) - before
    several = (not merge) and len(tm.tracks_with_tempo) > 1
    time_key = "import:tempo-events-in-several-tracks-misintegrated" if several else "import:ticks-to-seconds-wrong"
    judge_time = not tm.ambiguous
    if tm.ambiguous:
        ctx.ambiguous()
        ctx.extra["tempo_same_tick_in_two_tracks"] += 1
    tempo_w = {"ppq": tm.ppq, "default_mpq": float(default_mpq), "merge_tracks": bool(merge),
               "set_tempo(tick,track,pos,mpq)": [list(e) for e in tm.events[:10]]}
    bad_time = [0]

    def t_check(val, tick, what):
        if not judge_time or bad_time[0]:
            return
        ctx.check()
        ex = tm.seconds(tick)
        if not close(val, ex):
            bad_time[0] += 1
            ctx.violation(time_key, f"{what} at tick {tick}: {float(val)!r} s, the file's tempo map gives {float(ex)!r} s",
                          dict(tempo_w, tick=tick, got=float(val), expected=float(ex), what=what))

    part_tracks = []
    for pm, pp in zip(exp_parts, got_parts):
        notes = list(pp.notes)
        dirty = pm.overlap or pm.stray or pm.cross_track_same_tick
        got = collections.Counter((n["note_on_tick"], n["note_off_tick"], int(n["midi_pitch"]), int(n["channel"]), int(n["velocity"]))
                                  for n in notes)
        want = collections.Counter((n["on"], n["off"], n["pitch"], n["ch"], n["vel"]) for n in pm.notes)
        if dirty:
            ctx.ambiguous()
            ctx.extra["reader_stream_outside_domain(overlap/stray/equal-tick-merge)"] += 1
        else:
            ctx.check(len(pm.notes) + 1)
            if got != want:
                lost = list((want - got).elements())[:3]
                extra = list((got - want).elements())[:3]
                ctx.violation("import:note-pairing-wrong",
                              f"track {pm.track}: notes (on_tick, off_tick, pitch, channel, velocity) expected-but-missing {lost}, unexpected {extra}",
                              {"track": pm.track, "merge_tracks": bool(merge), "missing": lost, "unexpected": extra,
                               "stream": stream_dump(mid, pm.track, merge, 40)})
        # ids: n0..n{N-1} in (onset, pitch, offset, channel, track) order
        ctx.check()
        ids = [n["id"] for n in notes]
        try:
            order = sorted(range(len(notes)), key=lambda i: int(str(ids[i])[1:]))
            ok_ids = sorted(str(i) for i in ids) == sorted(f"n{k}" for k in range(len(notes)))
        except ValueError:
            order, ok_ids = list(range(len(notes))), False
        keys = [(notes[i]["note_on_tick"], int(notes[i]["midi_pitch"]), notes[i]["note_off_tick"], int(notes[i]["channel"]))
                for i in order]
        if not ok_ids or any(a > b for a, b in zip(keys, keys[1:])):
            j = next((i for i, (a, b) in enumerate(zip(keys, keys[1:])) if a > b), 0)
            ctx.violation("import:ids-not-in-onset-pitch-offset-channel-order",
                          f"track {pm.track}: ids {ids[:6]}...; keys (on_tick, pitch, off_tick, channel) by id: {keys[j:j + 2]}",
                          {"track": pm.track, "ids": [str(i) for i in ids[:12]], "keys_by_id": keys[:12]})
        # seconds
        for n in notes:
            t_check(n["note_on"], n["note_on_tick"], f"note_on of pitch {n['midi_pitch']} (track {pm.track})")
            t_check(n["note_off"], n["note_off_tick"], f"note_off of pitch {n['midi_pitch']} (track {pm.track})")
        # track numbers: one number per part (checked after the loop: increasing with the file's track order)
        ctx.check()
        seen_tracks = sorted({int(n["track"]) for n in notes} | {int(c["track"]) for c in pp.controls} | {int(c["track"]) for c in pp.programs})
        part_tracks.append((pm.track, seen_tracks))
        # sounding end without any pedal event is the release
        if not any(c["number"] == 64 for c in pp.controls) and notes:
            ctx.check()
            for n in notes:
                if not close(n["sound_off"], Fraction(float(n["note_off"]))):
                    ctx.violation("import:sound_off-stale-after-tempo-adjust",
                                  f"track {pm.track} has no pedal events but sound_off {float(n['sound_off'])!r} != note_off {float(n['note_off'])!r}",
                                  dict(tempo_w, track=pm.track, note_off_tick=n["note_off_tick"], sound_off=float(n["sound_off"]),
                                       note_off=float(n["note_off"])))
                    break

        def table(name, got_list, want_list, key):
            ctx.check(len(want_list) + 1)
            g = collections.Counter(got_list)
            w = collections.Counter(want_list)
            if g != w:
                ctx.violation(key, f"track {pm.track}: {name} expected-but-missing {list((w - g).elements())[:3]}, unexpected {list((g - w).elements())[:3]}",
                              {"track": pm.track, "missing": jsonable(list((w - g).elements())[:3]),
                               "unexpected": jsonable(list((g - w).elements())[:3]), "merge_tracks": bool(merge)})

        table("controls (tick, number, value, channel)", [(c["time_tick"], int(c["number"]), int(c["value"]), int(c["channel"])) for c in pp.controls],
              pm.controls, "import:control-lost-or-altered")
        table("programs (tick, program, channel)", [(c["time_tick"], int(c["program"]), int(c["channel"])) for c in pp.programs],
              pm.programs, "import:program-lost-or-altered")
        table("key signatures (tick, fifths, mode)", [(c["time_tick"], c["fifths"], c["mode"]) for c in pp.key_signatures],
              [(t, ) + KEY2FM[k] for t, k in pm.keys], "import:key_signature-lost-or-altered")
        table("time signatures (tick, beats, beat_type)", [(c["time_tick"], c["beats"], c["beat_type"]) for c in pp.time_signatures],
              pm.times, "import:time_signature-lost-or-altered")
        table("meta events", [(c["time_tick"], c["type"], MM.norm_payload({k: v for k, v in c.items() if k not in ("time", "time_tick", "track", "type")}))
                              for c in pp.meta_other if c["type"] != "end_of_track"],
              [m for m in pm.metas if m[1] != "end_of_track"], "import:meta-lost-or-altered")
        for lst, what in ((pp.controls, "control"), (pp.programs, "program"), (pp.key_signatures, "key signature"),
                          (pp.time_signatures, "time signature"), (pp.meta_other, "meta event")):
            for c in lst:
                t_check(c["time"], c["time_tick"], f"{what} (track {pm.track})")
    # the statement keeps the track of every note: loaded numbers must follow the file's track order
    # (the file index itself or its rank among the loaded tracks; 0 when merged)
    nums = [t[1] for t in part_tracks]
    flat = [x[0] for x in nums if len(x) == 1]
    if any(len(x) != 1 for x in nums) or any(a >= b for a, b in zip(flat, flat[1:])) or (merge and flat not in ([], [0])):
        ctx.violation("import:track-numbers-permuted",
                      f"file tracks {[t[0] for t in part_tracks]} carry track numbers {nums} after loading: not in file order",
                      {"file_tracks": [t[0] for t in part_tracks], "loaded_track_numbers": nums, "merge_tracks": bool(merge)})
    return nviol(ctx) - before


def stream_dump(mid, track, merge, limit):
    out = []
    for tr, evs in MM.streams(mid, merge):
        if tr != track:
            continue
        for tick, src, pos, m in evs:
            if m.type in ("note_on", "note_off"):
                out.append([tick, src, m.type, int(m.channel), int(m.note), int(m.velocity)])
    return out[:limit]


# ------------------------------------------------------------------ hooks
def _bind(fn, a, k, renames):
    import inspect
    k = dict(k)
    for old, new in renames.items():
        if old in k:
            k[new] = k.pop(old)
    ba = inspect.signature(inspect.unwrap(fn)).bind(*a, **k)
    ba.apply_defaults()
    return ba.arguments


def install(ctx):
    core.set_current(ctx)
    if _hooks:
        return
    import mido
    import partitura  # noqa
    import partitura.io.exportmidi as EX
    import partitura.io.importmidi as IM

    save_orig = EX.save_performance_midi
    load_orig = IM.load_performance_midi

    def save_pre(*a, **k):
        C().hook("save_performance_midi")
        try:
            args = _bind(save_orig, a, k, {"performed_part": "performance_data"})
            return args, snap_perf(args["performance_data"])
        except TypeError:
            return None

    def save_post(ret, exc, token, a, k):
        c = C()
        if exc is not None or token is None or token[1] is None:
            c.extra["save_hook_not_judged(raised or foreign argument)"] += 1
            return
        args, snap = token
        mid = open_written(ret, args["out"])
        if mid is None:
            c.extra["save_hook_output_not_readable"] += 1
            return
        check_saved(c, snap, mid, args["mpq"], args["ppq"], args["merge_tracks_save"])

    h = core.Hook(EX, "save_performance_midi", pre=save_pre, post=save_post, label="save_performance_midi")
    core.rebind_everywhere(h.orig, h.wrapper)
    _hooks.append(h)

    def load_post(ret, exc, token, a, k):
        c = C()
        if exc is not None:
            c.extra["load_hook_not_judged(raised)"] += 1
            return
        try:
            args = _bind(load_orig, a, k, {"fn": "filename"})
        except TypeError:
            return
        f = args["filename"]
        mid = f if isinstance(f, mido.MidiFile) else mido.MidiFile(f)
        check_loaded(c, mid, ret, bool(args["merge_tracks"]), args["default_bpm"])

    h2 = core.Hook(IM, "load_performance_midi", pre=lambda *a, **k: C().hook("load_performance_midi"), post=load_post,
                   label="load_performance_midi")
    core.rebind_everywhere(h2.orig, h2.wrapper)
    _hooks.append(h2)

    def adj_post(ret, exc, token, a, k):
        c = C()
        if exc is not None:
            return
        try:
            args = _bind(h3.orig, a, k, {})
        except TypeError:
            return
        tick, tc, ppq = args["tick"], args["tempo_changes"], args["ppq"]
        if any(x[0] > y[0] for x, y in zip(tc, tc[1:])):
            c.extra["adjust_time_called_with_unsorted_tempo_list"] += 1
            return
        c.check()
        ex = MM.integrate(tick, tc, ppq)
        if not close(ret, ex):
            c.violation("adjust_time-wrong-for-sorted-tempo-list", f"adjust_time({tick}, {list(tc)[:6]}, {ppq}) = {ret!r}, exact {float(ex)!r}",
                        {"tick": tick, "tempo_changes": [list(x) for x in tc][:12], "ppq": ppq, "got": float(ret), "expected": float(ex)})

    h3 = core.Hook(IM, "adjust_time", pre=lambda *a, **k: C().hook("adjust_time"), post=adj_post, label="adjust_time")
    core.rebind_everywhere(h3.orig, h3.wrapper)
    _hooks.append(h3)


def setup(ctx):
    install(ctx)


# ------------------------------------------------------------------ end-to-end comparison
def loaded_flat(perf, mpq, ppq):
    """Loaded events with their seconds converted back to (exact) ticks of the export grid."""
    def tk(sec):
        x = Fraction(float(sec)) * 10**6 * ppq / mpq
        r = round(x)
        return r if abs(x - r) < Fraction(1, 1000) else ("off-grid", float(sec))
    out = collections.defaultdict(lambda: collections.defaultdict(list))
    for pp in perf.performedparts:
        for n in pp.notes:
            out["notes"][(int(n["midi_pitch"]), int(n["velocity"]), int(n["channel"]), int(n["track"]))].append((tk(n["note_on"]), tk(n["note_off"])))
        for c in pp.controls:
            out["controls"][(int(c["number"]), int(c["value"]), int(c["channel"]), int(c["track"]))].append(tk(c["time"]))
        for c in pp.programs:
            out["programs"][(int(c["program"]), int(c["channel"]), int(c["track"]))].append(tk(c["time"]))
        for c in pp.key_signatures:
            out["signatures"][("ks", c["fifths"], c["mode"], int(c["track"]))].append(tk(c["time"]))
        for c in pp.time_signatures:
            out["signatures"][("ts", c["beats"], c["beat_type"], int(c["track"]))].append(tk(c["time"]))
        for c in pp.meta_other:
            if c["type"] == "end_of_track":
                continue
            out["meta"][(c["type"], MM.norm_payload({k: v for k, v in c.items() if k not in ("time", "time_tick", "track", "type")}),
                         int(c["track"]))].append(tk(c["time"]))
    return out


def notes_order_safe(snap, track_of, mpq, ppq, merged):
    """Are the equal-tick note events of every (written track, channel, pitch) written off-before-on?
    -> 'safe' | 'equal-tick-order' (left open by the statement) | 'overlap' (outside the domain)"""
    groups = collections.defaultdict(list)
    for p in snap["parts"]:
        for pitch, vel, ch, tr, on, off in p["notes"]:
            groups[(track_of[tr], ch, pitch)].append((MM.allowed_ticks(on, mpq, ppq), MM.allowed_ticks(off, mpq, ppq), on, off, tr))
    verdict = "safe"
    for g in groups.values():
        if len(g) < 2:
            continue
        several_tracks = merged and len({x[4] for x in g}) > 1
        # rounding is monotone: chronological list order (by the float times) is chronological in ticks
        ok = all(a[3] <= b[2] and a[2] <= b[2] for a, b in zip(g, g[1:]))
        if ok and several_tracks:        # written to different tracks, merged by tick: ticks must be strictly apart
            ok = all(max(a[1]) < min(b[0]) for a, b in zip(g, g[1:]))
        if ok:
            continue
        s = sorted(g, key=lambda x: (x[2], x[3]))
        if any(a[3] > b[2] for a, b in zip(s, s[1:])):
            return "overlap"
        if all(max(a[1]) < min(b[0]) for a, b in zip(s, s[1:])):      # any list order: no two events share a tick
            continue
        if not several_tracks and all(max(a[0]) < min(b[0]) for a, b in zip(s, s[1:])):
            # one written track, the notes begin on different ticks: the end of the earlier note and the beginning of the
            # later one may share a tick, and the file must still denote two notes whatever the order of the list
            continue
        verdict = "equal-tick-order"
    return verdict


def check_roundtrip(ctx, snap, perf, spec_w, mpq, ppq, merge_save, merge_load):
    tracks = snap_tracks(snap)
    merged = (merge_save or merge_load)
    contiguous = tracks == list(range(len(tracks)))
    if not contiguous and not merged:
        ctx.ambiguous()
        ctx.extra["non_contiguous_track_numbers(judged by rank)"] += 1
    track_of = {t: (0 if merged else j) for j, t in enumerate(tracks)}
    # a part that holds signatures / meta events only (a conductor track of its own): the reader builds performed parts
    # from tracks with notes, controls or programs, so such a part does not come back and the later tracks move up
    # (open known finding); the other parts are judged by their rank among the tracks that do come back
    empty_parts = [i for i, p in enumerate(snap["parts"]) if not (p["notes"] or p["controls"] or p["programs"])
                   and (p["keys"] or p["times"] or [m for m in p["metas"] if m[0] != "end_of_track"])]
    conductor_tracks = set()
    if empty_parts and not merged:
        other = set()
        for i, p in enumerate(snap["parts"]):
            if i not in empty_parts:
                other |= {n[3] for n in p["notes"]} | {c[3] for c in p["controls"]} | {c[2] for c in p["programs"]} | \
                    {c[2] for c in p["keys"]} | {c[2] for c in p["times"]} | {c[2] for c in p["metas"]}
        for i in empty_parts:
            p = snap["parts"][i]
            conductor_tracks |= ({c[2] for c in p["keys"]} | {c[2] for c in p["times"]} | {c[2] for c in p["metas"]}) - other
        if conductor_tracks:
            lost = [jsonable(x) for i in empty_parts for x in (snap["parts"][i]["keys"] + snap["parts"][i]["times"])[:2]]
            ctx.check()
            n_back = len(perf.performedparts)
            if n_back == len(tracks) - len(conductor_tracks):
                ctx.violation("roundtrip:part-without-notes-dropped-on-load",
                              f"a performed part holding only signatures/meta events (tracks {sorted(conductor_tracks)}) does not come back: "
                              f"{len(tracks)} tracks saved, {n_back} loaded; lost e.g. {lost[:2]}",
                              dict(spec_w, conductor_tracks=sorted(conductor_tracks)))
                kept = [t_ for t_ in tracks if t_ not in conductor_tracks]
                track_of = {t_: j for j, t_ in enumerate(kept)}
            else:
                conductor_tracks = set()
    got = loaded_flat(perf, mpq, ppq)
    safe = notes_order_safe(snap, track_of, mpq, ppq, merged)
    A = MM.allowed_ticks
    exp = collections.defaultdict(list)
    defaults = set()
    for pi_, p in enumerate(snap["parts"]):
        if conductor_tracks and pi_ in empty_parts:
            continue
        for pitch, vel, ch, tr, on, off in p["notes"]:
            exp["notes"].append(((pitch, vel, ch, track_of[tr]), tuple(itertools.product(A(on, mpq, ppq), A(off, mpq, ppq))),
                                 {"midi_pitch": pitch, "velocity": vel, "channel": ch, "track": tr, "note_on": on, "note_off": off}))
        for num, val, ch, tr, t in p["controls"]:
            exp["controls"].append(((num, val, ch, track_of[tr]), A(t, mpq, ppq), {"number": num, "value": val, "channel": ch, "track": tr, "time": t}))
        for prog, ch, tr, t in p["programs"]:
            exp["programs"].append(((prog, ch, track_of[tr]), A(t, mpq, ppq), {"program": prog, "channel": ch, "track": tr, "time": t}))
        for fifths, mode, tr, t in p["keys"]:
            fm = KEY2FM.get(key_payload(fifths, mode), (fifths, mode))
            exp["signatures"].append((("ks", fm[0], fm[1], track_of[tr]), A(t, mpq, ppq), {"fifths": fifths, "mode": mode, "track": tr, "time": t}))
        for beats, bt, tr, t in p["times"]:
            exp["signatures"].append((("ts", beats, bt, track_of[tr]), A(t, mpq, ppq), {"beats": beats, "beat_type": bt, "track": tr, "time": t}))
        for ty, payload, tr, t in p["metas"]:
            if ty == "end_of_track":
                continue
            exp["meta"].append(((ty, payload, track_of[tr]), A(t, mpq, ppq), {"type": ty, "payload": jsonable(payload), "track": tr, "time": t}))
        if not p["programs"]:
            defaults.update((n[2], track_of[n[3]]) for n in p["notes"])
            defaults.update((c[2], track_of[c[3]]) for c in p["controls"])
    content_tracks = {n[3] for p in snap["parts"] for n in p["notes"]} | {c[3] for p in snap["parts"] for c in p["controls"]} | \
        {c[2] for p in snap["parts"] for c in p["programs"]}
    for name in ("notes", "controls", "programs", "signatures", "meta"):
        if name == "notes" and safe != "safe":
            ctx.ambiguous()
            ctx.extra[f"roundtrip_notes_not_judged({safe})"] += 1
            continue
        ctx.check(len(exp[name]) + 1)
        missing, left = match(exp[name], got[name])
        if name == "programs":
            for k in list(left):
                if k[0] == 0 and (k[1], k[2]) in defaults:
                    ctx.ambiguous(len(left[k]))
                    del left[k]
        orphan = [m for m in missing if m[2]["track"] not in content_tracks]
        if orphan and not merged:
            own = [sorted({n[3] for n in p["notes"]} | {c[3] for c in p["controls"]} | {c[2] for c in p["programs"]}) for p in snap["parts"]]
            ctx.violation("roundtrip:meta-events-of-track-without-notes-lost",
                          f"signature/meta events whose track number carries no note/control/program do not come back: {[jsonable(m[2]) for m in orphan[:2]]}; "
                          f"note/control/program tracks per part: {own}",
                          dict(spec_w, lost=[jsonable(m[2]) for m in orphan[:3]], note_tracks_per_part=own))
            missing = [m for m in missing if m not in orphan]
        if missing or left:
            ctx.violation(f"roundtrip:{name}-differ",
                          f"after save->load: {name} missing {[jsonable(m[2]) for m in missing[:2]]}; unexpected (payload, ticks) {jsonable(list(left.items())[:2])}",
                          dict(spec_w, missing=[jsonable(m[2]) for m in missing[:3]], unexpected=jsonable(list(left.items())[:3])))


# ------------------------------------------------------------------ driver
def plan(tier, seed):
    q = tier == "quick"
    items = [["rt", i] for i in range(144 if q else 1800)]
    items += [["rth", i] for i in range(32 if q else 400)]
    items += [["rd", i] for i in range(120 if q else 1500)]
    items += [["adj", i] for i in range(4 if q else 48)]
    fx = fixtures()
    items += [["fixture", f] for f in fx]
    if q:
        return items
    # set/dict iteration inside partitura (track renumbering, default programs): hash-seed sweep on a slice
    sweep = [["rt", 5000 + i] for i in range(48)] + [["rd", 5000 + i] for i in range(32)] + [["fixture", f] for f in fx[:2]]
    return {"0": items, "1": sweep, "2": sweep, "3": sweep}


def fixtures():
    root = os.path.join(core.REPO, "tests", "data")
    out = []
    for d, _, fs in os.walk(root):
        for f in fs:
            if f.lower().endswith((".mid", ".midi")):
                out.append(os.path.relpath(os.path.join(d, f), root))
    return sorted(out)


def spec_witness(spec, limit=60):
    n = sum(len(p[k]) for p in spec.get("parts", []) for k in p) if "parts" in spec else sum(len(t) for t in spec["tracks"])
    if n <= limit:
        return {"spec": spec}
    small = {k: v for k, v in spec.items() if k not in ("parts", "tracks")}
    small["events"] = n
    return {"spec_too_large_see_item": small}


def run_rt_case(ctx, spec, tmp, tag):
    import partitura
    from partitura.io.exportmidi import save_performance_midi
    from partitura.io.importmidi import load_performance_midi
    from workloads import gen_perf
    w = spec_witness(spec)
    w["case"] = tag
    mpq, ppq = spec["mpq"], spec["ppq"]
    n_notes = sum(len(p["notes"]) for p in spec["parts"])
    n_ctrl = sum(len(p["controls"]) for p in spec["parts"])
    tracks = sorted({e.get("track", 0) for p in spec["parts"] for k in p for e in p[k]})
    merged = spec["merge_save"] or spec["merge_load"]
    nontrivial = n_notes >= 2 and n_ctrl >= 1 and (len(tracks) >= 2 or merged or (ppq, mpq) != (480, 500000))
    ctx.case(["rt", spec], nontrivial, cls=f"roundtrip-{spec['kind']}" + (f"-{spec['hostile']}" if spec.get("hostile") else ""),
             sample={"kind": spec["kind"], "parts": len(spec["parts"]), "tracks": tracks, "notes": n_notes, "controls": n_ctrl,
                     "ppq": ppq, "mpq": mpq, "merge_save": spec["merge_save"], "merge_load": spec["merge_load"],
                     "out": spec["out"], "loader": spec["loader"],
                     "first_note": spec["parts"][0]["notes"][:1]})
    half = any(len(MM.allowed_ticks(n[k], mpq, ppq)) > 1 for p in spec["parts"] for n in p["notes"] for k in ("note_on", "note_off"))
    ctx.state(f"rt:{spec['kind']}:{spec.get('hostile')}:tracks{min(len(tracks), 4)}:ms{int(spec['merge_save'])}:ml{int(spec['merge_load'])}:"
              f"{spec['out']}:{spec['loader']}:half{int(half)}:ppq{ppq if ppq in (96, 480, 960, 1000) else 'x'}:"
              f"mpq{mpq if mpq in (250000, 500000, 612244) else 'x'}:prog{int(any(p['programs'] for p in spec['parts']))}")
    v0 = nviol(ctx)
    try:
        obj = ctx.call(gen_perf.build_performance, spec)
        snap = snap_perf(obj)
        path = os.path.join(tmp, f"{tag}.mid")
        kw = dict(mpq=mpq, ppq=(np.int32(ppq) if spec.get("np_ppq") else ppq), merge_tracks_save=spec["merge_save"])
        if spec["out"] == "none":
            src = ctx.call(save_performance_midi, obj, None, **kw)
        elif spec["out"] == "bytes":
            bio = io.BytesIO()
            ctx.call(save_performance_midi, obj, bio, **kw)
            with open(path, "wb") as f:
                f.write(bio.getvalue())
            src = path
        else:
            ctx.call(save_performance_midi, obj, path, **kw)
            src = path
        if spec["loader"] == "dispatch" and isinstance(src, str):
            try:
                perf = ctx.call(partitura.load_performance, src, merge_tracks=spec["merge_load"])
            except core.PartituraRaised as pr:
                if type(pr.exc).__name__ != "NotSupportedFormatError":
                    raise
                # the dispatcher hides the reader's own exception: surface it (or report the dispatcher)
                ctx.extra["load_performance_masked_a_reader_error"] += 1
                ctx.call(load_performance_midi, src, merge_tracks=spec["merge_load"])
                raise pr
        else:
            perf = ctx.call(load_performance_midi, src, merge_tracks=spec["merge_load"])
    except core.PartituraRaised as pr:
        ctx.raised(pr, extra=w)
        return
    finally:
        p = os.path.join(tmp, f"{tag}.mid")
        if os.path.exists(p):
            os.unlink(p)
    if nviol(ctx) == v0:          # nothing explained by a hook: compare end to end
        check_roundtrip(ctx, snap, perf, w, mpq, ppq, spec["merge_save"], spec["merge_load"])
    else:
        ctx.extra["roundtrip_compare_skipped(hook already reported)"] += 1


def run_rd_case(ctx, spec, tmp, tag):
    from partitura.io.importmidi import load_performance_midi
    from workloads import gen_perf
    mf = gen_perf.build_midifile(spec)
    tm = MM.TempoMap(mf, Fraction(60 * 10**6, spec["default_bpm"]))
    last_off = 0
    for pm in MM.read(mf, False):
        for n in pm.notes:
            last_off = max(last_off, n["off"])
    first_change = next((tm.ticks[i] for i in range(1, len(tm.ticks)) if tm.mpqs[i] != tm.mpqs[i - 1]), None)
    nontrivial = first_change is not None and last_off > first_change
    n_ev = sum(len(t) for t in spec["tracks"])
    ctx.case(["rd", spec], nontrivial, cls=f"reader-type{spec['type']}",
             sample={"type": spec["type"], "ppq": spec["ppq"], "tracks": len(spec["tracks"]), "events": n_ev,
                     "set_tempo": [list(e) for e in tm.events[:6]], "merge": spec["merge"], "default_bpm": spec["default_bpm"]})
    ctx.state(f"rd:type{spec['type']}:tracks{len(spec['tracks'])}:{spec['tempo_mode']}:tempotracks{len(tm.tracks_with_tempo)}:"
              f"changes{min(tm.n_changes_after_zero, 4)}:merge{int(spec['merge'])}:{spec['via']}:bpm{spec['default_bpm']}:dirty{int(spec['dirty'])}")
    w = spec_witness(spec)
    w["case"] = tag
    path = os.path.join(tmp, f"{tag}.mid")
    try:
        if spec["via"] == "path":
            mf.save(path)
            src = path
        else:
            src = mf
        v0 = nviol(ctx)
        perf = ctx.call(load_performance_midi, src, default_bpm=spec["default_bpm"], merge_tracks=spec["merge"])
        clean = not any(pm.overlap or pm.stray or pm.unterminated or pm.cross_track_same_tick for pm in MM.read(mf, spec["merge"]))
        if nviol(ctx) == v0 and clean and len(perf.performedparts) and "rt" in spec:
            # what the reader returned is a performance: it must survive save -> load as well
            from partitura.io.exportmidi import save_performance_midi
            r = spec["rt"]
            snap = snap_perf(perf)
            mf2 = ctx.call(save_performance_midi, perf, None, mpq=r["mpq"], ppq=r["ppq"], merge_tracks_save=r["merge_save"])
            back = ctx.call(load_performance_midi, mf2, merge_tracks=r["merge_load"])
            ctx.extra["reader_result_round_tripped"] += 1
            if nviol(ctx) == v0:
                check_roundtrip(ctx, snap, back, w, r["mpq"], r["ppq"], r["merge_save"], r["merge_load"])
    except core.PartituraRaised as pr:
        ctx.raised(pr, extra=w)
    finally:
        if os.path.exists(path):
            os.unlink(path)


# ------------------------------------------------------------------ witness minimisation
SHRINK_BUDGET = 220
RUNNERS = {}


def captured(ctx, kind, spec, tmp, tag):
    """Run one case against a throw-away context (nothing is counted in the evidence)."""
    sub = core.Ctx(ctx.prop, ctx.tier, ctx.seed)
    sub.item = ctx.item
    core.set_current(sub)
    try:
        RUNNERS[kind](sub, spec, tmp, tag)
    except core.PartituraRaised as pr:
        sub.raised(pr)
    finally:
        core.set_current(ctx)
    return sub


def rt_spec_valid(spec):
    """Every track used by a programme/signature/meta event of a part also carries a note or control of it."""
    if not spec["parts"]:
        return False
    for p in spec["parts"]:
        have = {e["track"] for e in p["notes"]} | {e["track"] for e in p["controls"]}
        if not have:
            return False
        for k in ("programs", "key_signatures", "time_signatures", "meta_other"):
            if any(e["track"] not in have for e in p[k]):
                return False
    return True


def _ddmin(lst, test, budget):
    n = 2
    while lst and budget[0] > 0:
        chunk = max(1, len(lst) // n)
        removed = False
        for i in range(0, len(lst), chunk):
            if budget[0] <= 0:
                return lst
            cand = lst[:i] + lst[i + chunk:]
            budget[0] -= 1
            if test(cand):
                lst, n, removed = cand, max(n - 1, 2), True
                break
        if not removed:
            if chunk == 1:
                break
            n = min(len(lst), n * 2)
    return lst


def shrink(ctx, kind, spec, key, tmp):
    import copy
    budget = [SHRINK_BUDGET]
    best = copy.deepcopy(spec)

    def fails(cand):
        if kind != "rd" and not rt_spec_valid(cand):
            return False
        return key in captured(ctx, kind, cand, tmp, "shrink")._viol_keys

    def attempt(cand):
        nonlocal best
        if budget[0] <= 0:
            return False
        budget[0] -= 1
        if fails(cand):
            best = cand
            return True
        return False

    if kind == "rd":
        for f, v in (("via", "object"), ("default_bpm", 120), ("merge", False)):
            if best[f] != v:
                attempt(dict(best, **{f: v}))
        absol = []
        for tr in best["tracks"]:
            t, evs = 0, []
            for d, k, prm in tr:
                t += d
                evs.append([t, k, prm])
            absol.append(evs)

        def to_spec(ab):
            tracks = []
            for evs in ab:
                prev, out = 0, []
                for t, k, prm in evs:
                    out.append([t - prev, k, prm])
                    prev = t
                tracks.append(out)
            return dict(best, tracks=tracks)

        if best["type"] == 1:
            i = 0
            while i < len(absol) and len(absol) > 1:
                cand = absol[:i] + absol[i + 1:]
                if attempt(to_spec(cand)):
                    absol = cand
                else:
                    i += 1
        for ti in range(len(absol)):
            def test(lst, ti=ti):
                return fails(to_spec(absol[:ti] + [lst] + absol[ti + 1:]))
            absol[ti] = _ddmin(absol[ti], test, budget)
            best = to_spec(absol)
        return best
    for f, v in (("np_times", False), ("as_tuple", False), ("out", "none"), ("loader", "midi"), ("merge_save", False),
                 ("merge_load", False), ("ensure_unique_tracks", False)):
        if best.get(f) != v:
            attempt(dict(best, **{f: v}))
    if best["kind"] != "part":
        i = 0
        while i < len(best["parts"]) and len(best["parts"]) > 1:
            if not attempt(dict(best, parts=best["parts"][:i] + best["parts"][i + 1:])):
                i += 1
    for pi in range(len(best["parts"])):
        for field in ("meta_other", "time_signatures", "key_signatures", "programs", "controls", "notes"):
            def test(lst, pi=pi, field=field):
                parts = list(best["parts"])
                parts[pi] = dict(parts[pi], **{field: lst})
                return fails(dict(best, parts=parts))
            kept = _ddmin(best["parts"][pi][field], test, budget)
            parts = list(best["parts"])
            parts[pi] = dict(parts[pi], **{field: kept})
            best = dict(best, parts=parts)
    return best


def run_case(ctx, kind, spec, tmp, tag):
    """Run a generated case; minimise the input of the first witness of every mechanism."""
    n0 = len(ctx.violations)
    keys0 = dict(ctx._viol_keys)
    try:
        RUNNERS[kind](ctx, spec, tmp, tag)
    except core.PartituraRaised as pr:
        ctx.raised(pr)
    fresh = [k for k in ctx._viol_keys if keys0.get(k, 0) == 0]
    for key in fresh:
        small = shrink(ctx, kind, spec, key, tmp)
        sub = captured(ctx, kind, small, tmp, "shrunk")
        rec = next((v for v in sub.violations if v["key"] == key), None)
        mine = next((v for v in ctx.violations[n0:] if v["key"] == key), None)
        if rec is None or mine is None:
            continue
        mine["what"] = rec["what"]
        mine["witness"] = dict(rec["witness"] or {}) if isinstance(rec["witness"], dict) else {"detail": rec["witness"]}
        mine["witness"]["input"] = spec_witness(small, limit=400)
        mine["witness"]["how"] = ("build_performance(spec) -> save_performance_midi(.., mpq, ppq, merge_tracks_save) -> load"
                                  if kind != "rd" else "build_midifile(spec) -> load_performance_midi(.., default_bpm, merge_tracks)")
    w = spec_witness(spec)
    for v in ctx.violations[n0:]:
        if not isinstance(v.get("witness"), dict):
            v["witness"] = {"detail": v.get("witness")}
        v["witness"].setdefault("input", w)
        v["witness"].setdefault("case", tag)


def run_item(ctx, item):
    from workloads import gen_perf
    core.set_current(ctx)
    RUNNERS.update(rt=run_rt_case, rth=run_rt_case, rd=run_rd_case)
    kind = item[0]
    tmp = tempfile.mkdtemp(prefix="c06-")
    try:
        if kind in ("rt", "rth", "rd"):
            rng = ctx.rng(kind, item[1])
            for j in range(CASES_PER_ITEM):
                size = 0.15 + 0.85 * j / (CASES_PER_ITEM - 1)
                if ctx.tier == "thorough":
                    size *= 2.5
                if kind == "rd":
                    spec = gen_perf.make_midi_spec(rng, size=size)
                else:
                    hostile = rng.choice(["shuffle", "shuffle", "gaps", "shared", "untracked", "conductor"]) if kind == "rth" else None
                    spec = gen_perf.make_perf_spec(rng, size=size, hostile=hostile)
                run_case(ctx, kind, spec, tmp, f"{kind}{item[1]}-{j}")
        elif kind == "adj":
            run_adjust(ctx, ctx.rng("adj", item[1]))
        elif kind == "fixture":
            run_fixture(ctx, item[1], tmp)
    finally:
        import shutil
        shutil.rmtree(tmp, ignore_errors=True)


def run_adjust(ctx, rng):
    """adjust_time on its own: tick-sorted tempo lists of any length, ticks on and around the change points."""
    from partitura.io.importmidi import adjust_time
    for j in range(400):
        ppq = rng.choice([1, 24, 96, 480, 960, 1000, rng.randrange(1, 5000)])
        n = rng.choice([0, 1, 2, 3, 8, 20])
        ticks = sorted(rng.randrange(0, 20000) for _ in range(n))
        tc = [(0, rng.choice([500000, 600000]))] + [(t, rng.choice([250000, 500000, 612244, rng.randrange(1, 3000000)])) for t in ticks]
        probes = [0, 1, 19999, 40000] + [t + d for t in ticks for d in (-1, 0, 1) if t + d >= 0] + [rng.randrange(0, 30000) for _ in range(4)]
        for tick in probes:
            ctx.call(adjust_time, tick, tc, ppq)
        ctx.case(["adj", tc, ppq], n >= 1 and any(a[1] != b[1] for a, b in zip(tc, tc[1:])), cls="adjust_time",
                 sample={"tempo_changes": tc[:5], "ppq": ppq, "probes": probes[:6]} if j == 0 else None)
        ctx.state(f"adj:n{n}:ppq{ppq if ppq in (1, 24, 96, 480, 960, 1000) else 'x'}")


def run_fixture(ctx, rel, tmp):
    import warnings
    import partitura
    from partitura.io.exportmidi import save_performance_midi
    from partitura.io.importmidi import load_performance_midi
    path = os.path.join(core.REPO, "tests", "data", rel)
    w = {"fixture": rel}
    for merge in (False, True):
        try:
            with warnings.catch_warnings():
                warnings.simplefilter("ignore")
                perf = ctx.call(load_performance_midi, path, merge_tracks=merge)
        except core.PartituraRaised as pr:
            ctx.raised(pr, extra=dict(w, merge_tracks=merge))
            continue
        n_notes = sum(len(pp.notes) for pp in perf.performedparts)
        ctx.case(["fixture-load", rel, merge], n_notes >= 10, cls="fixture-load",
                 sample={"fixture": rel, "merge": merge, "parts": len(perf.performedparts), "notes": n_notes})
        ctx.state(f"fx:{rel}:merge{int(merge)}")
        # save what was loaded with several (ppq, mpq) and load it back
        for ppq, mpq, ms, ml in ((480, 500000, False, False), (960, 250000, False, True), (1000, 612244, True, False), (96, 500000, False, False)):
            snap = snap_perf(perf)
            out = os.path.join(tmp, "fx.mid")
            v0 = nviol(ctx)
            ww = dict(w, merge_tracks_first_load=merge, ppq=ppq, mpq=mpq, merge_tracks_save=ms, merge_tracks=ml)
            try:
                ctx.call(save_performance_midi, perf, out, mpq=mpq, ppq=ppq, merge_tracks_save=ms)
                back = ctx.call(load_performance_midi, out, merge_tracks=ml)
            except core.PartituraRaised as pr:
                ctx.raised(pr, extra=ww)
                continue
            finally:
                if os.path.exists(out):
                    os.unlink(out)
            ctx.case(["fixture-rt", rel, merge, ppq, mpq, ms, ml], n_notes >= 10, cls="fixture-roundtrip")
            if nviol(ctx) == v0:
                check_roundtrip(ctx, snap, back, ww, mpq, ppq, ms, ml)
    # format dispatch returns the same performance as the MIDI reader
    try:
        with warnings.catch_warnings():
            warnings.simplefilter("ignore")
            a = ctx.call(partitura.load_performance, path)
            b = ctx.call(load_performance_midi, path)
    except core.PartituraRaised as pr:
        ctx.raised(pr, extra=w)
        return
    ctx.check()
    fa = [[(n["midi_pitch"], n["note_on"], n["note_off"], n["velocity"], n["channel"], n["track"]) for n in pp.notes] for pp in a.performedparts]
    fb = [[(n["midi_pitch"], n["note_on"], n["note_off"], n["velocity"], n["channel"], n["track"]) for n in pp.notes] for pp in b.performedparts]
    if fa != fb:
        ctx.violation("load_performance-differs-from-load_performance_midi", f"{rel}: dispatching loader returns other notes", w)
