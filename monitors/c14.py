"""C14 — performed notes sound until release or later, exactly as the pedal dictates.

Post-condition hooks on the REAL functions

    adjust_offsets_w_sustain                 sounding end of every note vs vmon/refmodels/c14_pedal.py
    PerformedPart.__init__                   construction recomputed every note (no stale value)
    PerformedPart.sustain_pedal_threshold    (setter) assignment recomputed every note
    PerformedPart.note_array                 seconds/ticks agree under ppq/mpq; duration up to the sounding end
    PerformedPart.from_note_array            rebuilt notes keep pitch, velocity, onset, sounding end
    Performance.sanitize_track_numbers       (old part, old track) -> new track is an injective function
    Performance.num_tracks                   number of distinct (part, track) pairs

The driver (`workloads/c14_perf.py`) builds hostile note lists / control streams
inside the property's domain, sweeps thresholds up and down on the same object,
asks for the note array and rebuilds the part from it.  Findings of the hooks are
collected per scenario, delta-debugged to a small input with the same mechanism,
and reported with that input as witness.
"""
import math
import os

from vmon import core
from vmon.refmodels import c14_pedal as PM
from workloads import c14_perf as gen_perf

F = PM.F

PROP = "C14"
RULE = ("seeded performed parts: 0-8 (large profile 10-60) notes drawn from 1-3 pitches (so repeats, overlaps and nestings of one "
        "pitch across channels are the norm), 15% zero-length notes, sorted/shuffled/reversed order, times as float grid / non-dyadic "
        "floats / ints / tick-derived seconds / random floats, handed over as dicts, PerformedNote objects, numpy scalars, with or "
        "without optional keys and stale sound_off; 0-8 (large 0-50) sustain events with values random/binary/around the threshold/"
        "ramp, before the first and after the last note, interleaved with controllers 1,7,10,11,66,67,91; 3-8 thresholds 0..127 per "
        "part assigned up and down on the same object; random ppq/mpq; then note_array(), from_note_array(), late control edits; "
        "Performances of 1-4 parts with clashing track numbers (thorough: also under PYTHONHASHSEED 1-3); the MIDI/match fixtures of tests/data loaded through the public loaders with a 9-step threshold sweep. One case = "
        "one (notes, controls, threshold) evaluation; non-trivial when the reference model decides at least one pedal-extended note "
        "AND (a note ended by a re-strike under pedal OR an equal-pitch overlap is present) — or, for Performances, two parts share "
        "a track number; distinct by digest of (notes, sustain events, threshold)")
ASSUMPTIONS = [
    "reference pedal model vmon/refmodels/c14_pedal.py (step-function pedal, exact Fraction times)",
    "controls carry number/time/value (the format of every producer/consumer in partitura); sustain = controller 64",
    "notes carry midi_pitch (DESIGN Appendix A); ids need not survive from_note_array",
    "don't-care (only sound_off >= note_off judged): pedal event exactly at a release, equal-time pedal events with mixed "
    "states deciding the note, same-pitch onset exactly at the release, pedal never released and pitch never struck again",
    "f4 columns compared with 1e-6*max(1,|x|); tick columns must be a rounding of the exact tick position (either neighbour "
    "within 1e-6 of a half); duration_tick may be round(off)-round(on) or round(off-on)",
]
MIN_HOOKS = {
    "adjust_offsets_w_sustain": {"quick": 20000, "thorough": 200000},
    "PerformedPart.__init__": {"quick": 5000, "thorough": 50000},
    "sustain_pedal_threshold.setter": {"quick": 20000, "thorough": 200000},
    "PerformedPart.note_array": {"quick": 3000, "thorough": 30000},
    "PerformedPart.from_note_array": {"quick": 3000, "thorough": 30000},
    "Performance.sanitize_track_numbers": {"quick": 500, "thorough": 5000},
}
MIN_NONTRIVIAL = {"quick": 1000, "thorough": 10000}
WATCHDOG_S = {"quick": 900, "thorough": 7200}

DECIDED_AT_RELEASE = ("no-pedal-events", "pedal-never-down", "pedal-up-at-release")
CLIP_MSG = "sound_off must be greater or equal to note_off"

_hooks = []
ST = {"collector": None, "seq": 0, "last_adjust": None, "last_summary": None, "where": None}


# ------------------------------------------------------------------ findings
def finding(key, what, detail=None):
    """A hook found a disagreement. Inside a driver scenario it is collected (the driver
    minimises the input and reports); elsewhere it is reported at once."""
    if ST["collector"] is not None:
        ST["collector"].append({"key": key, "what": what, "detail": detail})
    else:
        d = dict(detail or {})
        if ST["where"]:
            d["where"] = ST["where"]
        core.CURRENT.violation(key, what, d)


def _num(x):
    """JSON-able plain number."""
    if x is None:
        return None
    if isinstance(x, (int,)) and not isinstance(x, bool):
        return x
    try:
        import numpy as np
        if isinstance(x, np.integer):
            return int(x)
    except Exception:
        pass
    return float(x)


def _finite(x):
    try:
        return x is not None and math.isfinite(float(x))
    except Exception:
        return False


def pedal_events(controls):
    return [(c["time"], c["value"]) for c in controls if c["number"] == 64]


def note_triples(notes):
    return [(n["midi_pitch"], n["note_on"], n["note_off"]) for n in notes]


def has_overlap_before_release(triples):
    """Some note of a pitch starts while an earlier-or-equal-onset note of that pitch is
    still held (strictly before its release)."""
    by = {}
    for i, (p, on, off) in enumerate(triples):
        by.setdefault(int(p), []).append((F(on), F(off), i))
    n = 0
    for lst in by.values():
        for a in lst:
            for b in lst:
                if a[2] != b[2] and a[0] <= b[0] < a[1]:
                    n += 1
    return n


def judge(triples, pedal, thr, got):
    """Compare reported sounding ends with the reference model.
    Returns (findings [(key, what, detail)], summary dict)."""
    ctx = core.CURRENT
    exp = PM.sounding_ends(triples, pedal, thr)
    out = []
    summ = {"extended": 0, "restrike": 0, "amb": 0, "reasons": {}}
    for i, ((p, on, off), (e, reason)) in enumerate(zip(triples, exp)):
        summ["reasons"][reason] = summ["reasons"].get(reason, 0) + 1
        ctx.check()
        g = got[i]
        det = {"note_index": i, "pitch": _num(p), "note_on": _num(on), "note_off": _num(off), "threshold": _num(thr),
               "sound_off": _num(g) if _finite(g) else repr(g), "expected": _num(e), "model_reason": reason}
        if not _finite(g):
            out.append(("sound-end-missing", f"note {i}: sound_off is {g!r}", det))
            continue
        gF, offF = F(g), F(off)
        if gF < offF:
            out.append(("sound-end-before-release", f"note {i} (pitch {p}) released at {off} but sound_off={g}", det))
            continue
        if e is None:
            summ["amb"] += 1
            ctx.ambiguous()
            continue
        if e > offF:
            summ["extended"] += 1
            if reason.startswith("restrike"):
                summ["restrike"] += 1
        if gF == e:
            continue
        if reason in DECIDED_AT_RELEASE:
            key = f"sound-end-not-release:{reason}"
        elif gF == offF:
            key = "pedal-down-at-release-not-extended"
        elif gF > e:
            key = f"sound-end-after-first-release-moment:{reason}"
        else:
            key = f"sound-end-before-first-release-moment:{reason}"
        out.append((key, f"note {i} (pitch {p}, {on}..{off}) threshold {thr}: sound_off={g}, model says {float(e)} ({reason})", det))
    return out, summ


# ------------------------------------------------------------------ hooks
def install(ctx):
    core.set_current(ctx)
    if _hooks:
        return
    import numpy as np
    import partitura.performance as P

    # ---- adjust_offsets_w_sustain -------------------------------------------------
    def adj_pre(notes, controls, threshold=64):
        ST["seq"] += 1
        return {"triples": note_triples(notes), "pedal": pedal_events(controls), "thr": threshold,
                "ids": (id(notes), threshold), "seq": ST["seq"]}

    def adj_post(ret, exc, tok, a, k):
        notes = a[0] if a else k["notes"]
        triples, pedal, thr = tok["triples"], tok["pedal"], tok["thr"]
        if exc is not None:
            if isinstance(exc, ValueError) and CLIP_MSG in str(exc) and clipped_at_overlapping_onset(notes, triples):
                finding("restrike-clip-at-onset-before-release",
                        "re-strike clipping cut a note at the onset of an overlapping note of the same pitch that starts "
                        "before the note's own release: sound_off < note_off and PerformedNote rejects it (ValueError); "
                        "building / re-thresholding the part fails",
                        {"threshold": _num(thr), "exception": f"{type(exc).__name__}: {exc}"})
                ST["raise_diagnosed"] = True
            return
        after = note_triples(notes)
        core.CURRENT.check()
        if [tuple(map(_num, t)) for t in after] != [tuple(map(_num, t)) for t in triples]:
            finding("adjust-modified-pitch-onset-or-release", "pitch/onset/release of a note changed while recomputing sound_off", None)
        got = [n["sound_off"] for n in notes]
        fs, summ = judge(triples, pedal, thr, got)
        summ["overlaps"] = has_overlap_before_release(triples) if len(triples) <= 80 else -1
        for key, what, det in fs:
            finding(key, what, det)
        ST["last_adjust"] = (tok["ids"], tok["seq"], not fs)
        ST["last_summary"] = summ

    # which write did PerformedNote reject? (exact attribution of a raise, not counted as a deciding hook)
    def set_pre(*a, **k):
        ST["rejected_write"] = None

    def set_post(ret, exc, tok, a, k):
        if exc is not None and len(a) == 3:
            ST["rejected_write"] = (a[0], a[1], a[2])

    _hooks.append(core.Hook(P.PerformedNote, "__setitem__", pre=set_pre, post=set_post, ctx=None, label="PerformedNote.__setitem__"))

    def clipped_at_overlapping_onset(notes, triples):
        """The rejected sound_off is exactly the onset of another note of the same pitch that
        starts at/after this note's onset and before its release."""
        rw = ST.get("rejected_write")
        if not rw or rw[1] != "sound_off":
            return False
        idx = [i for i, n in enumerate(notes) if n is rw[0]]
        if not idx or not _finite(rw[2]):
            return False
        i = idx[0]
        p, on, off = triples[i]
        v = F(rw[2])
        return any(j != i and int(q) == int(p) and F(on) <= F(a_) < F(off) and F(a_) == v for j, (q, a_, b_) in enumerate(triples))

    h = core.Hook(P, "adjust_offsets_w_sustain", pre=adj_pre, post=adj_post, ctx=ctx, label="adjust_offsets_w_sustain")
    core.rebind_everywhere(h.orig, h.wrapper)
    _hooks.append(h)

    def recomputed_check(pp, tok_seq, key, label):
        """The object state after construction / assignment must be the recomputed one."""
        if len(pp.notes) == 0:
            return
        la = ST["last_adjust"]
        thr = pp._sustain_pedal_threshold
        ran = la is not None and la[1] > tok_seq and la[0] == (id(pp.notes), thr)
        if ran:
            return                      # adjust ran on these very notes with this threshold and was judged there
        triples = note_triples(pp.notes)
        got = [n["sound_off"] for n in pp.notes]
        fs, summ = judge(triples, pedal_events(pp.controls), thr, got)
        ST["last_summary"] = summ
        if fs:
            k0, what, det = fs[0]
            finding(key, f"{label}: sound_off values are not those of threshold {thr}: {what}", det)

    # ---- PerformedPart.__init__ ---------------------------------------------------
    def init_pre(*a, **k):
        return ST["seq"]

    def init_post(ret, exc, tok, a, k):
        if exc is None:
            recomputed_check(a[0], tok, "construction-left-stale-sound_off", "PerformedPart()")

    _hooks.append(core.Hook(P.PerformedPart, "__init__", pre=init_pre, post=init_post, ctx=ctx, label="PerformedPart.__init__"))

    # ---- sustain_pedal_threshold setter -------------------------------------------
    prop = P.PerformedPart.__dict__["sustain_pedal_threshold"]
    real_fset = prop.fset
    depth = [0]

    def fset(self_, value):
        if depth[0]:
            return real_fset(self_, value)
        core.CURRENT.hook("sustain_pedal_threshold.setter")
        tok = ST["seq"]
        real_fset(self_, value)
        depth[0] += 1
        try:
            core.CURRENT.check()
            if self_.sustain_pedal_threshold != value:
                finding("threshold-not-stored", f"assigned {value}, reads {self_.sustain_pedal_threshold}", None)
            recomputed_check(self_, tok, "threshold-assignment-left-stale-sound_off", f"sustain_pedal_threshold = {value}")
        finally:
            depth[0] -= 1

    P.PerformedPart.sustain_pedal_threshold = property(prop.fget, fset, prop.fdel, prop.__doc__)
    _hooks.append(("property", P.PerformedPart, "sustain_pedal_threshold", prop))

    # ---- PerformedPart.note_array -------------------------------------------------
    def na_post(ret, exc, tok, a, k):
        if exc is not None:
            return
        pp = a[0]
        c = core.CURRENT
        c.check()
        if len(ret) != len(pp.notes):
            finding("note_array-length", f"{len(pp.notes)} notes, {len(ret)} rows", None)
            return
        ppq, mpq = pp.ppq, pp.mpq
        for i, (n, row) in enumerate(zip(pp.notes, ret)):
            on, off, so = n["note_on"], n["note_off"], n["sound_off"]
            onF, offF, soF = F(on), F(off), F(so)
            det = {"note_index": i, "note_on": _num(on), "note_off": _num(off), "sound_off": _num(so), "ppq": _num(ppq), "mpq": _num(mpq),
                   "row": {f: _num(row[f]) for f in ("onset_sec", "duration_sec", "onset_tick", "duration_tick", "pitch", "velocity")}}
            c.check(4)
            if abs(F(row["onset_sec"]) - onF) > Fraction_tol(onF):
                finding("note_array-onset_sec-wrong", f"note {i}: onset_sec {row['onset_sec']} for note_on {on}", det)
            dur = soF - onF
            if abs(F(row["duration_sec"]) - dur) > Fraction_tol(dur):
                key = "note_array-duration_sec-stops-at-release-not-sounding-end" if abs(F(row["duration_sec"]) - (offF - onF)) <= Fraction_tol(dur) \
                    else "note_array-duration_sec-wrong"
                finding(key, f"note {i}: duration_sec {row['duration_sec']}, sounding end - onset = {float(dur)}", det)
            xa = PM.exact_ticks(on, ppq, mpq)
            xb = PM.exact_ticks(off, ppq, mpq)
            # half-tick window: float64 noise, or float32 noise when the times are float32 (numpy
            # then evaluates the conversion in float32: ~1e-7 relative per operation)
            f32 = isinstance(on, np.float32) or isinstance(off, np.float32)
            win = PM.Fraction(1, 10**6) + (abs(xb) * PM.Fraction(1, 10**6) if f32 else 0)
            ra = PM.tick_roundings(xa, win)
            given = n.get("note_on_tick", None)
            det["given_note_on_tick"] = _num(given)
            if len(ra) > 1:
                c.ambiguous()
            if int(row["onset_tick"]) not in ra:
                key = "note_array-onset_tick-disagrees-with-onset_sec"
                if given is not None and int(given) == int(row["onset_tick"]):
                    key = "note_array-given-note_on_tick-not-in-the-parts-ppq-mpq"
                finding(key, f"note {i}: onset_tick {row['onset_tick']} but {on}s is tick {float(xa)} at ppq={ppq} mpq={mpq}", det)
            if soF == offF:
                rb = PM.tick_roundings(xb, win)
                ok = {b - a_ for b in rb for a_ in ra} | PM.tick_roundings(xb - xa, win)
                # the column is relative to the reported onset tick
                ok |= {b - int(row["onset_tick"]) for b in rb} if int(row["onset_tick"]) in ra else set()
                if len(ok) > 1:
                    c.ambiguous()
                if int(row["duration_tick"]) not in ok:
                    key = "note_array-duration_tick-disagrees-with-duration_sec"
                    if given is not None and int(given) not in ra:
                        key = "note_array-duration_tick-mixes-given-onset-tick-with-release-tick-in-other-units"
                    finding(key,
                            f"note {i} (not pedal-extended): duration_tick {row['duration_tick']}, exact {float(xb - xa)} ticks", det)
            else:
                c.extra["duration_tick_not_judged_pedal_extended"] += 1
            if int(row["pitch"]) != int(n["midi_pitch"]) or int(row["velocity"]) != int(n["velocity"]):
                finding("note_array-pitch-or-velocity-wrong", f"note {i}: row {row['pitch']}/{row['velocity']} vs {n['midi_pitch']}/{n['velocity']}", det)

    _hooks.append(core.Hook(P.PerformedPart, "note_array", post=na_post, ctx=ctx, label="PerformedPart.note_array"))

    # ---- utils.music.remove_silence_from_performed_part -----------------------------
    # (load_performance(first_note_at_zero=True) shifts a part with it; the tick fields the
    # importers gave the notes have to follow the seconds, or note_array contradicts itself)
    import partitura.utils.music as MU

    def on_grid(n, ppq, mpq):
        """The note's given ticks are exactly its seconds (no rounding involved)."""
        out = []
        for sec_f, tick_f in (("note_on", "note_on_tick"), ("note_off", "note_off_tick")):
            t = n.get(tick_f, None)
            if t is None:
                return None
            x = PM.exact_ticks(n[sec_f], ppq, mpq)
            if abs(x - int(t)) > PM.Fraction(1, 10**6) + abs(x) * PM.Fraction(1, 10**9):
                return None
            out.append(int(t))
        return out

    def rs_pre(pp):
        return [(on_grid(n, pp.ppq, pp.mpq), n["note_on"], n["note_off"], n["sound_off"]) for n in pp.notes]

    def rs_post(ret, exc, tok, a, k):
        if exc is not None or tok is None:
            return
        pp = a[0]
        c = core.CURRENT
        if len(tok) != len(pp.notes) or not tok:
            return
        start = min(F(t[1]) for t in tok)
        for i, (n, (grid, on, off, so)) in enumerate(zip(pp.notes, tok)):
            c.check(3)
            det = {"note_index": i, "before": {"note_on": _num(on), "note_off": _num(off), "sound_off": _num(so), "ticks": grid},
                   "after": {f: _num(n[f]) for f in ("note_on", "note_off", "sound_off", "note_on_tick", "note_off_tick")},
                   "ppq": _num(pp.ppq), "mpq": _num(pp.mpq)}
            for f, old in (("note_on", on), ("note_off", off), ("sound_off", so)):
                want = max(F(old) - start, 0)
                if abs(F(n[f]) - want) > Fraction_tol(F(old)):
                    finding("remove_silence-shifted-" + f + "-wrongly", f"note {i}: {f} {old} -> {n[f]}, silence {float(start)}s", det)
            if grid is None:
                continue
            after = on_grid(n, pp.ppq, pp.mpq)
            if after is None:
                finding("remove_silence-leaves-tick-fields-behind",
                        f"note {i}: ticks {grid} were exactly its seconds ({on}, {off}) before the shift by {float(start)}s; afterwards "
                        f"note_on {n['note_on']} / note_off {n['note_off']} carry ticks {n['note_on_tick']} / {n['note_off_tick']}", det)
                return

    _hooks.append(core.Hook(MU, "remove_silence_from_performed_part", pre=rs_pre, post=rs_post, ctx=ctx,
                            label="remove_silence_from_performed_part"))

    # ---- PerformedPart.from_note_array (classmethod) ------------------------------
    real_cm = P.PerformedPart.__dict__["from_note_array"]
    real_fna = real_cm.__func__
    fdepth = [0]

    def from_note_array(cls, note_array, *a, **k):
        if fdepth[0]:
            return real_fna(cls, note_array, *a, **k)
        core.CURRENT.hook("PerformedPart.from_note_array")
        ret = real_fna(cls, note_array, *a, **k)
        fdepth[0] += 1
        try:
            fna_check(note_array, ret)
        finally:
            fdepth[0] -= 1
        return ret

    def fna_check(na, pp):
        c = core.CURRENT
        c.check()
        if len(pp.notes) != len(na):
            finding("from_note_array-length", f"{len(na)} rows, {len(pp.notes)} notes", None)
            return
        for i, (row, n) in enumerate(zip(na, pp.notes)):
            c.check(4)
            det = {"note_index": i, "row": {f: _num(row[f]) for f in ("onset_sec", "duration_sec", "pitch", "velocity")},
                   "note": {f: _num(n[f]) for f in ("midi_pitch", "velocity", "note_on", "note_off", "sound_off")}}
            if int(n["midi_pitch"]) != int(row["pitch"]):
                finding("from_note_array-pitch-changed", f"row {i}: pitch {row['pitch']} -> {n['midi_pitch']}", det)
            if int(n["velocity"]) != int(row["velocity"]):
                finding("from_note_array-velocity-changed", f"row {i}: velocity {row['velocity']} -> {n['velocity']}", det)
            onF = F(row["onset_sec"])
            endF = onF + F(row["duration_sec"])
            if abs(F(n["note_on"]) - onF) > Fraction_tol(onF):
                finding("from_note_array-onset-changed", f"row {i}: onset {row['onset_sec']} -> {n['note_on']}", det)
            if abs(F(n["sound_off"]) - endF) > Fraction_tol(endF):
                finding("from_note_array-sounding-end-changed", f"row {i}: onset+duration {float(endF)} -> sound_off {n['sound_off']}", det)

    P.PerformedPart.from_note_array = classmethod(from_note_array)
    _hooks.append(("classmethod", P.PerformedPart, "from_note_array", real_cm))

    # ---- Performance.sanitize_track_numbers / num_tracks --------------------------
    def tracks_of(perf):
        snap = []
        for pp in perf.performedparts:
            snap.append([[n.get("track", "missing") for n in pp.notes],
                         [c_.get("track", "missing") for c_ in pp.controls],
                         [p_.get("track", "missing") for p_ in pp.programs]])
        return snap

    def san_pre(perf):
        return tracks_of(perf)

    def san_post(ret, exc, tok, a, k):
        if exc is not None:
            return
        perf = a[0]
        new = tracks_of(perf)
        c = core.CURRENT
        c.check()
        fwd, back = {}, {}
        jold = lambda o: _num(o) if o != "missing" else o
        for i, (po, pn) in enumerate(zip(tok, new)):
            for kind, lo, ln in zip(("note", "control", "program"), po, pn):
                for o, nw in zip(lo, ln):
                    if isinstance(nw, bool) or not isinstance(nw, (int, np.integer)):
                        finding("track-renumbering-not-a-number", f"part {i} {kind}: track {nw!r}", None)
                        continue
                    nw = int(nw)
                    src = (i, jold(o))
                    if fwd.setdefault(src, nw) != nw:
                        finding("track-renumbering-split-a-track", f"part {i} old track {o!r} became both {fwd[src]} and {nw}",
                                {"old": tok, "new": new})
                    prev = back.setdefault(nw, src)
                    if prev != src and not ({prev[1], src[1]} == {"missing", 0} and prev[0] == src[0]):      # (no track number means track 0, as for notes and in the MIDI writer)
                        key = "track-renumbering-shared-between-parts" if prev[0] != i else "track-renumbering-merged-tracks-of-a-part"
                        finding(key, f"new track {nw} holds {prev} and {src} (part index, old track)", {"old": tok, "new": new})
        c.extra["track_pairs_renumbered"] += len(fwd)

    _hooks.append(core.Hook(P.Performance, "sanitize_track_numbers", pre=san_pre, post=san_post, ctx=ctx,
                            label="Performance.sanitize_track_numbers"))

    def nt_post(ret, exc, tok, a, k):
        if exc is not None:
            return
        perf = a[0]
        pairs = set()
        for i, t3 in enumerate(tracks_of(perf)):
            for lst in t3:
                for o in lst:
                    pairs.add((i, 0 if o == "missing" else int(o)))
        core.CURRENT.check()
        if ret != len(pairs):
            finding("num_tracks-wrong", f"num_tracks {ret}, distinct (part, track) pairs {len(pairs)}", {"tracks": tracks_of(perf)})

    _hooks.append(core.Hook(P.Performance, "num_tracks", post=nt_post, ctx=ctx, label="Performance.num_tracks"))


def Fraction_tol(x):
    """f4 column tolerance of DESIGN §3: 1e-6 * max(1, |x|)."""
    from fractions import Fraction
    return Fraction(1, 10**6) * max(1, abs(x))


def setup(ctx):
    install(ctx)


# ------------------------------------------------------------------ driver
def plain_case(case):
    return {k: case[k] for k in ("notes", "controls", "thresholds", "ppq", "mpq", "dress", "late_controls", "late_notes", "given_ticks") if case.get(k) is not None}


def run_scenario(ctx, case, record):
    """Runs one case through the real code under the hooks; returns the findings."""
    import partitura.performance as P
    prev = ST["collector"]
    ST["collector"] = found = []
    try:
        _scenario(ctx, case, record, P)
    finally:
        ST["collector"] = prev
    return found


def _call(ctx, found, fn, *a, **k):
    """ctx.call, but a raise that a hook already attributed to a mechanism is not reported twice."""
    ST["raise_diagnosed"] = False
    try:
        return True, ctx.call(fn, *a, **k)
    except core.PartituraRaised as pr:
        if not ST["raise_diagnosed"]:
            found.append({"key": f"raise:{type(pr.exc).__name__}@{pr.where}", "what": f"library raised {type(pr.exc).__name__}: {pr.exc}",
                          "detail": {"traceback": pr.tb[-1200:]}})
        return False, None


def _record_case(ctx, case, thr, record, step):
    summ = ST["last_summary"]
    ST["last_summary"] = None
    if not record:
        return
    if summ is None:            # nothing recomputed (empty part)
        ctx.case(["empty", step], False, cls="empty-part")
        return
    nontrivial = summ["extended"] >= 1 and (summ["restrike"] >= 1 or summ.get("overlaps", 0) > 0)
    sig = [[(n["midi_pitch"], repr(n["note_on"]), repr(n["note_off"])) for n in case["notes"]],
           [(repr(c["time"]), c["value"]) for c in case["controls"] if c["number"] == 64], thr]
    sample = None
    if nontrivial and len(ctx.samples) < 3 and len(case["notes"]) <= 5:
        sample = {"notes": [[n["midi_pitch"], n["note_on"], n["note_off"]] for n in case["notes"]],
                  "sustain_events": [[c["time"], c["value"]] for c in case["controls"] if c["number"] == 64],
                  "threshold": thr, "model_reasons": summ["reasons"]}
    ctx.case(sig, nontrivial, sample=sample, cls=case.get("kind", "?").split("/")[0])
    for r, cnt in summ["reasons"].items():
        ctx.extra["notes:" + r] += cnt
        ctx.state(f"{r}|ov={min(summ.get('overlaps', 0), 2)}|thr={'0' if thr == 0 else '127' if thr >= 127 else 'mid'}|n={min(len(case['notes']), 4)}")
    ctx.extra["notes_pedal_extended_decided"] += summ["extended"]
    ctx.extra["notes_ended_by_restrike"] += summ["restrike"]
    if summ.get("overlaps", 0) > 0:
        ctx.extra["evaluations_with_equal_pitch_overlap"] += 1


def _scenario(ctx, case, record, P):
    found = ST["collector"]
    notes = gen_perf.dress_notes(case, P.PerformedNote)
    controls = [dict(c) for c in case["controls"]]
    thrs = case["thresholds"]
    kw = {} if case["dress"].get("default_ppq_mpq") else {"ppq": case["ppq"], "mpq": case["mpq"]}
    ST["last_summary"] = None
    ok, pp = _call(ctx, found, P.PerformedPart, notes, id="P0", part_name="gen", controls=controls,
                   sustain_pedal_threshold=thrs[0], **kw)
    if not ok:
        if record:
            ctx.extra["construction_raised"] += 1
        return
    _record_case(ctx, case, thrs[0], record, 0)
    history = [(thrs[0], [n["sound_off"] for n in pp.notes])]
    for step, thr in enumerate(thrs[1:], 1):
        ok, _ = _call(ctx, found, setattr, pp, "sustain_pedal_threshold", thr)
        if not ok:
            if record:
                ctx.extra["assignment_raised"] += 1
            return
        _record_case(ctx, case, thr, record, step)
        history.append((thr, [n["sound_off"] for n in pp.notes]))
    # raising the threshold never lengthens any note (all pairs of the sweep)
    for a in range(len(history)):
        for b in range(len(history)):
            ta, sa = history[a]
            tb, sb = history[b]
            if ta < tb:
                ctx.check()
                for i, (x, y) in enumerate(zip(sa, sb)):
                    if F(y) > F(x):
                        found.append({"key": "raising-threshold-lengthened-note",
                                      "what": f"note {i}: sound_off {x} at threshold {ta} but {y} at {tb}",
                                      "detail": {"note_index": i, "thresholds": [ta, tb], "sound_off": [_num(x), _num(y)]}})
                        break
    # tabular view and its inverse
    ticks_given_beforehand = any(n.get("note_on_tick", None) is not None for n in pp.notes)
    ok, na = _call(ctx, found, pp.note_array)
    if ok:
        ok, rb = _call(ctx, found, P.PerformedPart.from_note_array, na)
        if ok:
            ctx.check()
            if len(rb.notes) != len(pp.notes):
                found.append({"key": "roundtrip-note-count", "what": f"{len(pp.notes)} -> {len(rb.notes)}", "detail": None})
            else:
                for i, (o, r) in enumerate(zip(pp.notes, rb.notes)):
                    ctx.check(4)
                    det = {"note_index": i, "original": {f: _num(o[f]) for f in ("midi_pitch", "velocity", "note_on", "note_off", "sound_off")},
                           "rebuilt": {f: _num(r[f]) for f in ("midi_pitch", "velocity", "note_on", "note_off", "sound_off")}}
                    if int(o["midi_pitch"]) != int(r["midi_pitch"]) or int(o["pitch"]) != int(r["pitch"]):
                        found.append({"key": "roundtrip-pitch-changed", "what": f"note {i}", "detail": det})
                    if int(o["velocity"]) != int(r["velocity"]):
                        found.append({"key": "roundtrip-velocity-changed", "what": f"note {i}", "detail": det})
                    if abs(F(o["note_on"]) - F(r["note_on"])) > Fraction_tol(F(o["note_on"])):
                        found.append({"key": "roundtrip-onset-changed", "what": f"note {i}: {o['note_on']} -> {r['note_on']}", "detail": det})
                    if abs(F(o["sound_off"]) - F(r["sound_off"])) > Fraction_tol(F(o["sound_off"])):
                        found.append({"key": "roundtrip-sounding-end-changed", "what": f"note {i}: {o['sound_off']} -> {r['sound_off']}", "detail": det})
    # the resolution of the part is changed after the table has been taken once: the next table is in the new units
    # (notes that were given ticks by an importer keep them, so only parts without given ticks are asked)
    if not case.get("given_ticks") and not ticks_given_beforehand:
        ppq0, mpq0 = pp.ppq, pp.mpq
        try:
            pp.ppq = int(ppq0) * 2 + 7
            ok, _ = _call(ctx, found, pp.note_array)
            pp.mpq = int(mpq0) // 3 + 1000
            ok, _ = _call(ctx, found, pp.note_array)
            if record:
                ctx.extra["note_array_taken_again_after_ppq_mpq_change"] += 1
        finally:
            pp.ppq, pp.mpq = ppq0, mpq0
    # ticks as an importer gives them (only when every time lies exactly on the tick grid), then the
    # leading silence is removed: seconds and ticks have to move together
    if case.get("given_ticks"):
        import partitura.utils.music as MU
        grid = []
        for n in pp.notes:
            xa, xb = PM.exact_ticks(n["note_on"], pp.ppq, pp.mpq), PM.exact_ticks(n["note_off"], pp.ppq, pp.mpq)
            ra, rb_ = round(xa), round(xb)
            if abs(xa - ra) > PM.Fraction(1, 10**7) or abs(xb - rb_) > PM.Fraction(1, 10**7):
                grid = None
                break
            grid.append((ra, rb_))
        if grid:
            for n, (ra, rb_) in zip(pp.notes, grid):
                n["note_on_tick"] = ra
                n["note_off_tick"] = rb_
            for c_ in pp.controls:          # remove_silence groups controls by track and channel (as the MIDI importer supplies them)
                c_.setdefault("track", 0)
                c_.setdefault("channel", 0)
            ok, _ = _call(ctx, found, pp.note_array)
            ok, _ = _call(ctx, found, MU.remove_silence_from_performed_part, pp) if ok else (False, None)
            if ok:
                _call(ctx, found, pp.note_array)
                if record:
                    ctx.extra["silence_removed_with_given_ticks"] += 1
                    if min(g[0] for g in grid) > 0:
                        ctx.extra["silence_removed_with_given_ticks_and_leading_silence"] += 1
    # late edit of the control stream, then assignment: every note recomputed from the stream as it is now
    late = case.get("late_controls")
    if late:
        pp.controls.extend(dict(c) for c in late)
        for n in case.get("late_notes") or []:
            pp.notes.append(P.PerformedNote(dict(n)))
        ok, _ = _call(ctx, found, setattr, pp, "sustain_pedal_threshold", thrs[-1])
        if ok and record:
            ctx.extra["late_control_edits"] += 1
        ST["last_summary"] = None


def shrink(ctx, case, key):
    """Delta-debug the case to a small one whose scenario still yields `key`."""
    def has(c):
        try:
            return any(f["key"] == key for f in run_scenario(ctx, c, False))
        except Exception:
            return False

    cur = {k: (list(v) if isinstance(v, list) else v) for k, v in plain_case(case).items()}
    cur["late_controls"] = case.get("late_controls")
    cur["late_notes"] = case.get("late_notes")
    cur["dress"] = dict(case["dress"])
    if not has(cur):
        return plain_case(case), False
    # simplest dressing first
    for simple in ({"note_type": "dict", "num_type": "py", "drop_optional": False, "stale_sound_off": False, "default_ppq_mpq": False},):
        if cur["dress"]["num_type"] == "npint":
            simple = dict(simple, num_type="py")
        trial = dict(cur, dress=simple)
        if has(trial):
            cur = trial
    if cur.get("late_controls"):
        trial = dict(cur, late_controls=None, late_notes=None)
        if has(trial):
            cur = trial
        elif cur.get("late_notes") and has(dict(cur, late_notes=None)):
            cur = dict(cur, late_notes=None)
    for field, keep in (("thresholds", 1), ("notes", 0), ("controls", 0)):
        chunk = max(1, len(cur[field]) // 2)
        while chunk >= 1:
            i = 0
            while i < len(cur[field]) and len(cur[field]) > keep:
                lst = cur[field][:i] + cur[field][i + chunk:]
                if len(lst) >= keep and has(dict(cur, **{field: lst})):
                    cur[field] = lst
                else:
                    i += chunk
            chunk //= 2
    for k in ("late_controls", "late_notes"):
        if not cur.get(k):
            cur.pop(k, None)
    return cur, True


def report(ctx, case, found):
    seen = set()
    for f in found:
        if f["key"] in seen:
            continue
        seen.add(f["key"])
        if ctx._viol_keys[f["key"]] >= 5:
            ctx.violation(f["key"], f["what"], None)      # counted only
            continue
        small, ok = shrink(ctx, case, f["key"])
        again = [g for g in run_scenario(ctx, small, False) if g["key"] == f["key"]] if ok else []
        g = again[0] if again else f
        ctx.violation(f["key"], g["what"], {"case": small, "minimised": ok, "detail": g["detail"],
                                            "how": "PerformedPart(notes, controls=controls, sustain_pedal_threshold=thresholds[0], ppq=ppq, mpq=mpq); "
                                                   "then assign the remaining thresholds, note_array(), from_note_array()"})


def plan(tier, seed):
    fx = []
    data = os.path.join(core.REPO, "tests", "data")
    for sub in ("midi", "match"):
        d = os.path.join(data, sub)
        if os.path.isdir(d):
            fx += [["fixture", f"{sub}/{f}"] for f in sorted(os.listdir(d)) if f.endswith((".mid", ".midi", ".match"))]
    if tier == "quick":
        items = [["gen", i, 60, "small"] for i in range(176)] + [["gen", 100000 + i, 8, "large"] for i in range(32)]
        items += [["perf", i, 60] for i in range(16)] + [["edge"]]
        return fx + items
    items = [["gen", i, 100, "small"] for i in range(1800)] + [["gen", 100000 + i, 12, "large"] for i in range(640)]
    items += [["perf", i, 100] for i in range(160)] + [["edge"]]
    # a few batches again under other hash seeds (track renumbering iterates over a set)
    return {"0": fx + items, "1": [["perf", i, 100] for i in range(16)] + [["gen", i, 100, "small"] for i in range(16)],
            "2": [["perf", i, 100] for i in range(16)], "3": [["perf", i, 100] for i in range(16)]}


def run_item(ctx, item):
    import partitura.performance as P
    kind = item[0]
    ST["where"] = None
    if kind == "gen":
        _, idx, count, profile = item
        rng = ctx.rng("gen", idx, profile)
        for j in range(count):
            case = gen_perf.normalise_case(gen_perf.gen_case(rng, profile))
            if rng.random() < 0.2 and case["notes"]:
                tmax = max(float(n["note_off"]) for n in case["notes"])
                case["late_controls"] = [{"number": 64, "time": rng.random() * (tmax + 1), "value": rng.choice([0, 127, rng.randint(0, 127)])}
                                         for _ in range(rng.randint(1, 3))]
                if rng.random() < 0.5:       # a note added to the part afterwards is recomputed by the assignment too
                    src = rng.choice(case["notes"])
                    a = float(src["note_off"]) + rng.choice([0.5, 1.0, 2.5])
                    case["late_notes"] = [{"id": "late", "midi_pitch": src["midi_pitch"], "note_on": a, "note_off": a + rng.choice([0.0, 0.75]),
                                           "velocity": 64, "track": 0, "channel": 0}]
            if rng.random() < 0.3 and case["notes"] and not case.get("late_controls"):
                case["given_ticks"] = True
            found = run_scenario(ctx, case, True)
            if found:
                report(ctx, case, found)
    elif kind == "perf":
        rng = ctx.rng("perf", item[1])
        for j in range(item[2]):
            run_performance(ctx, gen_perf.gen_performance(rng), P)
    elif kind == "edge":
        run_edges(ctx, P)
    elif kind == "fixture":
        run_fixture(ctx, item[1], P)


def run_performance(ctx, parts, P):
    ST["collector"] = found = []
    try:
        pps = []
        for d in parts:
            ok, pp = _call(ctx, found, P.PerformedPart, [dict(n) for n in d["notes"]], controls=[dict(c) for c in d["controls"]],
                           programs=[dict(p) for p in d["programs"]], sustain_pedal_threshold=d["threshold"])
            if not ok:
                break
            pps.append(pp)
        else:
            arg = pps[0] if len(pps) == 1 and len(parts[0]["notes"]) % 2 else pps
            ok, perf = _call(ctx, found, P.Performance, arg)
            if ok:
                _call(ctx, found, lambda: perf.num_tracks)
                # per part: number of distinct track numbers in that part
                for pp in perf.performedparts:
                    ok2, nt = _call(ctx, found, lambda: pp.num_tracks)
                    if ok2:
                        ctx.check()
                        exp = len({n.get("track", -1) for n in pp.notes} | {c.get("track", -1) for c in pp.controls}
                                  | {p.get("track", -1) for p in pp.programs})
                        if nt != exp:
                            found.append({"key": "PerformedPart.num_tracks-wrong", "what": f"{nt} != {exp}", "detail": None})
                _call(ctx, found, perf.sanitize_track_numbers)       # renumbering an already unique numbering
                _call(ctx, found, lambda: perf.num_tracks)
            used = [{n.get("track", 0) for n in d["notes"]} | {c["track"] for c in d["controls"] if "track" in c} for d in parts]
            clash = any(used[i] & used[j] for i in range(len(used)) for j in range(i + 1, len(used)))
            ctx.case(["perf", parts], clash, cls="performance",
                     sample={"parts": len(parts), "tracks_per_part": [sorted(u) for u in used]} if clash else None)
            ctx.state(f"perf|parts={len(parts)}|clash={clash}")
    finally:
        ST["collector"] = None
    seen = set()
    for f in found:
        if f["key"] not in seen:
            seen.add(f["key"])
            ctx.violation(f["key"], f["what"], {"parts": parts, "detail": f["detail"]})


def run_edges(ctx, P):
    """Hand-picked corners of the domain (each is also reachable by the generator)."""
    base = {"ppq": 480, "mpq": 500000, "dress": {"note_type": "dict", "num_type": "py", "drop_optional": False,
                                                 "stale_sound_off": False, "default_ppq_mpq": False}, "kind": "edge/-/-/-"}

    def N(i, p, a, b, **kw):
        return dict({"id": f"n{i}", "midi_pitch": p, "note_on": a, "note_off": b, "velocity": 64, "track": 0, "channel": 0}, **kw)

    def C(t, v, num=64):
        return {"number": num, "time": t, "value": v}

    cases = [
        ("empty part", [], [], [64, 0]),
        ("empty part with pedal", [], [C(0.5, 127)], [64]),
        ("single note no controls", [N(0, 60, 0.0, 1.0)], [], [64, 0, 127]),
        ("only other controllers", [N(0, 60, 0.0, 1.0)], [C(0.5, 127, 67), C(0.5, 127, 66)], [64, 0]),
        ("pedal down then up", [N(0, 60, 0.0, 1.0)], [C(0.5, 127), C(2.5, 0)], [64, 0, 126, 127]),
        ("value equals threshold is up", [N(0, 60, 0.0, 1.0)], [C(0.5, 64), C(2.5, 0)], [64, 63, 65]),
        ("pedal before first note only", [N(0, 60, 5.0, 6.0)], [C(0.5, 127), C(1.5, 0)], [64]),
        ("pedal after last note only", [N(0, 60, 0.0, 1.0)], [C(3.5, 127), C(4.5, 0)], [64]),
        ("re-strike under pedal", [N(0, 60, 0.0, 1.0), N(1, 60, 2.0, 3.0, channel=1)], [C(0.5, 127), C(5.5, 0)], [64, 127]),
        ("re-strike of another pitch only", [N(0, 60, 0.0, 1.0), N(1, 61, 2.0, 3.0)], [C(0.5, 127), C(5.5, 0)], [64]),
        ("overlap same pitch, pedal elsewhere", [N(0, 60, 0.0, 2.0), N(1, 60, 1.0, 3.0, channel=1)], [C(9.5, 0)], [64]),
        ("nested same pitch under pedal", [N(0, 60, 0.0, 4.0), N(1, 60, 1.0, 2.0), N(2, 60, 6.0, 7.0)], [C(0.5, 127), C(9.5, 0)], [64, 0]),
        ("equal onsets same pitch", [N(0, 60, 1.0, 1.0), N(1, 60, 1.0, 2.0)], [C(0.5, 127), C(9.5, 0)], [64]),
        ("zero-length note under pedal", [N(0, 60, 1.0, 1.0)], [C(0.5, 127), C(2.5, 0)], [64, 127, 0]),
        ("half pedal values", [N(0, 60, 0.0, 1.0), N(1, 62, 0.0, 3.0)], [C(0.5, 40), C(1.5, 80), C(2.5, 50), C(3.5, 90), C(4.5, 10)], [0, 39, 40, 49, 50, 79, 80, 89, 90, 127]),
        ("unsorted controls", [N(0, 60, 0.0, 1.0)], [C(2.5, 0), C(0.5, 127)], [64]),
        ("int times", [N(0, 60, 0, 2), N(1, 60, 4, 6)], [C(1, 127), C(9, 0)], [64, 127]),
        ("time zero everything", [N(0, 0, 0.0, 0.0), N(1, 127, 0.0, 0.0)], [C(0.0, 127)], [64]),
    ]
    for name, notes, controls, thrs in cases:
        case = dict(base, notes=notes, controls=controls, thresholds=thrs)
        found = run_scenario(ctx, case, True)
        ctx.state("edge:" + name)
        if found:
            report(ctx, case, found)
    # out-of-domain observation bucket (never judged): documented control format without "number";
    # notes that follow PerformedNote's docstring ("pitch") but carry no midi_pitch
    for label, fn in (
        ("controls_without_number", lambda: P.PerformedPart([N(0, 60, 0.0, 1.0)], controls=[{"type": "sustain_pedal", "time": 0.5, "value": 127}])),
        ("pitch_key_only_note_array", lambda: P.PerformedPart([{"id": "a", "pitch": 60, "note_on": 0.0, "note_off": 1.0}]).note_array()),
    ):
        ST["collector"] = []
        try:
            fn()
            ctx.extra[f"out_of_domain:{label}:returned"] += 1
        except Exception as e:
            ctx.extra[f"out_of_domain:{label}:{type(e).__name__}"] += 1
        finally:
            ST["collector"] = None


def run_fixture(ctx, rel, P):
    """Real recordings: the hooks judge every part the loaders build; then sweep thresholds."""
    import sys
    import partitura
    path = os.path.join(core.REPO, "tests", "data", rel)
    ST["where"] = {"fixture": rel}
    ST["collector"] = None           # hooks report at once, with the fixture as witness
    ST["raise_diagnosed"] = False
    try:
        if rel.endswith(".match"):
            res = partitura.load_match(path)
            perf = res[0] if isinstance(res, tuple) else res
        else:
            perf = partitura.load_performance_midi(path)
    except Exception as e:
        where = core.innermost_partitura_frame(sys.exc_info()[2]) or ""
        if where.startswith("performance.") and not ST["raise_diagnosed"]:
            ctx.violation(f"raise:{type(e).__name__}@{where}", f"loading {rel}: {type(e).__name__}: {e}", {"fixture": rel})
        else:                                     # loading as such is C06/C08's business
            ctx.extra[f"fixture_load_failed:{type(e).__name__}"] += 1
        ST["where"] = None
        return
    found = []
    for pi, pp in enumerate(perf.performedparts):
        ST["where"] = {"fixture": rel, "part": pi}
        hist = []
        for thr in (64, 0, 20, 63, 100, 126, 127, 128, 64):
            ST["last_summary"] = None
            ok, _ = _call(ctx, found, setattr, pp, "sustain_pedal_threshold", thr)
            if not ok:
                break
            summ = ST["last_summary"] or {"extended": 0, "restrike": 0, "reasons": {}}
            ctx.case(["fixture", rel, pi, thr], summ["extended"] > 0 and summ["restrike"] > 0, cls="fixture")
            for r, cnt in summ["reasons"].items():
                ctx.extra["fixture_notes:" + r] += cnt
            hist.append((thr, [n["sound_off"] for n in pp.notes]))
        for ta, sa in hist:
            for tb, sb in hist:
                if ta < tb:
                    ctx.check()
                    bad = [i for i, (x, y) in enumerate(zip(sa, sb)) if y > x]
                    if bad:
                        ctx.violation("raising-threshold-lengthened-note", f"{rel} part {pi}: note {bad[0]} longer at {tb} than at {ta}",
                                      {"fixture": rel, "part": pi, "note_index": bad[0], "thresholds": [ta, tb]})
        ok, na = _call(ctx, found, pp.note_array)
        ok, rb = _call(ctx, found, P.PerformedPart.from_note_array, na) if ok else (False, None)
        if ok:
            ctx.check(len(pp.notes))
            for i, (o, r) in enumerate(zip(pp.notes, rb.notes)):
                if int(o["midi_pitch"]) != int(r["midi_pitch"]) or int(o["velocity"]) != int(r["velocity"]) \
                        or abs(F(o["note_on"]) - F(r["note_on"])) > Fraction_tol(F(o["note_on"])) \
                        or abs(F(o["sound_off"]) - F(r["sound_off"])) > Fraction_tol(F(o["sound_off"])):
                    ctx.violation("roundtrip-note-changed", f"{rel} part {pi} note {i}", {"fixture": rel, "part": pi, "note_index": i})
                    break
        # the leading silence removed (what load_performance(first_note_at_zero=True) does)
        import partitura.utils.music as MU
        if pp.notes:
            for c_ in pp.controls:          # match files give controls without track and channel
                c_.setdefault("track", 0)
                c_.setdefault("channel", 0)
            ok, _ = _call(ctx, found, MU.remove_silence_from_performed_part, pp)
            if ok:
                _call(ctx, found, pp.note_array)
    for f in found:
        ctx.violation(f["key"], f["what"], {"fixture": rel, "detail": f["detail"]})
    ST["where"] = None
