"""C05 — the note array is a faithful table of the score.

Post-condition hooks on the real note_array_from_part / rest_array_from_part /
note_array_from_part_list: every returned structured array is compared cell by
cell with rows built independently by walking the registered objects and
evaluating the exact time-map model (C02) and the brute-force signature /
measure model (C10) at each onset.
"""
import math
from fractions import Fraction

import numpy as np

from vmon import core
from vmon.refmodels import pitch as P
from vmon.refmodels import sigmaps, timemaps

PROP = "C05"
RULE = ("generated parts/scores (division and signature changes, pickups, multi-measure ties, grace notes, chords, missing voices "
        "and staves, 1-4 parts with different divisions incl. lcm exceeding all) x sampled subsets of the include_* options x "
        "unique_id_per_part; rest arrays; inverse direction from generated note arrays with beat-only, div-only and both time "
        "columns; non-trivial = >=1 tie chain or grace note and >=2 optional columns (or >=2 parts with different divisions); "
        "distinct by (score digest, option mask)")
ASSUMPTIONS = ["float columns are f4: compared with rel. tol. 2e-6 against exact rationals",
               "cells of notes without voice/staff are don't-care apart from not colliding with a real voice",
               "metrical-position cells judged only where C10 defines them; order judged on (onset_div, pitch)",
               "include_divs_per_quarter / score-level arrays only for parts with a single divisions value (documented to raise otherwise)"]
MIN_HOOKS = {"note_array_from_part": 300, "rest_array_from_part": 100, "note_array_from_part_list": 60}
MIN_NONTRIVIAL = {"quick": 200, "thorough": 3000}
OPTS = ["include_pitch_spelling", "include_key_signature", "include_time_signature", "include_metrical_position",
        "include_grace_notes", "include_staff", "include_divs_per_quarter"]
_installed = False
F4 = 2e-6


def f4close(x, exact):
    e = float(exact)
    return abs(float(x) - e) <= F4 * max(1.0, abs(e)) + 1e-7


def expected_rows(part, rests=False):
    """Independent row builder: one dict per sounding note (or rest)."""
    import partitura.score as S
    d_t = timemaps.describe(part)
    d_s = sigmaps.describe(part)
    musical = bool(getattr(part, "_use_musical_beat", False))
    model = timemaps.Model(d_t, musical=musical) if d_t["n_points"] >= 2 else None
    rows = []
    objs = timemaps.objects_of(part, S.Rest if rests else S.Note, exact=False)
    for n in objs:
        if n.tie_prev is not None and not rests:
            continue
        on = int(n.start.t)
        # end of the tie chain
        last = n
        seen = 0
        summed = int(n.end.t) - on if n.end is not None else 0
        while getattr(last, "tie_next", None) is not None and seen < 10000:
            last = last.tie_next
            summed += int(last.end.t) - int(last.start.t)
            seen += 1
        off = int(last.end.t) if last.end is not None else on
        # a tie chain whose notes are not adjacent (a tie from a first ending into the second one, a tie across a jump): the
        # chain sounds for the SUM of its notes' timeline durations, not for the span from its first onset to its last end;
        # only the quarter/beat durations of such a chain are left open (the maps are not additive across a signature change)
        chain_gap = (off - on) != summed
        if chain_gap and not rests:
            off = on + summed
        if rests:
            off = int(n.end.t)
        voice = n.voice
        if isinstance(voice, str) and voice.strip().lstrip("-").isdigit():
            voice = int(voice)                      # some importers (music21) keep the voice as text; the array column is an int
        r = {"obj": n, "id": n.id, "onset_div": on, "duration_div": off - on, "voice": voice, "staff": n.staff,
             "chain_gap": chain_gap and not rests}
        if not rests:
            r["pitch"] = P.midi(n.step, n.alter, n.octave)
            r["step"], r["alter"], r["octave"] = n.step, (n.alter or 0), n.octave
            r["is_grace"] = isinstance(n, S.GraceNote)
            r["grace_type"] = n.grace_type if isinstance(n, S.GraceNote) else ""
        else:
            r["pitch"] = 0
            r["is_grace"], r["grace_type"] = False, ""
        if model is not None:
            oq, ob = model.origin_q, model.origin_b
            r["onset_quarter"] = None if oq is None else model.quarter(on) - oq
            r["duration_quarter"] = model.quarter(off) - model.quarter(on)
            r["onset_beat"] = None if ob is None else model.beat(on) - ob
            r["duration_beat"] = model.beat(off) - model.beat(on)
        (r["ks_fifths"], r["ks_mode"]), r["ks_amb"] = sigmaps.ks_at(d_s, on)
        (r["ts_beats"], r["ts_beat_type"], r["ts_mus_beats"]), r["ts_amb"] = sigmaps.ts_at(d_s, on)
        r["metrical"] = None
        if d_s["measures"] and not d_s["measures_open"]:
            m = sigmaps.measure_at(d_s, on)
            if m is not None:
                start, end, _, idx = m
                ok = True
                if idx == 0:
                    ps, certain = sigmaps.pickup_start(d_s)
                    ok = certain and ps.denominator == 1
                    start = int(ps) if ok else start
                if ok:
                    r["metrical"] = (on - start, end - start)
        rows.append(r)
    return rows, d_s, d_t


def compare(ctx, label, arr, rows, opts, d_s, w, rests=False, scale=1, prefix=""):
    """arr rows are matched to expected rows by id (ids are unique in generated scores)."""
    names = arr.dtype.names
    ctx.check()
    if len(arr) != len(rows):
        key = "row-count"
        ties = sum(1 for r in rows if getattr(r["obj"], "tie_next", None) is not None)
        ctx.violation(f"{label}-row-count", f"{len(arr)} rows for {len(rows)} sounding {'rests' if rests else 'notes'}", w)
        return False
    by_id = {}
    for r in rows:
        by_id.setdefault(prefix + str(r["id"]), []).append(r)
    if any(len(v) > 1 for v in by_id.values()):
        ctx.extra["duplicate_ids_not_compared"] += 1
        return True
    used_voices = {r["voice"] for r in rows if r["voice"] is not None}
    for a in arr:
        rid = str(a["id"])
        r = by_id.get(rid)
        if r is None:
            ctx.violation(f"{label}-unknown-id", f"row id {rid!r} is no sounding note of the score", w)
            return False
        r = r[0]

        def bad(col, got, exp, key=None):
            ctx.violation(key or f"{label}-cell-{col}", f"{col} of {rid}: {got!r}, expected {exp!r}", dict(w, row_id=rid, column=col))
            return False
        ctx.check(4)
        if int(a["onset_div"]) != r["onset_div"] * scale:
            return bad("onset_div", int(a["onset_div"]), r["onset_div"] * scale)
        if int(a["duration_div"]) != r["duration_div"] * scale:
            tie = "-tie-chain" if getattr(r["obj"], "tie_next", None) is not None else ("-grace" if r["is_grace"] else "")
            return bad("duration_div", int(a["duration_div"]), r["duration_div"] * scale, f"{label}-cell-duration_div{tie}")
        if int(a["pitch"]) != r["pitch"]:
            return bad("pitch", int(a["pitch"]), r["pitch"])
        if r["voice"] is not None:
            if int(a["voice"]) != r["voice"]:
                return bad("voice", int(a["voice"]), r["voice"])
        else:
            ctx.ambiguous()
            if int(a["voice"]) in used_voices:
                return bad("voice", int(a["voice"]), "a number no voiced note carries", f"{label}-missing-voice-collides")
        for col in ("onset_beat", "duration_beat", "onset_quarter", "duration_quarter"):
            if col in names and col in r:
                if r[col] is None or (r.get("chain_gap") and col.startswith("duration")):
                    ctx.ambiguous()
                    continue
                ctx.check()
                if not f4close(a[col], r[col]):
                    return bad(col, float(a[col]), float(r[col]))
        if "step" in names and not rests:
            ctx.check(3)
            if (str(a["step"]), int(a["alter"]), int(a["octave"])) != (r["step"], r["alter"], r["octave"]):
                return bad("spelling", (str(a["step"]), int(a["alter"]), int(a["octave"])), (r["step"], r["alter"], r["octave"]))
        if "is_grace" in names:
            ctx.check(2)
            if bool(a["is_grace"]) != r["is_grace"] or str(a["grace_type"]) != r["grace_type"]:
                return bad("grace", (bool(a["is_grace"]), str(a["grace_type"])), (r["is_grace"], r["grace_type"]))
        if "ks_fifths" in names:
            if r["ks_amb"]:
                ctx.ambiguous()
            else:
                ctx.check(2)
                if (int(a["ks_fifths"]), int(a["ks_mode"])) != (r["ks_fifths"], r["ks_mode"]):
                    return bad("key_signature", (int(a["ks_fifths"]), int(a["ks_mode"])), (r["ks_fifths"], r["ks_mode"]))
        if "ts_beats" in names:
            if r["ts_amb"]:
                ctx.ambiguous()
            else:
                ctx.check(2)
                got = (int(a["ts_beats"]), int(a["ts_beat_type"])) + ((int(a["ts_mus_beats"]),) if "ts_mus_beats" in names else ())
                exp = (r["ts_beats"], r["ts_beat_type"]) + ((r["ts_mus_beats"],) if "ts_mus_beats" in names else ())
                if got != exp:
                    return bad("time_signature", got, exp)
        if "rel_onset_div" in names:
            if r["metrical"] is None:
                ctx.ambiguous()
            else:
                ctx.check(3)
                rel, tot = r["metrical"]
                got = (int(a["is_downbeat"]), int(a["rel_onset_div"]), int(a["tot_measure_div"]))
                if got != (1 if rel == 0 else 0, rel * scale, tot * scale):
                    return bad("metrical_position", got, (1 if rel == 0 else 0, rel * scale, tot * scale))
        if "staff" in names:
            if r["staff"] is not None:
                ctx.check()
                if int(a["staff"]) != r["staff"]:
                    return bad("staff", int(a["staff"]), r["staff"])
            else:
                ctx.ambiguous()
        if "divs_pq" in names:
            ctx.check()
            if int(a["divs_pq"]) != d_s["q"][0][1] * scale:
                return bad("divs_pq", int(a["divs_pq"]), d_s["q"][0][1] * scale)
    return True


def check_collapsed_rests(ctx, part, arr):
    """rest_array(collapse=True): joined rests are rows like any other - their lengths in divisions, quarters and beats are one
    and the same stretch of the timeline, and together they cover exactly the rests of the part."""
    import partitura.score as S
    d_t = timemaps.describe(part)
    if d_t["n_points"] < 2 or len(arr) == 0:
        return
    musical = bool(getattr(part, "_use_musical_beat", False))
    model = timemaps.Model(d_t, musical=musical)
    for a in arr:
        on, dur = int(a["onset_div"]), int(a["duration_div"])
        ctx.check(2)
        for col, exact in (("duration_quarter", model.quarter(on + dur) - model.quarter(on)), ("duration_beat", model.beat(on + dur) - model.beat(on))):
            if col in arr.dtype.names and not f4close(a[col], exact):
                ctx.violation(f"rest_array-collapsed-cell-{col}", f"joined rest {a['id']} [{on},{on + dur}): {col} {float(a[col])!r}, the stretch lasts {float(exact)!r}",
                              {"row_id": str(a["id"]), "onset_div": on, "duration_div": dur})
                return
    rests = timemaps.objects_of(part, S.Rest, exact=False)
    ctx.check()
    if sum(int(a["duration_div"]) for a in arr) != sum(int(r.end.t - r.start.t) for r in rests):
        ctx.violation("rest_array-collapsed-total-length", f"joined rests last {sum(int(a['duration_div']) for a in arr)} divisions, the rests of the part "
                      f"{sum(int(r.end.t - r.start.t) for r in rests)}", None)


def check_order(ctx, label, arr, w):
    ctx.check()
    keys = list(zip(arr["onset_div"].tolist(), arr["pitch"].tolist()))
    if any(b < a for a, b in zip(keys, keys[1:])):
        i = next(i for i, (a, b) in enumerate(zip(keys, keys[1:])) if b < a)
        ctx.violation(f"{label}-order", f"rows not ordered by onset then pitch at row {i}: {keys[i]} before {keys[i + 1]}", w)


def witness(part_or_parts, opts):
    parts = part_or_parts if isinstance(part_or_parts, list) else [part_or_parts]
    out = {"options": {k: v for k, v in opts.items() if v}, "parts": []}
    for p in parts[:3]:
        import partitura.score as S
        notes = timemaps.objects_of(p, S.Note, exact=False)[:12]
        out["parts"].append({"id": p.id, "q": [(int(t), int(q)) for t, q in p.quarter_durations()][:5],
                             "notes": [(n.id, int(n.start.t), int(n.end.t), n.step, n.alter, n.octave, n.voice, n.staff,
                                        getattr(n.tie_next, "id", None)) for n in notes]})
    return out


def check_part_array(ctx, part, kwargs, arr, rests=False):
    label = "rest_array" if rests else "note_array"
    opts = {o: bool(kwargs.get(o, False)) for o in OPTS}
    rows, d_s, d_t = expected_rows(part, rests=rests)
    w = witness(part, opts)
    if len(rows) == 0:
        ctx.check()
        if len(arr) != 0:
            ctx.violation(f"{label}-row-count", f"{len(arr)} rows for a part without {'rests' if rests else 'notes'}", w)
        return
    if compare(ctx, label, arr, rows, opts, d_s, w, rests=rests):
        check_order(ctx, label, arr, w)


def all_parts(x):
    import partitura.score as S
    out = []
    for p in x:
        if isinstance(p, S.PartGroup):
            out.extend(all_parts(p.children))
        else:
            out.append(p)
    return out


def check_list_array(ctx, part_list, unique, kwargs, arr):
    import partitura.score as S
    if not all(isinstance(p, (S.Part, S.PartGroup)) for p in part_list):
        return
    flat = all_parts(part_list)
    opts = {o: bool(kwargs.get(o, False)) for o in OPTS}
    w = witness(flat, opts)
    w["unique_id_per_part"] = unique
    if any(isinstance(p, S.PartGroup) for p in part_list):
        ctx.extra["nested_groups_rowcount_only"] += 1
        total = sum(len(expected_rows(p)[0]) for p in flat)
        ctx.check()
        if len(arr) != total:
            ctx.violation("score_note_array-row-count", f"{len(arr)} rows for {total} sounding notes (nested groups)", w)
        return
    divs = [p.quarter_durations() for p in flat]
    if any(len(q) != 1 for q in divs):
        return
    qs = [int(q[0][1]) for q in divs]
    # the parts that contribute rows decide the common divisions
    lcm = math.lcm(*([q for q, p in zip(qs, flat) if len(expected_rows(p)[0])] or [1]))
    total = 0
    ok = True
    for i, p in enumerate(flat):
        rows, d_s, d_t = expected_rows(p)
        total += len(rows)
        prefix = f"P{i:02d}_" if (unique and len(part_list) > 1) else ""
        ids = {prefix + str(r["id"]) for r in rows}
        sub = arr[np.isin(arr["id"], list(ids))] if len(arr) else arr
        if len(rows) and not compare(ctx, "score_note_array", sub, rows, opts, d_s, dict(w, part_index=i, lcm=lcm, divisions=qs),
                                     scale=lcm // qs[i], prefix=prefix):
            ok = False
            break
    ctx.check()
    if ok and len(arr) != total:
        ctx.violation("score_note_array-row-count", f"{len(arr)} rows for {total} sounding notes", w)
    elif ok:
        check_order(ctx, "score_note_array", arr, w)


def install(ctx):
    global _installed
    core.set_current(ctx)
    if _installed:
        return
    _installed = True
    import inspect
    import partitura.utils.music as M

    def bind(fn, a, k):
        ba = inspect.signature(fn).bind(*a, **k)
        ba.apply_defaults()
        return ba.arguments

    def post_part(ret, exc, token, a, k):
        if exc is None:
            args = bind(h1.orig, a, k)
            check_part_array(core.CURRENT, args["part"], args, ret)

    def post_rest(ret, exc, token, a, k):
        if exc is None:
            args = bind(h2.orig, a, k)
            if not args.get("collapse"):
                check_part_array(core.CURRENT, args["part"], args, ret, rests=True)
            else:
                check_collapsed_rests(core.CURRENT, args["part"], ret)

    def post_list(ret, exc, token, a, k):
        if exc is None:
            args = bind(h3.orig, a, k)
            check_list_array(core.CURRENT, list(args["part_list"]), args["unique_id_per_part"], args.get("kwargs", {}), ret)

    h1 = core.Hook(M, "note_array_from_part", post=post_part, ctx=ctx, label="note_array_from_part")
    core.rebind_everywhere(h1.orig, h1.wrapper)
    h2 = core.Hook(M, "rest_array_from_part", post=post_rest, ctx=ctx, label="rest_array_from_part")
    core.rebind_everywhere(h2.orig, h2.wrapper)
    h3 = core.Hook(M, "note_array_from_part_list", post=post_list, ctx=ctx, label="note_array_from_part_list")
    core.rebind_everywhere(h3.orig, h3.wrapper)


def setup(ctx):
    install(ctx)


# ---------------------------------------------------------------- workload
def plan(tier, seed):
    n = 16 * 25 if tier == "quick" else 16 * 500
    items = [["part", i] for i in range(n)] + [["score", i] for i in range(n // 2)] + [["inverse", i] for i in range(n // 2)]
    items += [["inverse-part", i] for i in range(n // 4)]
    items += [["far", i] for i in range(n // 25)]
    from workloads import corpora
    items += [["fixture", p] for p in corpora.score_files(limit=16 if tier == "quick" else None)]
    return items


def strip_some(rng, part):
    """hostile: some notes lose their voice / staff"""
    import partitura.score as S
    for n in timemaps.objects_of(part, S.GenericNote, exact=False):
        if rng.random() < 0.1:
            n.staff = None
        if rng.random() < 0.05:
            n.voice = None


def zero_based_voice(rng, part):
    """hostile: one voice of the part carries the number 0 (voices counted from 0, as note_array_to_score produces from a
    0-based voice column); the array has to state 0 for it, not the number it invents for notes without voice"""
    import partitura.score as S
    objs = timemaps.objects_of(part, S.GenericNote, exact=False)
    voices = sorted({n.voice for n in objs if isinstance(n.voice, int) and n.voice > 0})
    if not voices:
        return
    v = rng.choice(voices)
    for n in objs:
        if n.voice == v:
            n.voice = 0


def gapped_tie_chain(ctx, rng, part):
    """hostile: a tie chain whose notes are not adjacent on the timeline (a note of a first ending tied into the second
    ending): two or three notes of one pitch in a voice of their own, with stretches between them"""
    import partitura.score as S
    last = int(part.last_point.t) if part.last_point is not None else 0
    if last < 12:
        return
    k = rng.choice([2, 2, 3])
    cuts = sorted(rng.sample(range(0, last), 2 * k))
    prev = None
    for i in range(k):
        n = S.Note("G", rng.choice([3, 4, 5]) if prev is None else prev.octave, id=f"gap{i}", voice=17, staff=1)
        part.add(n, cuts[2 * i], cuts[2 * i + 1])
        if prev is not None:
            prev.tie_next, n.tie_prev = n, prev
        prev = n
    ctx.extra["tie_chains_with_a_gap_between_their_notes"] += 1


def run_item(ctx, item):
    import partitura.score as S
    import partitura.utils.music as M
    from workloads import gen_score
    kind = item[0]
    if kind == "part":
        rng = ctx.rng("part", item[1])
        part, meta = gen_score.make_part(rng, "P1", profile="full")
        if rng.random() < 0.3:
            strip_some(rng, part)
        if rng.random() < 0.2:
            zero_based_voice(rng, part)
        if rng.random() < 0.3:
            gapped_tie_chain(ctx, rng, part)
        single_div = len(part.quarter_durations()) == 1
        for rep in range(3):
            opts = {o: rng.random() < 0.5 for o in OPTS}
            if not single_div:
                opts["include_divs_per_quarter"] = False
            if rng.random() < 0.25:
                ctx.call(part.use_musical_beat)
            ok, arr = ctx.try_call(part.note_array, **opts)
            n_opt = sum(opts.values())
            ctx.case([meta["id"], item[1], sorted(k for k, v in opts.items() if v), rep],
                     (meta["ties"] > 0 or meta["graces"] > 0) and n_opt >= 2, cls="part",
                     sample={"notes": meta["notes"], "ties": meta["ties"], "graces": meta["graces"], "divs": meta["divs"],
                             "ts": meta["ts"], "pickup": meta["pickup"], "options": sorted(k for k, v in opts.items() if v)})
            ctx.state(f"{n_opt}:{meta['ties'] > 0}:{meta['graces'] > 0}:{bool(meta['pickup'])}:{len(meta['divs']) > 1}")
        ropts = {o: rng.random() < 0.5 for o in OPTS[:6]}
        ctx.try_call(part.rest_array, **ropts)
        if rng.random() < 0.5:
            ctx.try_call(part.rest_array, collapse=True)
        ctx.try_call(M.ensure_notearray, part)
    elif kind == "score":
        rng = ctx.rng("score", item[1])
        n_parts = rng.choice([2, 2, 3, 4])
        feats = [f for f in ("chords", "rests", "ties", "graces", "multivoice", "pickup", "ts_changes") if rng.random() < 0.6]
        first, meta0 = gen_score.make_part(rng, "P1", features=feats, divs=rng.choice([1, 2, 3, 4, 5, 6, 8, 12]),
                                           meters=[(4, 4), (3, 4), (2, 2), (6, 8), (2, 4)])
        parts = [first]
        cands = gen_score.skeleton_divs(meta0["skeleton"], [1, 2, 3, 4, 5, 6, 7, 8, 12, 16])
        for i in range(1, n_parts):
            f2 = [f for f in feats if f not in ("pickup", "ts_changes")]
            p, meta = gen_score.make_part(rng, f"P{i + 1}", features=f2, divs=rng.choice(cands), skeleton=meta0["skeleton"])
            parts.append(p)
        divs = [int(p.quarter_durations()[0][1]) for p in parts]
        if rng.random() < 0.2:
            # a part without any note among the others
            q = rng.choice(cands)
            e, _ = gen_score.make_part(rng, "PE", features=[], divs=q, skeleton=meta0["skeleton"])
            for nte in list(e.notes):
                e.remove(nte)
            e.add(S.Rest(id="er", voice=1), 0, e.measures[0].end.t)
            parts.insert(rng.randrange(len(parts) + 1), e)
            if rng.random() < 0.25:
                # none of the parts has a note (a score of tacet parts): the union of empty tables is the empty table
                for p_ in parts:
                    for nte in list(p_.notes):
                        p_.remove(nte)
                ctx.extra["scores_without_any_note"] += 1
        sc = S.Score(parts, id="s")
        unique = rng.random() < 0.7
        opts = {o: rng.random() < 0.4 for o in OPTS[:6]}
        form = rng.choice(["score", "list", "group"])
        if form == "score":
            ctx.try_call(sc.note_array, unique_id_per_part=unique, **opts)
        elif form == "list":
            ctx.try_call(M.note_array_from_part_list, parts, unique_id_per_part=unique, **opts)
        else:
            g = S.PartGroup("brace", "g")
            g.children = parts
            ctx.try_call(g.note_array, unique_id_per_part=unique, **opts)
        lcm = math.lcm(*[int(p.quarter_durations()[0][1]) for p in parts])
        ctx.case(["score", item[1], form, unique, sorted(k for k, v in opts.items() if v)], len(set(divs)) > 1, cls="score",
                 sample={"divisions": divs, "lcm": lcm, "form": form, "unique_id_per_part": unique})
        ctx.state(f"score:{form}:{unique}:{lcm not in divs}:{len(parts)}")
    elif kind == "far":
        # long pieces in fine divisions that do not divide one another: after rescaling to the least common multiple the
        # positions are large numbers (beyond 2**24 divisions)
        rng = ctx.rng("far", item[1])
        import partitura.score as S
        pairs = [(768, 10080), (960, 1001), (480, 10080, 7), (1024, 945)]
        divs = list(rng.choice(pairs))
        rng.shuffle(divs)
        lcm = math.lcm(*divs)
        n_q = rng.choice([40, 250, 400]) if lcm > 50000 else 400
        parts = []
        for pi, q in enumerate(divs):
            p_ = S.Part(f"P{pi + 1}", quarter_duration=q)
            p_.add(S.TimeSignature(4, 4), 0)
            quarters = sorted(set([0, 1] + [rng.randrange(0, n_q) for _ in range(6)] + [n_q - 2, n_q - 1]))
            for k_, qt in enumerate(quarters):
                for pitch_i in range(rng.choice([1, 2, 3])):
                    step = "CDEFGAB"[(k_ + 2 * pitch_i + pi) % 7]
                    p_.add(S.Note(step, 3 + pitch_i, None, id=f"p{pi}n{k_}_{pitch_i}", voice=1, staff=1), qt * q, (qt + 1) * q)
            for m in range((n_q + 3) // 4):
                p_.add(S.Measure(number=m + 1), 4 * m * q, 4 * (m + 1) * q)
            parts.append(p_)
        sc = S.Score(parts, id="far")
        ctx.try_call(sc.note_array, unique_id_per_part=rng.random() < 0.5)
        ctx.case(["far", item[1], divs, n_q], n_q * lcm >= 2 ** 24, cls="score-far-positions",
                 sample={"divisions": divs, "lcm": lcm, "quarters": n_q})
    elif kind == "inverse-part":
        # the inverse direction fed with the table of a real part: both kinds of time columns, with the time-signature
        # columns (any meters) or without them (then beats must be quarters: x/4 meters only)
        rng = ctx.rng("inverse-part", item[1])
        from partitura.musicanalysis.note_array_to_score import note_array_to_score
        from workloads import gen_score
        with_ts = rng.random() < 0.7
        feats = [f for f in ("chords", "rests", "ties", "ts_changes", "multivoice", "pickup") if rng.random() < 0.6]
        part, meta = gen_score.make_part(rng, "P1", features=feats, divs=rng.choice([1, 2, 4, 8, 12, 16]),
                                         meters=None if with_ts else [(4, 4), (3, 4), (2, 4), (5, 4)])
        ok, na = ctx.try_call(part.note_array, include_time_signature=with_ts)
        if not ok or len(na) == 0:
            return
        q = int(part.quarter_durations()[0][1])
        ok, rebuilt = ctx.try_call(note_array_to_score, na, return_part=True)
        crossing = False
        if ok:
            ok2, back = ctx.try_call(rebuilt.note_array)
            if ok2:
                ctx.check(3)
                src = sorted((int(r["onset_div"]), int(r["duration_div"]), int(r["pitch"])) for r in na)
                got = sorted((int(r["onset_div"]), int(r["duration_div"]), int(r["pitch"])) for r in back)
                w = {"with_ts_columns": with_ts, "divisions": q, "time_signatures": meta["ts"], "rows": [list(map(float, (r["onset_beat"], r["duration_beat"], r["onset_div"], r["duration_div"], r["pitch"]))) for r in na[:12]]}
                off = got[0][0] - src[0][0] if got else 0
                if [(g[0] - off, g[1], g[2]) for g in got] != src:
                    ctx.violation("note_array_to_score-part-table-divs-changed", f"{len(src)} rows in, {len(got)} out; first difference "
                                  f"{next(((a, b) for a, b in zip(src, got) if a != b), None)}", w)
                else:
                    # the rebuilt part has the same divisions per quarter, so its quarter columns agree too
                    q2 = [int(x[1]) for x in rebuilt.quarter_durations()]
                    # a row held across a change of the beat unit mixes two beat lengths; the table determines the
                    # divisions as long as such rows are a minority of the rows with a duration
                    changes = [(meta["ts"][i][0], meta["ts"][i - 1][1][1], meta["ts"][i][1][1]) for i in range(1, len(meta["ts"]))]
                    timed = [r for r in na if r["duration_div"] > 0]
                    mixed = [r for r in timed if len({bt for c, a_, b_ in changes if r["onset_div"] < c < r["onset_div"] + r["duration_div"]
                                                      for bt in (a_, b_)} | {0}) > 2
                             or any(r["onset_div"] < c < r["onset_div"] + r["duration_div"] and a_ != b_ for c, a_, b_ in changes)]
                    crossing = len(mixed) > 0
                    w["rows_held_across_a_beat_unit_change"] = len(mixed)
                    if 2 * len(mixed) >= len(timed):
                        ctx.ambiguous()
                    elif q2 != [q]:
                        ctx.violation("note_array_to_score-part-table-quarter-length-changed",
                                      f"part with {q} divisions per quarter rebuilt with {q2} (time signatures {meta['ts']})", w)
        ctx.case(["inv-part", item[1], with_ts], len(meta["ts"]) > 1, cls="inverse-part-table" + ("+ts" if with_ts else "") + ("+held-across-beat-unit-change" if crossing else ""),
                 sample={"with_ts_columns": with_ts, "divisions": q, "time_signatures": meta["ts"][:4], "rows": len(na)})
    elif kind == "inverse":
        rng = ctx.rng("inverse", item[1])
        from partitura.musicanalysis.note_array_to_score import note_array_to_score
        mode = rng.choice(["beat", "div", "both"])
        # beat values must be exact in single precision and on the documented 1/256 grid
        # (beat values are read as rationals with a denominator up to 256: triplets and quintuplets are inside that grid)
        divs = rng.choice([1, 2, 4, 8, 16, 32, 3, 5, 6, 12, 24] if mode != "div" else [1, 2, 4, 8, 12, 16, 24, 480])
        single = rng.random() < 0.12                # a table of one note
        n = 1 if single else rng.randint(1, 25)
        onsets, t = [], 0
        rows = []
        for i in range(n):
            if rng.random() < 0.7:
                t += rng.randint(0, 3 * divs)
            dur = rng.randint(1, 4 * divs)
            for pitch in rng.sample(range(40, 90), 1 if single else rng.choice([1, 1, 2, 3])):
                rows.append((t, dur, pitch))
        rows.sort()
        fields, data = [], []
        if mode in ("beat", "both"):
            fields += [("onset_beat", "f4"), ("duration_beat", "f4")]
        if mode in ("div", "both"):
            fields += [("onset_div", "i4"), ("duration_div", "i4")]
        fields += [("pitch", "i4"), ("voice", "i4"), ("id", "U64")]
        for i, (on, du, pi) in enumerate(rows):
            rec = ()
            if mode in ("beat", "both"):
                rec += (on / divs, du / divs)
            if mode in ("div", "both"):
                rec += (on, du)
            rec += (pi, 1, f"m{i}")
            data.append(rec)
        na = np.array(data, dtype=fields)
        # the columns a caller has: voice and id are optional (the library estimates voices and makes up ids)
        drop = [c_ for c_ in ("voice", "id") if rng.random() < (0.6 if single else 0.25)]
        if drop:
            na = na[[nm for nm in na.dtype.names if nm not in drop]].copy()
            ctx.extra["inverse_arrays_without_" + "_and_".join(drop)] += 1
        kwargs = {}
        if mode == "div":
            kwargs["divs"] = divs
        ok, part = ctx.try_call(note_array_to_score, na, return_part=True, **kwargs)
        if ok:
            ok2, back = ctx.try_call(part.note_array)
            if ok2:
                got = sorted((round(float(r["onset_quarter"]) * divs), round(float(r["duration_quarter"]) * divs), int(r["pitch"])) for r in back)
                off = min(g[0] for g in got) - min(r[0] for r in rows) if mode != "both" else 0
                got = [(g[0] - off, g[1], g[2]) for g in got]
                ctx.check()
                if got != sorted(rows):
                    miss = [r for r in sorted(rows) if r not in got][:3]
                    ctx.violation(f"note_array_to_score-roundtrip-{mode}", f"{len(rows)} notes in, {len(got)} out; e.g. missing {miss}",
                                  {"mode": mode, "divs": divs, "rows": rows[:20], "got": got[:20]})
        ctx.case(["inv", item[1], mode], len(rows) >= 5, cls=f"inverse-{mode}", sample={"mode": mode, "divs": divs, "rows": rows[:6]})
    else:
        import partitura
        sc = ctx.call(partitura.load_score, item[1])
        for part in sc.parts:
            single_div = len(part.quarter_durations()) == 1
            ctx.try_call(part.note_array, include_pitch_spelling=True, include_key_signature=True, include_time_signature=True,
                         include_metrical_position=True, include_grace_notes=True, include_staff=True,
                         include_divs_per_quarter=single_div)
            ctx.try_call(part.rest_array, include_time_signature=True, include_staff=True)
            ctx.case(["fixture", item[1], part.id], True, cls="fixture")
        if all(len(p.quarter_durations()) == 1 for p in sc.parts):
            ctx.try_call(sc.note_array, include_staff=True)
