"""Reference model for C08 (alignment -> match file -> alignment round trip).

Written from the property statement and the description of the match format
(version 1.0.0 line grammar); nothing of partitura's reader or writer is used.
Everything about musical time is exact (`fractions.Fraction`).

  abstract_part(part)        facts of a single-divisions Part the statement talks about, with
                             positions in *beats* (beat 0 = first barline after a pickup)
  expected_performance(...)  ticks (nearest, exact-half flagged), pedal events, clock
  read_text(text)            independent regex reader of the written file
  kept_lines(raw_lines)      the documented outcome of loading: textual duplicates once,
                             conflicting deletions / insertions dropped, matches kept
"""
import collections
import math
import re
from fractions import Fraction

from . import pitch as P
from . import matchline as ML

SUPPORTED_ARTICULATIONS = ("staccato", "accent")


# --------------------------------------------------------------------------- score side
def _objects(part, cls):
    out = []
    for tp in part._points:
        for c, objs in tp.starting_objects.items():
            if objs and issubclass(c, cls):
                out.extend(objs)
    return out


class BeatModel:
    """Exact beat position of a time t (in divisions) for one divisions value q.

    A beat is the unit of the time signature in force (denominator); the first
    measure is a pickup when it is shorter than a bar of its signature, and then
    beat 0 lies at its end."""

    def __init__(self, q, ts, measures, first):
        self.q = Fraction(q)
        self.ts = sorted(ts)                      # (t, beats, beat_type)
        self.first = first
        self.origin = Fraction(0)
        self.pickup = False
        first_m = [m for m in measures if m[0] == first]
        if len(first_m) == 1 and first_m[0][1] is not None and self.ts:
            b, bt = self.sig_at(first)
            length_q = Fraction(first_m[0][1] - first_m[0][0]) / self.q
            if length_q < Fraction(4 * b, bt):
                self.origin = self._raw(first_m[0][1])
                self.pickup = True

    def sig_at(self, t):
        cur = None
        for s, b, bt in self.ts:
            if s <= t or cur is None:
                cur = (b, bt)
        return cur if cur is not None else (4, 4)

    def _raw(self, t):
        acc = Fraction(0)
        t = Fraction(t)
        pts = [s for s, _, _ in self.ts if self.first < s < t]
        lo = Fraction(self.first)
        for hi in pts + [t]:
            b, bt = self.sig_at(lo)
            acc += (Fraction(hi) - lo) / self.q * Fraction(bt, 4)
            lo = Fraction(hi)
        return acc

    def beat(self, t):
        return self._raw(t) - self.origin


def mode_norm(mode):
    if mode in (None, "none", "major", 1):
        return "major"
    if mode in ("minor", -1):
        return "minor"
    return str(mode)


def drop_redundant(seq):
    """(position, value) list without entries that restate the value in force."""
    out = []
    for pos, val in sorted(seq, key=lambda x: x[0]):
        if out and out[-1][1] == val:
            continue
        if out and out[-1][0] == pos:
            out[-1] = (pos, val)
            if len(out) > 1 and out[-2][1] == val:
                out.pop()
            continue
        out.append((pos, val))
    return out


def abstract_part(part):
    """-> dict; raises ValueError if the part is outside the domain (several divisions values)."""
    import partitura.score as S
    qd = [(int(t), int(q)) for t, q in part.quarter_durations()]
    if len({q for _, q in qd}) != 1:
        raise ValueError("several divisions values")
    q = qd[0][1]
    pts = part._points
    first = int(pts[0].t)
    off_grid = [float(tp.t) for tp in pts if float(tp.t) != int(tp.t)]
    ts = [(int(x.start.t), int(x.beats), int(x.beat_type)) for x in _objects(part, S.TimeSignature)]
    ks = [(int(x.start.t), int(x.fifths), mode_norm(x.mode)) for x in _objects(part, S.KeySignature)]
    measures = sorted((int(m.start.t), int(m.end.t) if m.end is not None else None) for m in _objects(part, S.Measure))
    bm = BeatModel(q, ts, measures, first)
    notes = {}
    dup_ids = set()
    for n in _objects(part, S.Note):
        if n.tie_prev is not None:
            continue
        dur = 0
        x = n
        seen = 0
        while x is not None and seen < 10000:
            dur += int(x.end.t) - int(x.start.t)
            x = x.tie_next
            seen += 1
        on = int(n.start.t)
        rec = {
            "id": n.id, "step": str(n.step).upper(), "alter": int(n.alter or 0), "octave": int(n.octave),
            "voice": n.voice, "staff": n.staff, "t": on, "dur": dur,
            "onset_beat": bm.beat(on), "offset_beat": bm.beat(on + dur),
            "onset_q": Fraction(on - first, q), "dur_q": Fraction(dur, q),
            "grace": isinstance(n, S.GraceNote) or dur == 0,
            "articulations": sorted(a for a in (getattr(n, "articulations", None) or ()) if a in SUPPORTED_ARTICULATIONS),
            "all_articulations": sorted(getattr(n, "articulations", None) or ()),
            "tied": n.tie_next is not None,
        }
        if n.id in notes:
            dup_ids.add(n.id)
        notes[n.id] = rec

    def measure_of(t):
        best = None
        for i, (s, e) in enumerate(measures):
            if s <= t and (e is None or t < e or (t == e and i == len(measures) - 1)):
                best = i
        return best

    mbeats = [(bm.beat(s), bm.beat(e) if e is not None else None) for s, e in measures]
    ts_eff = drop_redundant([(s, (b, bt)) for s, b, bt in ts])
    ks_eff = drop_redundant([(s, (f, m)) for s, f, m in ks])

    def bar_start_beat(t):
        i = measure_of(t)
        return bm.beat(measures[i][0]) if i is not None else bm.beat(t)

    return {
        "q": q, "first": first, "last": int(pts[-1].t), "notes": notes, "dup_ids": sorted(dup_ids), "off_grid": off_grid,
        "measures": measures, "measure_beats": mbeats, "measure_of": measure_of, "bm": bm, "pickup": bm.pickup,
        "ts": [(bar_start_beat(s), v, s) for s, v in ts_eff],
        "ks": [(bar_start_beat(s), v, s) for s, v in ks_eff],
        "ts_raw": ts, "ks_raw": ks,
    }


def describe_part(part):
    """Small JSON description from which `build_part` rebuilds the part through the public API."""
    import partitura.score as S
    q = int(part.quarter_durations()[0][1])
    d = {"divs": q, "ts": [], "ks": [], "measures": [], "notes": [], "rests": 0}
    for x in _objects(part, S.TimeSignature):
        d["ts"].append([int(x.start.t), int(x.beats), int(x.beat_type)])
    for x in _objects(part, S.KeySignature):
        d["ks"].append([int(x.start.t), int(x.fifths), x.mode])
    for m in _objects(part, S.Measure):
        d["measures"].append([int(m.start.t), int(m.end.t), m.number])
    for n in _objects(part, S.Note):
        d["notes"].append([n.id, n.step, n.alter, n.octave, int(n.start.t), int(n.end.t), n.voice, n.staff,
                           n.tie_next.id if n.tie_next is not None else None,
                           "grace" if isinstance(n, S.GraceNote) else None, list(n.articulations or [])])
    d["rests"] = len(_objects(part, S.Rest))
    for k in ("ts", "ks", "measures"):
        d[k].sort()
    d["notes"].sort(key=lambda r: (r[4], str(r[0])))
    return d


def build_part(d):
    import partitura.score as S
    p = S.Part("P1", "rebuilt", quarter_duration=d["divs"])
    for t, b, bt in d["ts"]:
        p.add(S.TimeSignature(b, bt), t)
    for t, f, m in d["ks"]:
        p.add(S.KeySignature(f, m), t)
    for s, e, num in d["measures"]:
        p.add(S.Measure(number=num, name=str(num)), s, e)
    byid = {}
    for nid, step, alter, octave, s, e, voice, staff, tie, grace, arts in d["notes"]:
        if grace:
            n = S.GraceNote("acciaccatura", step, octave, alter, id=nid, voice=voice, staff=staff)
        else:
            n = S.Note(step, octave, alter, id=nid, voice=voice, staff=staff)
        if arts:
            n.articulations = list(arts)
        p.add(n, s, e)
        byid[nid] = n
    for r in d["notes"]:
        if r[8] is not None:
            byid[r[0]].tie_next = byid[r[8]]
            byid[r[8]].tie_prev = byid[r[0]]
    return p


# --------------------------------------------------------------------------- performance side
def tick_of(seconds, mpq, ppq):
    """-> (nearest tick, is_exact_half) with exact rationals from the float's exact value."""
    x = Fraction(seconds) * 10**6 * ppq / Fraction(mpq)
    lo = math.floor(x)
    frac = x - lo
    if abs(frac - Fraction(1, 2)) < Fraction(1, 10**6):
        return lo, True
    return (lo if frac < Fraction(1, 2) else lo + 1), False


def seconds_of(tick, mpq, ppq):
    return Fraction(tick) * mpq / (10**6 * ppq)


def prefixed(pid):
    s = str(pid)
    return s if s.startswith("n") else "n" + s


# --------------------------------------------------------------------------- independent text reader (v1.0.0)
_NOTE = r"note\((?P<pid>[^,()]*),(?P<pitch>-?\d+),(?P<on>-?\d+),(?P<off>-?\d+),(?P<vel>-?\d+),(?P<ch>-?\d+),(?P<tr>-?\d+)\)\."
_SNOTE = (r"snote\((?P<sid>[^,()]*),\[(?P<step>[A-Ga-gRr]),(?P<mod>[^\]]*)\],(?P<oct>-?\d+),(?P<bar>-?\d+):(?P<beat>-?\d+),"
          r"(?P<offs>[0-9/+]+),(?P<dur>[0-9/+]+),(?P<onb>-?[0-9.eE+-]+),(?P<offb>-?[0-9.eE+-]+),\[(?P<attrs>[^\]]*)\]\)")
RE_MATCH = re.compile(r"^" + _SNOTE + r"-" + _NOTE + r"$")
RE_DELETION = re.compile(r"^" + _SNOTE + r"-deletion\.$")
RE_INSERTION = re.compile(r"^insertion-" + _NOTE + r"$")
RE_ORNAMENT = re.compile(r"^ornament\((?P<sid>[^,()]*),\[(?P<otype>[^\]]*)\]\)-" + _NOTE + r"$")
RE_PEDAL = re.compile(r"^(?P<kind>sustain|soft)\((?P<t>-?\d+),(?P<v>-?\d+)\)\.$")
RE_INFO = re.compile(r"^info\((?P<attr>[^,]*),(?P<val>.*)\)\.$")
RE_SCOREPROP = re.compile(r"^scoreprop\((?P<attr>[^,]*),(?P<val>[^,]*),(?P<bar>-?\d+):(?P<beat>-?\d+),(?P<offs>[0-9/+]+),(?P<tb>-?[0-9.eE+-]+)\)\.$")
MODIFIER = {"n": 0, "#": 1, "b": -1, "x": 2, "##": 2, "bb": -2}


def _frac(text):
    comps = ML.parse_duration(text)
    if comps is None:
        return None
    return ML.duration_value(comps)


def _snote_fields(m):
    attrs = [a.strip() for a in m.group("attrs").split(",") if a.strip() != ""]
    return {
        "sid": m.group("sid"), "step": m.group("step").upper(), "alter": MODIFIER.get(m.group("mod").strip()),
        "octave": int(m.group("oct")), "bar": int(m.group("bar")), "beat": int(m.group("beat")),
        "offs": _frac(m.group("offs")), "dur": _frac(m.group("dur")),
        "onb": float(m.group("onb")), "offb": float(m.group("offb")), "attrs": attrs,
    }


def _note_fields(m):
    return {"pid": m.group("pid"), "pitch": int(m.group("pitch")), "on": int(m.group("on")), "off": int(m.group("off")),
            "vel": int(m.group("vel")), "ch": int(m.group("ch")), "tr": int(m.group("tr"))}


def read_text(text):
    """-> dict(lines=[(kind, fields)], unknown=[raw])  kinds: info scoreprop match deletion insertion ornament sustain soft"""
    out, unknown = [], []
    for raw in text.splitlines():
        if raw == "":
            continue
        m = RE_MATCH.match(raw)
        if m:
            f = _snote_fields(m)
            f.update(_note_fields(m))
            out.append(("match", f))
            continue
        m = RE_DELETION.match(raw)
        if m:
            out.append(("deletion", _snote_fields(m)))
            continue
        m = RE_INSERTION.match(raw)
        if m:
            out.append(("insertion", _note_fields(m)))
            continue
        m = RE_ORNAMENT.match(raw)
        if m:
            f = _note_fields(m)
            f["sid"] = m.group("sid")
            f["otype"] = [a.strip() for a in m.group("otype").split(",") if a.strip() != ""]
            out.append(("ornament", f))
            continue
        m = RE_PEDAL.match(raw)
        if m:
            out.append((m.group("kind"), {"t": int(m.group("t")), "v": int(m.group("v"))}))
            continue
        m = RE_SCOREPROP.match(raw)
        if m:
            out.append(("scoreprop", {"attr": m.group("attr"), "val": m.group("val"), "bar": int(m.group("bar")),
                                      "beat": int(m.group("beat")), "offs": _frac(m.group("offs")), "tb": float(m.group("tb"))}))
            continue
        m = RE_INFO.match(raw)
        if m:
            out.append(("info", {"attr": m.group("attr"), "val": m.group("val")}))
            continue
        unknown.append(raw)
    return {"lines": out, "unknown": unknown}


def parse_key_value(text):
    ks = ML.parse_key(text)
    if not ks or len(ks) != 1:
        return None
    return ks[0][0]


# --------------------------------------------------------------------------- line conservation on load (all versions)
_ANY_SNOTE = re.compile(r"^snote\((?P<sid>[^,()]*),")
_ANY_NOTE = re.compile(r"-note\((?P<pid>[^,()]*),")
_ANCHORED = re.compile(r"^(?P<kind>ornament|trill)\((?P<sid>[^,()]*)[,)]")
_V0_PERF_ONLY = re.compile(r"^(?P<kind>insertion|hammer_bounce|trailing_played_note)-note\(")


def classify_line(raw):
    """-> (kind, sid, pid) for note lines, ('pedal', kind, text) for pedal lines, None otherwise.
    kind in match deletion insertion ornament"""
    ms = _ANY_SNOTE.match(raw)
    mn = _ANY_NOTE.search(raw)
    if ms:
        sid = ms.group("sid")
        if mn and raw.endswith(")."):
            return ("match", sid, mn.group("pid"))
        # the two historical variants are deletions of a special kind
        for tail, kind in (("-deletion.", "deletion"), ("-trailing_score_note.", "deletion"),
                           ("-no_played_note.", "deletion")):
            if raw.endswith(tail):
                return (kind, sid, None)
        return None
    ma = _ANCHORED.match(raw)
    if ma and mn:
        return ("ornament", ma.group("sid"), mn.group("pid"))
    mp = _V0_PERF_ONLY.match(raw)
    if mp and mn:
        return ("insertion", None, mn.group("pid"))      # hammer bounces / trailing played notes are insertions of a special kind
    if RE_PEDAL.match(raw):
        return ("pedal", raw.split("(")[0], raw)
    return None


def kept_lines(raw_lines):
    """Documented outcome of loading: empty lines ignored, textually identical lines once, then every
    deletion whose score id occurs on more than one score-note line is dropped, every insertion whose
    performance id occurs on more than one performed-note line is dropped, matches are kept.
    -> (Counter of kept (kind, sid, pid), Counter of dropped, info) over the lines `classify_line` knows."""
    seen = set()
    uniq = []
    n_textual = 0
    for raw in raw_lines:
        if raw == "":
            continue
        if raw in seen:
            n_textual += 1
            continue
        seen.add(raw)
        uniq.append(raw)
    cl = [c for c in (classify_line(r) for r in uniq) if c is not None and c[0] != "pedal"]
    sid_count = collections.Counter(c[1] for c in cl if c[1] is not None and c[0] != "ornament")
    pid_count = collections.Counter(c[2] for c in cl if c[2] is not None)
    kept, dropped = collections.Counter(), collections.Counter()
    for c in cl:
        if c[0] == "deletion" and sid_count[c[1]] > 1:
            dropped[c] += 1
        elif c[0] == "insertion" and pid_count[c[2]] > 1:
            dropped[c] += 1
        else:
            kept[c] += 1
    # pedal lines are events of a stream: an identical line is another event (a pedal may report a value twice in a tick)
    pedals = collections.Counter(c[2] for c in (classify_line(r) for r in raw_lines if r != "") if c is not None and c[0] == "pedal")
    return kept, dropped, {"textual_duplicates": n_textual, "pedals": pedals,
                           "dup_sids": sorted(s for s, k in sid_count.items() if k > 1),
                           "dup_pids": sorted(p for p, k in pid_count.items() if k > 1)}


# --------------------------------------------------------------------------- reference writer (v1.0.0)
_MOD_TEXT = {0: "n", 1: "#", -1: "b", 2: "x", -2: "bb"}


def _frac_text(x):
    x = Fraction(x)
    return str(x.numerator) if x.denominator == 1 or x == 0 else f"{x.numerator}/{x.denominator}"


def write_text(A, alignment, pnotes, controls, ppq, mpq, right_align_pickup=False):
    """The match file (format 1.0.0) of an alignment, written from the format description:
    beats are units of the time signature's denominator counted from 1 inside the bar, the offset from
    the beat and the duration are fractions of a whole note, positions in beats carry four decimals.
    `A` = abstract_part(part); `pnotes` = {id: {pitch, velocity, on, off}} (seconds); lines are ordered by
    score time (performed-only lines by their onset between them is not required by the format: appended)."""
    bm = A["bm"]
    q = A["q"]
    base = 0 if A["pickup"] else 1
    out = ["info(matchFileVersion,1.0.0).", "info(piece,-).", "info(scoreFileName,-).", "info(midiFileName,-).",
           "info(composer,-).", "info(performer,-).", f"info(midiClockUnits,{int(ppq)}).", f"info(midiClockRate,{int(mpq)})."]

    def place(t):
        """(bar number, beat from 1, offset in whole notes) of position t (divisions)."""
        mi = A["measure_of"](t)
        ms, me = A["measures"][mi]
        b, bt = bm.sig_at(ms)
        per_beat = Fraction(4 * q, bt)
        rel = Fraction(t - ms)
        if right_align_pickup and mi == 0 and A["pickup"]:
            rel += Fraction(4 * q * b, bt) - (me - ms)       # the pickup counted from the start of a virtual full bar
        k = rel // per_beat
        return base + mi, int(k) + 1, (rel - k * per_beat) / (4 * q)

    for key, attr in (("ks_raw", "keySignature"), ("ts_raw", "timeSignature")):
        for rec in sorted(A[key]):
            t = rec[0]
            bar, beat, offs = place(t)
            val = P.key_name(rec[1], rec[2]) if attr == "keySignature" else f"{rec[1]}/{rec[2]}"
            out.append(f"scoreprop({attr},{val},{bar}:{beat},{_frac_text(offs)},{float(bm.beat(t)):.4f}).")

    def snote(sid):
        e = A["notes"][sid]
        bar, beat, offs = place(e["t"])
        attrs = []
        if e["voice"] is not None:
            attrs.append(f"v{e['voice']}")
        if e["staff"] is not None:
            attrs.append(f"staff{e['staff']}")
        attrs += e["all_articulations"]
        if e["grace"]:
            attrs.append("grace")
        return (f"snote({sid},[{e['step']},{_MOD_TEXT[e['alter']]}],{e['octave']},{bar}:{beat},{_frac_text(offs)},"
                f"{_frac_text(e['dur_q'] / 4)},{float(e['onset_beat']):.4f},{float(e['offset_beat']):.4f},[{','.join(attrs)}])")

    def note(pid):
        e = pnotes[pid]
        on, _ = tick_of(e["on"], mpq, ppq)
        off, _ = tick_of(e["off"], mpq, ppq)
        return f"note({prefixed(pid)},{e['pitch']},{on},{off},{e['velocity']},{e.get('channel', 0)},{e.get('track', 0)})."

    lines = []
    for a in alignment:
        lab = a["label"]
        if lab == "match":
            lines.append((A["notes"][a["score_id"]]["onset_beat"], snote(a["score_id"]) + "-" + note(a["performance_id"])))
        elif lab == "deletion":
            lines.append((A["notes"][a["score_id"]]["onset_beat"], snote(a["score_id"]) + "-deletion."))
        elif lab == "insertion":
            lines.append((None, "insertion-" + note(a["performance_id"])))
        elif lab == "ornament":
            lines.append((A["notes"][a["score_id"]]["onset_beat"], f"ornament({a['score_id']},[{a['type']}])-" + note(a["performance_id"])))
    out += [l for k, l in sorted((x for x in lines if x[0] is not None), key=lambda x: x[0])]
    out += [l for k, l in lines if k is None]
    peds = []
    for c in controls:
        if c["number"] in (64, 67):
            tick, _ = tick_of(c["time"], mpq, ppq)
            peds.append((tick, f"{'sustain' if c['number'] == 64 else 'soft'}({tick},{int(c['value'])})."))
    out += [l for _, l in sorted(peds, key=lambda x: x[0])]
    return "\n".join(out) + "\n"
