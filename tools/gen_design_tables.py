#!/usr/bin/env python3
"""Regenerates the generated part of DESIGN.md (between the AUTOGEN markers): findings and seeded-change tables."""
import glob, json, os
HERE = os.path.dirname(os.path.dirname(os.path.abspath(__file__)))
kf = json.load(open(os.path.join(HERE, "known_findings.json")))["findings"]
out = []
out.append("### 12.1 Genuine defects found by the monitors (from known_findings.json)\n")
out.append("Each entry was produced by a monitor as a VIOLATION with a replay file, replayed against the real code, and then either\n"
           "repaired in /repo by one unguarded `fix:` commit (status fixed; the key is kept as a record and suppresses nothing) or kept as\n"
           "an open known finding (the check prints `KNOWN-FINDING:` for it and still fails on any other key).\n")
out.append("| prop | status | commit | mechanism key | what failed |")
out.append("|------|--------|--------|---------------|-------------|")
for e in sorted(kf, key=lambda e: (e["property"], e["status"] != "open", e["key"])):
    out.append(f"| {e['property']} | {e['status']} | {e.get('commit', '')} | `{e['key']}` | {e['what'].replace('|', '/')} |")
n_fixed = sum(1 for e in kf if e["status"] == "fixed")
n_open = sum(1 for e in kf if e["status"] == "open")
out.append(f"\n{n_fixed} fixed records, {n_open} open findings.\n")
out.append("### 12.2 Seeded property-breaking changes (seeded/<name>/) and the checks that catch them\n")
out.append("Written by independent sub-agents that saw only the property text and their own worktree; each was confirmed here "
           "(applies, 228/228 baseline tests still pass, demonstration fails with / passes without) before being kept.\n")
out.append("| seed | property | needs to manifest | caught by (quick tier) | caught before strengthening |")
out.append("|------|----------|-------------------|------------------------|-----------------------------|")
for d in sorted(glob.glob(os.path.join(HERE, "seeded", "*", "meta.json"))):
    m = json.load(open(d))
    name = os.path.basename(os.path.dirname(d))
    keys = ", ".join(f"`{k}`" for k in m["caught_by"]["violation_keys"][:3])
    out.append(f"| {name} | {m['property']} | {m['needs_to_manifest']} | {keys} | {'yes' if m['caught_before_strengthening'] else 'no — ' + m.get('strengthening', 'workload widened, see 12.3')} |")
text = "\n".join(out) + "\n"
p = os.path.join(HERE, "DESIGN.md")
s = open(p).read()
a, b = "<!-- AUTOGEN:BEGIN -->", "<!-- AUTOGEN:END -->"
if a in s:
    s = s[:s.index(a) + len(a)] + "\n" + text + s[s.index(b):]
else:
    s += f"\n{a}\n{text}{b}\n"
open(p, "w").write(s)
print("DESIGN.md tables regenerated:", n_fixed, "fixed,", n_open, "open,", len(glob.glob(os.path.join(HERE, 'seeded', '*', 'meta.json'))), "seeds")
