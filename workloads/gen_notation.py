"""Seeded generator of abstract scores and rendering options for C19.

gen(rng, fmt, scale) -> (A, options)     fmt in {"mei", "kern"}

Stays inside the supported subset named by the property's quantifier:
MEI   staffDef/scoreDef meter, key, clef as attributes or children; layers with notes, chords, rests, measure
      rests, beams, tuplets, spaces, <tie> elements, repeats and endings, with/without ppq and dur.ppq
kern  1-4 spines, chords, dotted and tuplet (integer and rational) reciprocal values, [ _ ] ties, barlines,
      *clef *M *k[] *staff interpretations, spine splits
Every layer of a measure fills the same length, so the encoded barlines are unambiguous.
"""
from fractions import Fraction as F

from vmon.refmodels import notation as N
from vmon.refmodels import pitch as P

METERS = [(4, 4), (3, 4), (2, 4), (6, 8), (9, 8), (5, 8), (3, 8), (2, 2), (3, 2), (12, 8), (7, 8), (5, 4), (4, 2)]
CLEFS = [("G", 2), ("F", 4), ("C", 3), ("C", 4), ("G", 2), ("F", 4)]
TUPLETS = [(3, 2), (3, 2), (5, 4), (6, 4), (7, 4), (2, 3), (7, 8), (9, 8)]
STRAIGHT = [(t, d) for t in ("breve", "whole", "half", "quarter", "eighth", "16th", "32nd", "64th") for d in (0, 1, 2)]


def _pitch(rng):
    step = rng.choice("CDEFGAB")
    r = rng.random()
    alter = None if r < 0.45 else 0 if r < 0.55 else rng.choice([1, -1]) if r < 0.9 else rng.choice([2, -2])
    return [step, alter, rng.randint(1, 7), False]


def _fill(rng, length, unit, profile):
    """Events (without pitches) whose values sum to `length` (a multiple of `unit`)."""
    out = []
    rem = F(length)
    while rem > 0:
        if rng.random() < profile["tuplet"]:
            a, n = rng.choice(profile["ratios"])
            base = rng.choice(["half", "quarter", "eighth", "16th", "32nd"])
            total = P.TYPES[base] * n
            if total <= rem and (rem - total) % unit == 0:
                group = [{"t": base, "d": 0} for _ in range(a)]
                # variety inside the group: merge two members into the next longer value, or a dotted pair
                types = list(P.TYPES)
                if a >= 3 and rng.random() < 0.35:
                    i = rng.randrange(a - 1)
                    longer = types[types.index(base) - 1]
                    group[i:i + 2] = [{"t": longer, "d": 0}]
                elif a >= 2 and rng.random() < 0.3 and P.TYPES[base] >= F(1, 8):
                    i = rng.randrange(len(group) - 1)
                    shorter = types[types.index(base) + 1]
                    group[i:i + 2] = [{"t": base, "d": 1}, {"t": shorter, "d": 0}]
                    if rng.random() < 0.5:
                        group[i:i + 2] = group[i:i + 2][::-1]
                for g in group:
                    g["tu"] = [a, n]
                group[0]["ts"] = True
                group[-1]["te"] = True
                out.extend(group)
                rem -= total
                continue
        cands = []
        for t, d in STRAIGHT:
            if d > profile["maxdots"]:
                continue
            v = P.TYPES[t] * P.dots_factor(d)
            if v <= rem and (rem - v) % unit == 0:
                cands.append((t, d, v))
        # prefer longer values a little so that measures are not all dust
        cands.sort(key=lambda c: -c[2])
        k = min(len(cands) - 1, int(abs(rng.gauss(0, 1.0)) * len(cands) / 2.5))
        t, d, v = cands[k] if rng.random() < 0.6 else rng.choice(cands)
        out.append({"t": t, "d": d})
        rem -= v
    return out


def _measure_rest_value(length):
    for t, d in STRAIGHT:
        if P.TYPES[t] * P.dots_factor(d) == length:
            return t, d
    return None


MAX_MIN_DIVISIONS = 5040


def gen(rng, fmt, scale=1):
    """Abstract score + options; documents whose *smallest* exact divisions exceed 5040 per quarter are redrawn
    (they mix more unrelated tuplet ratios and dots than any real piece)."""
    while True:
        A, o = _gen(rng, fmt, scale)
        if o["min_divisions"] <= MAX_MIN_DIVISIONS:
            return A, o


def _gen(rng, fmt, scale=1):
    profile = {"tuplet": rng.choice([0.0, 0.15, 0.3, 0.5]), "maxdots": rng.choice([0, 1, 1, 2]),
               "chord": rng.choice([0.0, 0.15, 0.35]), "rest": rng.choice([0.05, 0.15, 0.3]),
               "grace": rng.choice([0.0, 0.0, 0.08, 0.15]), "tie": rng.choice([0.0, 0.2, 0.4]),
               "mrest": rng.choice([0.0, 0.1, 0.3, 0.7]),
               "ratios": rng.sample(TUPLETS, rng.choice([1, 1, 2, 3]))}
    n_staves = rng.choice([1, 1, 2, 2, 3, 4] if fmt == "kern" else [1, 1, 2, 2, 3])
    if scale == 0:
        n_staves = rng.choice([1, 1, 2])
    numbers = list(range(1, n_staves + 1))
    staves = [{"n": n, "clef": list(rng.choice(CLEFS))} for n in numbers]
    meter = rng.choice(METERS if scale else METERS[:4])
    key = [rng.randint(-7, 7), rng.choice(["major", "minor", None])]
    A = {"meter": list(meter), "key": key, "staves": staves, "measures": []}
    n_measures = rng.randint(1, 2 + 2 * scale)
    unit = rng.choice([F(1, 4), F(1, 8), F(1, 8), F(1, 16)] if scale else [F(1, 2), F(1, 4), F(1, 4), F(1, 8)])
    pickup = rng.random() < 0.25 and n_measures > 1
    second = {n: rng.random() < 0.45 for n in numbers}       # staff may carry a second layer
    eid = [0]

    def new_id():
        eid[0] += 1
        return f"e{eid[0]}"

    cur = meter
    name = 0
    ending_plan = {}
    if fmt == "mei" and n_measures >= 4 and rng.random() < 0.35:
        k = rng.randint(1, n_measures - 3)
        ending_plan = {k: 1, k + 1: 2}
    for mi in range(n_measures):
        M = {"name": None, "meter": None, "key": None, "clef": None, "left": None, "right": None, "ending": None,
             "staves": {}}
        if mi > 0 and not (pickup and mi == 1):
            if rng.random() < 0.2:
                cur = rng.choice([m for m in METERS if m != cur])
                M["meter"] = list(cur)
            if rng.random() < 0.15:
                M["key"] = [rng.randint(-7, 7), rng.choice(["major", "minor", None])]
            if rng.random() < 0.1:
                sn = rng.choice(numbers)
                M["clef"] = {str(sn): list(rng.choice(CLEFS))}
        nominal = F(4 * cur[0], cur[1])
        length = nominal
        if pickup and mi == 0:
            k = rng.randint(1, max(1, int(nominal / unit) - 1))
            length = k * unit
            M["pickup"] = True
            M["name"] = "0" if fmt == "mei" else None
        else:
            name += 1
            M["name"] = str(name)
        if fmt == "mei":
            if rng.random() < 0.1:
                M["right"] = rng.choice(["end", "dbl"])
            M["ending"] = ending_plan.get(mi)
        for sn in numbers:
            layers = []
            nl = 2 if (second[sn] and rng.random() < 0.6) else 1
            for li in range(nl):
                vn = li + 1
                evs = None
                if not M.get("pickup") and rng.random() < profile["mrest"] * (1.0 if li == 0 else 0.3):
                    if fmt == "mei":
                        evs = [{"k": "m", "t": "whole", "d": 0}]
                    else:
                        tv = _measure_rest_value(length)
                        if tv:
                            evs = [{"k": "r", "t": tv[0], "d": tv[1]}]
                if evs is None:
                    evs = _fill(rng, length, unit, profile)
                    for ev in evs:
                        r = rng.random()
                        if r < profile["rest"]:
                            ev["k"] = "s" if (fmt == "mei" and li > 0 and rng.random() < 0.6) else "r"
                        elif r < profile["rest"] + profile["chord"]:
                            ev["k"] = "c"
                            ev["p"] = []
                            while len(ev["p"]) < rng.choice([2, 2, 3, 4]):
                                p = _pitch(rng)
                                if all((q[0], q[1] or 0, q[2]) != (p[0], p[1] or 0, p[2]) for q in ev["p"]):
                                    ev["p"].append(p)
                        else:
                            ev["k"] = "n"
                            ev["p"] = [_pitch(rng)]
                    # grace notes before some notes
                    with_graces = []
                    for ev in evs:
                        if ev["k"] in ("n", "c") and not ev.get("tu") and rng.random() < profile["grace"]:
                            for _ in range(rng.choice([1, 1, 2])):
                                with_graces.append({"k": "g", "t": rng.choice(["eighth", "16th"]), "d": 0,
                                                    "p": [_pitch(rng)], "gt": rng.choice(["unacc", "acc"])})
                        with_graces.append(ev)
                    evs = with_graces
                for ev in evs:
                    ev.setdefault("d", 0)
                    ev.setdefault("tu", None)
                    ev["id"] = new_id()
                layers.append({"n": vn, "ev": evs})
            M["staves"][str(sn)] = layers
        A["measures"].append(M)
    if fmt == "mei":
        _add_repeats(rng, A, ending_plan)
    _add_ties(rng, A, profile["tie"])
    if fmt == "mei" and n_staves >= 2 and profile["tie"] == 0.0 and rng.random() < 0.5:
        # cross-staff writing: @staff on single notes and on some notes of a chord (the others stay on the layer's staff);
        # "xs" lists [index of the pitch in the event, staff number]
        for M in A["measures"]:
            for sn in numbers:
                for layer in M["staves"][str(sn)]:
                    for ev in layer["ev"]:
                        if ev["k"] in ("n", "c") and rng.random() < 0.25:
                            others = [x for x in numbers if x != sn]
                            idxs = list(range(len(ev["p"])))
                            rng.shuffle(idxs)
                            take = idxs[:rng.randint(1, max(1, len(idxs) - 1))] if ev["k"] == "c" else [0]
                            ev["xs"] = sorted([i, rng.choice(others)] for i in take)
        A["cross_staff"] = True
    if fmt == "mei" and rng.random() < 0.2:
        # a first layer that stops before the end of its bar (a divided voice that exists only at the start of the bar, written
        # without padding): the bar is as long as its longest layer
        cands = [(mi, str(st["n"])) for mi, M in enumerate(A["measures"]) for st in A["staves"]
                 if len(M["staves"][str(st["n"])]) >= 2 and len(M["staves"][str(st["n"])][0]["ev"]) >= 2
                 and M["staves"][str(st["n"])][0]["ev"][-1]["k"] in ("r", "s") and not M["staves"][str(st["n"])][0]["ev"][-1].get("tu")]
        if cands:
            mi, sn = rng.choice(cands)
            A["measures"][mi]["staves"][sn][0]["ev"].pop()
            A["short_first_layer"] = [mi, sn]
    return A, _options(rng, fmt, A)


def _add_repeats(rng, A, ending_plan):
    """Well-formed repeat structures only: disjoint regions start..end (the start sign of a region that begins the
    piece may be omitted); a first ending closes with a repeat sign."""
    n = len(A["measures"])
    first = 1 if A["measures"][0].get("pickup") else 0
    if ending_plan:
        k = min(ending_plan)
        a = rng.randint(first, k - 1) if k - 1 >= first else None
        if a is not None:
            if a > first or rng.random() < 0.5:
                A["measures"][a]["left"] = "rptstart"
            A["measures"][k]["right"] = "rptend"
        return
    pos = first
    for _ in range(2):
        if pos >= n or rng.random() < 0.6:
            break
        a = rng.randint(pos, n - 1)
        b = rng.randint(a, n - 1)
        if a > first or rng.random() < 0.5:
            A["measures"][a]["left"] = "rptstart"
        A["measures"][b]["right"] = "rptend"
        pos = b + 1


def _add_ties(rng, A, p_tie):
    if not p_tie:
        return
    for st in A["staves"]:
        sn = str(st["n"])
        for vn in (1, 2):
            prev = None          # previous sounding event of this voice (None after a rest or a gap)
            for M in A["measures"]:
                layer = next((ly for ly in M["staves"][sn] if ly["n"] == vn), None)
                if layer is None:
                    prev = None
                    continue
                for ev in layer["ev"]:
                    if ev["k"] == "g":
                        prev = None          # no tie into or across a grace note
                        continue
                    if ev["k"] in ("n", "c"):
                        if prev is not None and rng.random() < p_tie:
                            src = rng.choice(prev["p"])
                            key = (src[0], src[1] or 0, src[2])
                            if not any((q[0], q[1] or 0, q[2]) == key for q in ev["p"]):
                                # the next event must contain the tied pitch
                                ev["p"][rng.randrange(len(ev["p"]))] = [src[0], src[1], src[2], False]
                            src[3] = True
                        prev = ev
                    else:
                        prev = None


def _options(rng, fmt, A):
    den = N.denote(A)
    durs = set()
    for d in den.values():
        durs |= d["durations"]
    unit = N.min_divisions(durs) if durs else 1
    if fmt == "mei":
        o = {"sig": rng.choice(["staffdef-attr", "staffdef-attr", "staffdef-child", "scoredef-attr", "scoredef-child"]),
             "clef": rng.choice(["attr", "child"]),
             "beams": rng.random() < 0.5, "accid": rng.choice(["attr", "ges", "child", "mix"]),
             "layer_n": rng.random() < 0.8, "chord_note_dur": rng.random() < 0.3,
             "ties": rng.choice(["start", "end", "last"]), "nest": rng.choice([None, None, "tail", "head"]),
             "sections": rng.choice(["flat", "nested"]), "breaks": rng.random() < 0.3,
             "change": rng.choice(["attr", "child"]), "mode": rng.random() < 0.6,
             # a <space> that ends the layer of a complete bar may be written without a duration (it fills the bar)
             "bare_space": rng.random() < 0.4}
        mult = rng.choice([1, 1, 2, 4, 10])
        style = rng.choice(["none", "none", "ppq", "durppq", "both"])
        o["unit"] = unit * mult
        o["ppq"] = o["unit"] if style in ("ppq", "both") else None
        o["durppq"] = style in ("durppq", "both")
        o["ppq_style"] = style
        o["grace_durppq"] = o["durppq"] and rng.random() < 0.4
    else:
        o = {"staff": rng.random() < 0.8, "first_bar": rng.random() < 0.7, "final": rng.choice(["==", "==", "=", None]),
             "natural": rng.random() < 0.5, "keyname": rng.random() < 0.3, "refrec": rng.random() < 0.3,
             "tie_pos": "humdrum"}
    o["min_divisions"] = unit
    return o
