"""Twelve-tone / diatonic / circle-of-fifths arithmetic written from scratch
(nothing imported from partitura)."""
from fractions import Fraction

STEP_NAMES = "CDEFGAB"
NATURAL = [0, 2, 4, 5, 7, 9, 11]          # semitones of C D E F G A B above C


def step_index(step):
    return STEP_NAMES.index(step.upper())


def midi(step, alter, octave):
    """C4 = 60, each accidental one semitone."""
    return 12 * (octave + 1) + NATURAL[step_index(step)] + (alter or 0)


def pitch_class(step, alter):
    return (NATURAL[step_index(step)] + (alter or 0)) % 12


ACCIDENTAL_TEXT = {"": 0, "#": 1, "##": 2, "x": 2, "###": 3, "b": -1, "bb": -2, "bbb": -3}


def note_name_parse(name):
    """Grammar [A-G](#|b|x|##|bb)?\\d+ -> (step, alter, octave)."""
    step = name[0]
    i = 1
    while i < len(name) and not (name[i].isdigit() or name[i] == "-"):
        i += 1
    return step, ACCIDENTAL_TEXT[name[1:i]], int(name[i:])


# ------------------------------------------------------------------ keys
def key_tonic(fifths, mode):
    """Tonic (step, alter) of the key with `fifths` sharps(+)/flats(-).
    Major tonic = `fifths` perfect fifths above C; minor tonic = three more."""
    k = fifths + (3 if mode == "minor" else 0)
    # line of fifths: ... Fb Cb Gb Db Ab Eb Bb F C G D A E B F# C# ...
    line = "FCGDAEB"
    pos = k + 1                       # F is position 0, C position 1
    step = line[pos % 7]
    alter = pos // 7                  # floor division: negative positions are flats
    return step, alter


def key_name(fifths, mode):
    step, alter = key_tonic(fifths, mode)
    acc = "#" * alter if alter > 0 else "b" * (-alter)
    return step + acc + ("m" if mode == "minor" else "")


ALL_KEYS = {(f, m): key_name(f, m) for f in range(-7, 8) for m in ("major", "minor")}


# ------------------------------------------------------------------ intervals
PERFECT = {1, 4, 5}
Q_PERFECT = {"dd": -2, "d": -1, "P": 0, "A": 1, "AA": 2}
Q_MAJOR = {"dd": -3, "d": -2, "m": -1, "M": 0, "A": 1, "AA": 2}


def interval_semitones(number, quality):
    n = number - 1
    base = NATURAL[n % 7] + 12 * (n // 7)
    simple = n % 7 + 1
    table = Q_PERFECT if simple in PERFECT else Q_MAJOR
    return base + table[quality]


def interval_classes():
    out = []
    for number in range(1, 8):
        table = Q_PERFECT if number in PERFECT else Q_MAJOR
        for q in table:
            out.append((number, q))
    return out


def transpose(step, alter, octave, number, quality, direction):
    """Diatonic transposition: move number-1 staff steps and the interval's
    semitones; the alteration makes up the difference, the octave follows the
    step."""
    sgn = 1 if direction == "up" else -1
    d = step_index(step) + 7 * octave + sgn * (number - 1)
    new_step = STEP_NAMES[d % 7]
    new_oct = d // 7
    target = midi(step, alter, octave) + sgn * interval_semitones(number, quality)
    new_alter = target - midi(new_step, 0, new_oct)
    return new_step, new_alter, new_oct


# ------------------------------------------------------------------ durations
TYPES = {
    "long": Fraction(16), "breve": Fraction(8), "whole": Fraction(4), "half": Fraction(2),
    "quarter": Fraction(1), "eighth": Fraction(1, 2), "16th": Fraction(1, 4),
    "32nd": Fraction(1, 8), "64th": Fraction(1, 16), "128th": Fraction(1, 32),
    "256th": Fraction(1, 64),
}
ABBREV = {"h": "half", "q": "quarter", "e": "eighth"}


def dots_factor(dots):
    return Fraction(2 ** (dots + 1) - 1, 2 ** dots)


def symbolic_quarters(sym):
    """Exact value in quarters of {'type', 'dots', 'actual_notes', 'normal_notes'}."""
    t = sym["type"]
    v = TYPES[ABBREV.get(t, t)] * dots_factor(sym.get("dots", 0) or 0)
    a, n = sym.get("actual_notes"), sym.get("normal_notes")
    if a and n:
        v = v * Fraction(n, a)
    return v
