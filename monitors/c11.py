"""C11 — add_measures / tie_notes / find_tuplets / fill_rests / sanitize_part normalise
notation without changing what sounds; estimate_symbolic_duration converts back.

Pre/post hooks on the five real functions take the sounding-note table and the
measure table before and after and walk the result with exact Fraction
duration arithmetic. Exhaustive sub-check of estimate_symbolic_duration.
"""
from fractions import Fraction

import numpy as np

import collections
from vmon import core
from vmon.refmodels import pitch as P
from vmon.refmodels import sigmaps, timemaps

PROP = "C11"
RULE = ("generated parts with arbitrary integer onsets/durations (durations needing 2-4 tied values, tuplet durations, notes spanning "
        "several bars and signature changes), any mix of existing measures and gaps, divisions from {1..960}; the call sequences "
        "add_measures -> tie_notes -> find_tuplets -> fill_rests -> sanitize_part and single calls; plus the duration-estimator "
        "table (quick: every divisions value 1..960 with a seeded 2% slice of d in 1..8*div; thorough: the complete table); "
        "non-trivial part = >=1 note split in >=2 and (>=1 existing measure or >=1 gap); distinct by (note table, measure table) digest")
ASSUMPTIONS = ["exact notated values from vmon/refmodels/pitch.py (type x dots x tuplet ratio as Fraction of a quarter)",
               "'reports that no single notated value exists' = a falsy result ({} / None)",
               "only symbolic durations assigned during the observed call are judged (user-supplied ones are not)",
               "sanitize_part: removal of orphan grace notes and of non-contiguous ties is its documented job, judged on the remaining notes"]
MIN_HOOKS = {"add_measures": 100, "tie_notes": 100, "find_tuplets": 100, "fill_rests": 20, "sanitize_part": 20,
             "estimate_symbolic_duration": 10000}
MIN_NONTRIVIAL = {"quick": 150, "thorough": 2500}
_installed = False


def note_table(part):
    """Sounding notes: one entry per tie-chain head (pitched, unpitched and grace notes)."""
    import partitura.score as S
    rows = []
    for n in timemaps.objects_of(part, S.GenericNote, exact=False):
        if isinstance(n, S.Rest) or n.tie_prev is not None:
            continue
        last, dur, k = n, 0, 0
        while last is not None and k < 100000:
            dur += last.end.t - last.start.t
            last = last.tie_next
            k += 1
        pitch = (n.step, n.alter or 0, n.octave) if isinstance(n, S.Note) else ("unpitched", n.step, n.octave)
        rows.append((int(n.start.t), int(dur), pitch, n.voice, n.staff, isinstance(n, S.GraceNote)))
    return sorted(rows, key=repr)


def measure_table(part):
    import partitura.score as S
    return sorted((int(m.start.t), int(m.end.t), id(m)) for m in timemaps.objects_of(part, S.Measure))


def sym_state(part):
    import partitura.score as S
    return {id(n): (dict(n._sym_dur) if isinstance(n._sym_dur, dict) else n._sym_dur)
            for n in timemaps.objects_of(part, S.GenericNote, exact=False)}


def check_assigned_syms(ctx, part, before_syms, fname, w):
    """Every symbolic duration assigned during the call is exact under the divisions in force."""
    import partitura.score as S
    d = sigmaps.describe(part)
    for n in timemaps.objects_of(part, S.GenericNote, exact=False):
        sym = n._sym_dur
        if not sym or isinstance(n, S.GraceNote):
            continue
        old = before_syms.get(id(n), "<new>")
        if old != "<new>" and old == sym:
            continue
        if n.end is None or "type" not in sym or sym["type"] not in P.TYPES:
            continue
        # divisions constant over the note?
        if any(n.start.t < t < n.end.t for t, _ in d["q"]):
            ctx.ambiguous()
            continue
        q = sigmaps.div_at(d, n.start.t)
        ctx.check()
        if P.symbolic_quarters(sym) * q != n.end.t - n.start.t:
            kind = "rest" if isinstance(n, S.Rest) else "note"
            tup = "-tuplet" if sym.get("actual_notes") else ""
            m_ = next((m for m in timemaps.objects_of(part, S.Measure) if m.start.t <= n.start.t < m.end.t), None)
            if kind == "rest" and fname == "fill_rests" and m_ is not None and any(m_.start.t < t_ <= n.start.t for t_, _ in d["q"]):
                # (open known finding) the divisions change inside the measure, before this rest: fill_rests sizes every rest of a
                # measure by the divisions at the start of the measure
                ctx.violation("fill_rests-sizes-rests-by-the-divisions-at-the-start-of-their-measure",
                              f"measure [{m_.start.t},{m_.end.t}) with a change of divisions inside: rest [{n.start.t},{n.end.t}) at divisions {q} got "
                              f"{sym} = {float(P.symbolic_quarters(sym) * q)} divs", dict(w, note=[n.id, n.start.t, n.end.t], divisions=q, symbolic=sym))
                return False
            ctx.violation(f"{fname}-assigned-inexact-symbolic-duration-{kind}{tup}",
                          f"{fname} gave {kind} {n.id} [{n.start.t},{n.end.t}) at divisions {q} the value {sym} = "
                          f"{float(P.symbolic_quarters(sym) * q)} divs", dict(w, note=[n.id, n.start.t, n.end.t], divisions=q, symbolic=sym))
            return False
    return True


def check_ties(ctx, part, fname, w):
    import partitura.score as S
    for n in timemaps.objects_of(part, S.Note, exact=False):
        nx = n.tie_next
        if nx is None:
            continue
        ctx.check()
        if nx.tie_prev is not n:
            ctx.violation(f"{fname}-tie-links-inconsistent", f"{n.id}.tie_next.tie_prev is not the note", w)
            return False
        if nx.start is None or n.end.t != nx.start.t:
            ctx.violation(f"{fname}-tie-chain-gap", f"{n.id} ends {n.end.t}, continuation starts {getattr(nx.start, 't', None)}", w)
            return False
        if (n.step, n.alter or 0, n.octave, n.voice, n.staff) != (nx.step, nx.alter or 0, nx.octave, nx.voice, nx.staff):
            ctx.violation(f"{fname}-tie-chain-mixed", f"{n.id}: {(n.step, n.alter, n.octave, n.voice, n.staff)} tied to "
                          f"{(nx.step, nx.alter, nx.octave, nx.voice, nx.staff)}", w)
            return False
    return True


def bar_beats(model, a, b):
    return model.beat(b) - model.beat(a)


def check_add_measures(ctx, part, before, w):
    import partitura.score as S
    m_before = before["measures"]
    m_after = measure_table(part)
    ids_after = {m[2] for m in m_after}
    ctx.check()
    for s, e, i in m_before:
        if (s, e, i) not in m_after:
            ctx.violation("add_measures-existing-measure-moved", f"existing measure [{s},{e}) changed or disappeared", w)
            return
    d = sigmaps.describe(part)
    if not d["ts"]:
        return
    first, last = d["first"], d["last"]
    if first == last:
        return
    ms = sorted((s, e) for s, e, _ in m_after)
    old = {(s, e) for s, e, _ in m_before}
    overlapping_before = any(a[1] > b[0] for a, b in zip(sorted(old), sorted(old)[1:]))
    if overlapping_before:
        ctx.ambiguous()
        return
    # exact tiling of [first, last]
    ctx.check()
    pos = first
    for s, e in ms:
        if s != pos:
            key = "add_measures-gap-left" if s > pos else "add_measures-overlap"
            ctx.violation(key, f"timeline [{pos},{s}) " + ("not inside any measure" if s > pos else "inside two measures") + f"; measures {ms[:10]}", w)
            return
        pos = e
    if pos != last:
        ctx.violation("add_measures-gap-left" if pos < last else "add_measures-beyond-end", f"measures end at {pos}, timeline at {last}", w)
        return
    # lengths of added measures
    dt = timemaps.describe(part)
    model = timemaps.Model(dt)
    ts_starts = {t for t, *_ in d["ts"]}
    old_starts = {s for s, _ in old}
    inexact = set()                    # barlines whose exact position lies between two positions (they were rounded)
    for s, e in ms:
        if (s, e) in old:
            continue
        inside = sorted(x for x in ts_starts if s < x < e)
        ctx.check()
        if inside:
            # a bar is as long as the signature in force says: a signature change cuts it
            ctx.violation("add_measures-bar-runs-across-a-signature-change", f"added measure [{s},{e}) contains the signature change at {inside[0]}; "
                          f"measures {ms[:10]}", w)
            return
        if s in inexact:
            # this bar starts on a rounded barline: its exact length is judged with one position of slack on either side
            (b, bt, _), amb = sigmaps.ts_at(d, s)
            ctx.check()
            if not amb and e - 1 > s + 1 and (bar_beats(model, s + 1, e - 1) >= b or (e + 1 <= last and bar_beats(model, s - 1, e + 1) <= b
                                                                                  and not (e in ts_starts or e in old_starts or e == last))):
                ctx.violation("add_measures-measure-length-wrong-after-rounded-barline",
                              f"added measure [{s},{e}) lasts {bar_beats(model, s, e)} beats under {b}/{bt}", w)
                return
            ctx.ambiguous()
            # the offset of the rounded start is carried along: the end of this bar is a rounded barline too
            # (unless something fixed cuts the bar there)
            if not (e in ts_starts or e in old_starts or e == last):
                inexact.add(e)
            continue
        (b, bt, _), amb = sigmaps.ts_at(d, s)
        if amb or (d["ts"] and s < d["ts"][0][0]):
            ctx.ambiguous()
            continue
        beats = bar_beats(model, s, e)
        ctx.check()
        if beats == b:
            continue
        from fractions import Fraction as _F
        if (_F(4 * b * sigmaps.div_at(d, s), bt)).denominator != 1:
            ctx.ambiguous()              # the bar is not a whole number of divisions: where it is cut is don't-care
            inexact.add(e)
            continue
        if beats > b and e - 1 > s and bar_beats(model, s, e - 1) < b:
            ctx.ambiguous()              # the exact end of the bar lies between two positions (division change inside the bar)
            inexact.add(e)
            continue
        if beats > b:
            ctx.violation("add_measures-measure-longer-than-bar", f"added measure [{s},{e}) lasts {beats} beats under {b}/{bt}", w)
            return
        # shorter: must be cut by a signature change, an existing measure or the end
        if not (e in ts_starts or e in old_starts or e == last):
            if e + 1 <= last and bar_beats(model, s, e + 1) > b:
                ctx.ambiguous()        # the exact end of the bar is not an integer position: don't-care
                inexact.add(e)
                continue
            ctx.violation("add_measures-short-measure-not-cut", f"added measure [{s},{e}) lasts {beats} of {b} beats but nothing cuts it there", w)
            return
    # numbering
    nums = [m.number for m in sorted(timemaps.objects_of(part, S.Measure), key=lambda m: m.start.t)]
    ctx.check()
    if nums != list(range(1, len(nums) + 1)):
        ctx.violation("add_measures-numbers-not-consecutive", f"numbers in time order: {nums[:20]}", w)


def graces_with_main(part):
    """[(grace note, id)] of the grace notes sanitize_part must keep."""
    import partitura.score as S
    plain = collections.defaultdict(set)
    for n in timemaps.objects_of(part, S.Note, exact=True):
        plain[int(n.start.t)].add(n.voice)
    out = []
    for g in timemaps.objects_of(part, S.GraceNote):
        last, seen = g, set()
        while isinstance(getattr(last, "grace_next", None), S.GraceNote) and id(last) not in seen:
            seen.add(id(last))
            last = last.grace_next
        reaches = getattr(last, "grace_next", None) is not None and not isinstance(last.grace_next, S.GraceNote)
        # the repair attaches the LAST grace note of g's run to a plain note of g's voice at g's onset
        if reaches or g.voice in plain[int(g.start.t)]:
            out.append((g, g.id))
    return out


def check_within_measures(ctx, part, fname, w):
    import partitura.score as S
    starts = sorted({int(m.start.t) for m in timemaps.objects_of(part, S.Measure)})
    for n in timemaps.objects_of(part, S.Note, exact=True):
        ctx.check()
        for s in starts:
            if n.start.t < s < n.end.t:
                ctx.violation(f"{fname}-note-crosses-barline", f"note {n.id} [{n.start.t},{n.end.t}) crosses the barline at {s}", w)
                return False
    return True


def witness(part):
    import partitura.score as S
    d = sigmaps.describe(part)
    notes = [(n.id, int(n.start.t), int(n.end.t), getattr(n, "step", None), n.voice, n.staff)
             for n in timemaps.objects_of(part, S.GenericNote, exact=False)][:25]
    return {"q": d["q"][:6], "ts": d["ts"][:6], "measures": d["measures"][:12], "notes": notes}


def install(ctx):
    global _installed
    core.set_current(ctx)
    if _installed:
        return
    _installed = True
    import partitura.score as S
    import partitura.utils.music as M

    def parts_of(x):
        return list(S.iter_parts(x)) if not isinstance(x, S.Part) else [x]

    def mk(fname):
        def pre(*a, **k):
            target = a[0] if a else next(iter(k.values()))
            ps = parts_of(target.parts if isinstance(target, S.Score) else target)
            return [(p, {"notes": note_table(p), "measures": measure_table(p), "syms": sym_state(p), "w": witness(p),
                         "graces_with_a_main_note": graces_with_main(p) if fname == "sanitize_part" else None}) for p in ps]

        def post(ret, exc, token, a, k):
            if exc is not None:
                return
            c = core.CURRENT
            for part, before in token:
                w = dict(before["w"], function=fname)
                after = note_table(part)
                c.check()
                if fname == "sanitize_part":
                    # orphan grace notes / broken ties may legitimately go: judge the non-grace, untied notes
                    keep = lambda rows: sorted((r for r in rows if not r[5]), key=repr)  # noqa
                    if sum(r[1] for r in keep(before["notes"])) != sum(r[1] for r in keep(after)) or \
                            len([r for r in after if r[5]]) > len([r for r in before["notes"] if r[5]]):
                        c.violation("sanitize_part-changed-sounding-notes", "non-grace sounding time changed", w)
                    # only grace notes WITHOUT a main note may go: one whose run reaches a main note, or that has a plain
                    # note of its voice at its onset to be attached to (the documented repair), stays
                    left = {id(g) for g in timemaps.objects_of(part, S.GraceNote)}
                    gone = [gid for gobj, gid in before["graces_with_a_main_note"] if id(gobj) not in left]
                    c.check()
                    if gone:
                        c.violation("sanitize_part-removed-grace-note-that-has-a-main-note",
                                    f"grace notes {gone[:5]} were removed although a main note exists for them", w)
                elif after != before["notes"]:
                    lost = [r for r in before["notes"] if r not in after][:3]
                    new = [r for r in after if r not in before["notes"]][:3]
                    c.violation(f"{fname}-changed-sounding-notes", f"before-only {lost}, after-only {new}", w)
                    continue
                if fname == "add_measures":
                    check_add_measures(c, part, before, w)
                else:
                    c.check()
                    if [m[:2] for m in measure_table(part)] != [m[:2] for m in before["measures"]]:
                        c.violation(f"{fname}-changed-measures", "measure extents changed", w)
                if fname == "tie_notes":
                    check_within_measures(c, part, fname, w)
                if fname in ("tie_notes", "find_tuplets", "fill_rests"):
                    check_ties(c, part, fname, w) and check_assigned_syms(c, part, before["syms"], fname, w)

        h = core.Hook(S, fname, pre=pre, post=post, ctx=ctx, label=fname)
        core.rebind_everywhere(h.orig, h.wrapper)

    for fname in ("add_measures", "tie_notes", "find_tuplets", "fill_rests", "sanitize_part"):
        mk(fname)

    def post_est(ret, exc, token, a, k):
        if exc is not None:
            return
        c = core.CURRENT
        dur = a[0] if a else k["dur"]
        div = a[1] if len(a) > 1 else k["div"]
        if k.get("return_com_durations") or (len(a) > 3 and a[3]):
            return
        judge_estimate(c, dur, div, ret)

    h = core.Hook(M, "estimate_symbolic_duration", post=post_est, ctx=ctx, label="estimate_symbolic_duration")
    core.rebind_everywhere(h.orig, h.wrapper)


STRAIGHT = None


def straight_table():
    global STRAIGHT
    if STRAIGHT is None:
        STRAIGHT = {}
        for t, v in P.TYPES.items():
            for dots in range(4):
                STRAIGHT.setdefault(v * P.dots_factor(dots), (t, dots))
    return STRAIGHT


def judge_estimate(ctx, dur, div, ret):
    if not isinstance(div, (int, np.integer)) or div <= 0:
        return
    if isinstance(dur, (float, np.floating)) and float(dur) > 0 and float(dur) * 4 == int(float(dur) * 4):
        # a duration that is not a whole number of divisions (a quarter of a division is exact in binary)
        dur_exact = Fraction(float(dur))
    elif isinstance(dur, (int, np.integer)) and dur >= 0:
        dur_exact = Fraction(int(dur))
    else:
        return
    ctx.check()
    exact = dur_exact / int(div)
    if ret:
        if isinstance(ret, tuple):
            return
        val = P.symbolic_quarters(ret)
        if val != exact:
            if ret.get("actual_notes"):
                key = "estimate_symbolic_duration-tuplet-guess-does-not-convert-back"
            else:
                key = "estimate_symbolic_duration-approximate-table-hit-does-not-convert-back"
            ctx.violation(key, f"estimate_symbolic_duration({dur}, {div}) = {ret} which is {float(val * div)} divs",
                          {"dur": float(dur_exact), "div": int(div), "result": ret})
        else:
            # ... and the library's own inverse returns the numeric duration
            import partitura.utils.music as M_
            ctx.check()
            try:
                back = M_.symbolic_to_numeric_duration(dict(ret), int(div))
            except Exception as e:  # noqa
                back = f"{type(e).__name__}: {e}"
            if isinstance(back, str) or abs(float(back) - float(dur_exact)) > 1e-6:
                ctx.violation("symbolic_to_numeric_duration-does-not-return-the-numeric-duration",
                              f"estimate_symbolic_duration({dur}, {div}) = {ret}; symbolic_to_numeric_duration of it gives {back!r}",
                              {"dur": int(dur), "div": int(div), "result": ret})
    elif exact in straight_table() and dur > 0:
        ctx.violation("estimate_symbolic_duration-misses-exact-value",
                      f"estimate_symbolic_duration({dur}, {div}) reports no value although {straight_table()[exact]} is exact",
                      {"dur": int(dur), "div": int(div)})


def setup(ctx):
    install(ctx)


# ---------------------------------------------------------------- workload
def plan(tier, seed):
    n = 16 * 40 if tier == "quick" else 16 * 500
    items = [["raw", i] for i in range(n)] + [["gen", i] for i in range(n // 2)] + [["rests", i] for i in range(n // 4)]
    if tier == "quick":
        items += [["table", lo, lo + 30, 0.02] for lo in range(1, 961, 30)]
    else:
        items += [["table", lo, lo + 8, 1.0] for lo in range(1, 961, 8)]
    return items


def build_raw_part(rng):
    """arbitrary onsets/durations, no symbolic durations, any mix of existing measures and gaps"""
    import partitura.score as S
    q = rng.choice([1, 2, 3, 4, 6, 8, 12, 16, 24, 48, 96, 480])
    part = S.Part("R", quarter_duration=q)
    meters = [(b, bt) for b, bt in [(4, 4), (3, 4), (2, 4), (6, 8), (5, 8), (3, 8), (2, 2), (7, 8), (9, 8)] if (4 * q * b) % bt == 0]
    ts = rng.choice(meters)
    part.add(S.TimeSignature(*ts), 0)
    total_bars = rng.randint(2, 8)
    bar = 4 * q * ts[0] // ts[1]
    # optional signature change on a barline
    t_change = None
    cut_bar = None
    length = 0
    bars = []
    q_changes = 0
    for i in range(total_bars):
        if i > 0 and t_change is None and rng.random() < 0.25:
            if rng.random() < 0.4 and bars[-1][1] - bars[-1][0] > 1:
                # the signature changes before the running bar is full (the bar before the change is cut short by it)
                k_ = rng.randint(1, bars[-1][1] - bars[-1][0] - 1)
                bars[-1] = (bars[-1][0], bars[-1][1] - k_)
                length -= k_
                cut_bar = len(bars) - 1
            ts = rng.choice([m_ for m_ in meters if (4 * q * m_[0]) % m_[1] == 0] or [ts])
            bar = 4 * q * ts[0] // ts[1]
            part.add(S.TimeSignature(*ts), length)
            t_change = length
        elif i > 0 and rng.random() < 0.2:
            # the divisions change on a barline (held notes cross it)
            cands = [x for x in [1, 2, 3, 4, 6, 8, 12, 16, 24, 48] if x != q and (4 * x * ts[0]) % ts[1] == 0]
            if cands:
                q = rng.choice(cands)
                part.set_quarter_duration(length, q)
                bar = 4 * q * ts[0] // ts[1]
                q_changes += 1
        bars.append((length, length + bar))
        length += bar
    end = length - (rng.randint(0, bar - 1) if rng.random() < 0.3 else 0)     # last bar may be cut by the end
    end = max(end, bars[-1][0] + 1)
    # existing measures: a random subset of the true bars (so gaps remain)
    existing = 0
    mode = rng.random()
    spanning = None
    if t_change is not None and rng.random() < 0.3:
        # an existing measure that reaches over the signature change (it began under the old signature)
        i_ = next(i for i, (a, b) in enumerate(bars) if a == t_change)
        if i_ >= 1 and bars[i_][1] <= end:
            a0 = bars[i_ - 1][0] + rng.choice([0, 0, max(0, (bars[i_ - 1][1] - bars[i_ - 1][0]) // 2)])
            b0 = rng.choice([bars[i_][1], t_change + max(1, (bars[i_][1] - t_change) // 2)])
            spanning = (a0, b0, i_)
            part.add(S.Measure(number=rng.randint(1, 9)), a0, b0)
            existing += 1
    late_in_first_new_bar = None
    if cut_bar is not None and spanning is None and cut_bar + 1 < len(bars) and rng.random() < 0.5:
        a1, b1 = bars[cut_bar + 1]
        if b1 - a1 > 1 and b1 <= end:
            # an existing measure that begins a little after the signature change (inside the first bar of the new metre)
            late_in_first_new_bar = cut_bar + 1
            part.add(S.Measure(number=rng.randint(1, 9)), a1 + rng.randint(1, b1 - a1 - 1), b1)
            existing += 1
    for j_, (a, b) in enumerate(bars):
        if spanning is not None and j_ in (spanning[2] - 1, spanning[2]):
            continue
        if cut_bar is not None and j_ == cut_bar:
            continue                      # the bar the signature change cuts short is left to add_measures
        if late_in_first_new_bar is not None and j_ == late_in_first_new_bar:
            continue
        if (mode < 0.3) or (mode < 0.7 and rng.random() < 0.4) or (cut_bar is not None and j_ == cut_bar + 1 and rng.random() < 0.7):
            if b <= end:
                part.add(S.Measure(number=rng.randint(1, 9)), a, b)
                existing += 1
    # notes
    unit = max(1, q // rng.choice([1, 2, 4])) if q >= 4 else 1
    nid = 0
    n_voices = rng.choice([1, 1, 2])
    for v in range(1, n_voices + 1):
        t = rng.choice([0, 0, unit * rng.randint(0, 4)])
        while t < end:
            r = rng.random()
            if r < 0.55:
                d = unit * rng.randint(1, 8)
            elif r < 0.75:
                d = rng.randint(1, max(1, 2 * bar))               # arbitrary, often needs several tied values / crosses bars
            elif r < 0.9 and q % 3 == 0:
                d = q // 3                                       # triplet eighth
                for _ in range(2):
                    if t + d <= end:
                        nid += 1
                        part.add(S.Note(rng.choice("CDEFGAB"), 3 + v, id=f"n{nid}", voice=v, staff=1), t, t + d)
                        t += d
            else:
                d = q * rng.choice([1, 2, 4])
            d = min(d, end - t)
            if d <= 0:
                break
            if rng.random() < 0.15:
                t += d                                            # silence
                continue
            nid += 1
            part.add(S.Note(rng.choice("CDEFGAB"), 3 + v, rng.choice([None, 0, 1, -1]), id=f"n{nid}", voice=v, staff=1), t, t + d)
            t += d
    if part.last_point.t < end:
        part.add(S.Rest(id="rend", voice=1, staff=1), part.last_point.t, end)
    return part, {"existing": existing, "bars": len(bars), "q": q, "q_changes": q_changes}


def run_item(ctx, item):
    import partitura.score as S
    import partitura.utils.music as M
    from workloads import gen_score
    kind = item[0]
    if kind == "raw":
        rng = ctx.rng("raw", item[1])
        part, meta = build_raw_part(rng)
        if rng.random() < 0.15:
            part.use_musical_beat()           # bars are still as long as the signature says
            ctx.extra["raw_parts_counting_in_musical_beats"] += 1
        n_before = len(timemaps.objects_of(part, S.Note))
        seq = rng.choice([["add_measures", "tie_notes", "find_tuplets", "fill_rests", "sanitize_part"],
                          ["add_measures", "tie_notes"], ["add_measures", "find_tuplets", "tie_notes"],
                          ["tie_notes"], ["find_tuplets"], ["add_measures", "tie_notes", "tie_notes"],
                          ["add_measures", "add_measures"]])
        for f in seq:
            if f == "fill_rests" and not timemaps.objects_of(part, S.Measure):
                continue
            ok, _ = ctx.try_call(getattr(S, f), part)
            if not ok:
                break
        n_after = len(timemaps.objects_of(part, S.Note))
        gaps = meta["existing"] < meta["bars"]
        ctx.case([note_table(part)[:40], measure_table(part) and [m[:2] for m in measure_table(part)], seq],
                 n_after > n_before and (meta["existing"] >= 1 or gaps), cls="raw",
                 sample={"divisions": meta["q"], "existing_measures": meta["existing"], "bars": meta["bars"], "notes_before": n_before,
                         "notes_after": n_after, "calls": seq})
        ctx.state(f"{meta['existing'] > 0}:{gaps}:{n_after - n_before > 2}:{seq[0]}:{len(seq)}:{meta['q_changes'] > 0}")
    elif kind == "rests":
        # fill_rests on voices that enter late and stop early, on a grid that mixes sixteenths and triplets: the silences
        # need one, two or three notated values
        rng = ctx.rng("rests", item[1])
        q = rng.choice([12, 12, 24, 6, 4, 48])
        b, bt = rng.choice([(4, 4), (3, 4), (5, 4), (6, 8), (2, 2)])
        bar = 4 * q * b // bt
        part = S.Part("P1", quarter_duration=q)
        part.add(S.TimeSignature(b, bt), 0)
        n_m = rng.randint(1, 4)
        unit = max(1, q // 12) if q % 12 == 0 else max(1, q // 4)
        k = 0
        for m in range(n_m):
            part.add(S.Measure(number=m + 1), m * bar, (m + 1) * bar)
            for v in range(1, rng.choice([1, 1, 2]) + 1):
                grid = sorted({x for x in range(0, bar + 1, unit) if x % (q // 4 or 1) == 0 or (q % 3 == 0 and x % (q // 3) == 0)
                               or x % max(1, q // 6 if q % 6 == 0 else q) == 0})
                a_ = rng.choice([x for x in grid if x < bar])
                e_ = rng.choice([x for x in grid if x > a_])
                part.add(S.Note("CDEFGAB"[k % 7], 4, None, id=f"n{k}", voice=v, staff=1), m * bar + a_, m * bar + e_)
                k += 1
        mode = rng.random() < 0.7
        ok, _ = ctx.try_call(S.fill_rests, part, measurewise=mode)
        if ok:
            ctx.check()
            zero = [r for r in timemaps.objects_of(part, S.Rest) if r.end is None or r.end.t <= r.start.t]
            if zero:
                ctx.violation("fill_rests-added-a-rest-without-length", f"rest at {zero[0].start.t} has no length (divisions {q}, {b}/{bt})",
                              {"divisions": q, "ts": [b, bt], "notes": [[n.id, n.start.t, n.end.t, n.voice] for n in timemaps.objects_of(part, S.Note)]})
        ctx.case(["rests", item[1]], True, cls="fill_rests-late-and-early-voices" + (":measurewise" if mode else ":global"))
    elif kind == "gen":
        rng = ctx.rng("gen", item[1])
        part, meta = gen_score.make_part(rng, "P1", profile="full")
        # forget notation: symbolic durations and (some) measures, ties stay
        for n in timemaps.objects_of(part, S.GenericNote, exact=False):
            if rng.random() < 0.7 and not isinstance(n, S.GraceNote):
                n.symbolic_duration = None
        if rng.random() < 0.6:
            for m in list(timemaps.objects_of(part, S.Measure)):
                if rng.random() < 0.5:
                    part.remove(m)
        # grace notes whose link to the main note (or to the next grace note of the run) was never made, as in a part built by hand
        unlinked = 0
        if rng.random() < 0.5:
            for g in timemaps.objects_of(part, S.GraceNote):
                if g.grace_next is not None and rng.random() < 0.4:
                    nxt = g.grace_next
                    g.grace_next = None
                    if getattr(nxt, "grace_prev", None) is g:
                        nxt.grace_prev = None
                    unlinked += 1
        if unlinked:
            ctx.extra["parts_with_unlinked_grace_notes"] += 1
        for f in ["add_measures", "tie_notes", "find_tuplets", "sanitize_part"]:
            ok, _ = ctx.try_call(getattr(S, f), part)
            if not ok:
                break
        ctx.case(["gen", item[1]], meta["ties"] > 0 or meta["tuplets"] > 0, cls="gen_score" + ("+unlinked-graces" if unlinked else ""))
    else:
        lo, hi, frac = item[1], item[2], item[3]
        rng = ctx.rng("table", lo)
        n = 0
        for div in range(lo, min(hi, 961)):
            ds = range(1, 8 * div + 1)
            if frac < 1.0:
                k = max(8, int(len(ds) * frac))
                ds = sorted(set(rng.sample(range(1, 8 * div + 1), min(k, 8 * div)) + [div, 2 * div, 3 * div, div // 2 or 1, div // 3 or 1]))
            for d in ds:
                ctx.call(M.estimate_symbolic_duration, d, div)
                n += 1
            # durations that are not a whole number of divisions (a 16th at 2 divisions per quarter is 0.5)
            for d in rng.sample(list(ds), min(12, len(ds))):
                ctx.call(M.estimate_symbolic_duration, d + rng.choice([0.5, 0.25, 0.75]), div)
                ctx.call(M.estimate_symbolic_duration, d - rng.choice([0.5, 0.25, 0.75]), div)
                n += 2
        ctx.extra["table_entries"] += n
        ctx.case(["table", lo, hi, frac], True, cls="duration-table", sample={"divisions": [lo, hi - 1], "entries": n, "fraction": frac})
