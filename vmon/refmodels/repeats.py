"""Independent reading of repeat structure (C09): segments and the successor
relation permitted by the marks, derived from the registered objects only."""
from .timemaps import objects_of


def marks(part):
    import partitura.score as S
    m = {"first": int(part.first_point.t), "last": int(part.last_point.t)}
    m["repeats"] = sorted((int(r.start.t), int(r.end.t)) for r in objects_of(part, S.Repeat) if r.start is not None and r.end is not None)
    m["endings"] = sorted((int(e.start.t), int(e.end.t), str(e.number)) for e in objects_of(part, S.Ending)
                          if e.start is not None and e.end is not None)
    for name, cls in (("coda", S.Coda), ("tocoda", S.ToCoda), ("dacapo", S.DaCapo), ("fine", S.Fine), ("segno", S.Segno),
                      ("dalsegno", S.DalSegno)):
        m[name] = sorted(int(o.start.t) for o in objects_of(part, cls))
    return m


def segments(m):
    b = {m["first"], m["last"]}
    for s, e in m["repeats"]:
        b.update((s, e))
    for s, e, _ in m["endings"]:
        b.update((s, e))
    for k in ("coda", "tocoda", "dacapo", "fine", "segno", "dalsegno"):
        b.update(m[k])
    b = sorted(x for x in b if m["first"] <= x <= m["last"])
    return [(b[i], b[i + 1]) for i in range(len(b) - 1)]


def seg_id(i):
    return chr(65 + i)


def volta_groups(m):
    """chains of endings where each starts where the previous one ends"""
    groups, cur = [], []
    for e in m["endings"]:
        if cur and cur[-1][1] == e[0]:
            cur.append(e)
        else:
            if cur:
                groups.append(cur)
            cur = [e]
    if cur:
        groups.append(cur)
    return groups


def allowed(m, segs, a, b):
    """may segment index b follow segment index a?  (one-sided: permissive where notation is ambiguous)"""
    sa, ea = segs[a]
    sb, eb = segs[b]
    if b == a + 1:
        return True
    # back to the start of a repeat that ends here
    for rs, re_ in m["repeats"]:
        if re_ == ea and rs == sb:
            return True
    groups = volta_groups(m)
    for g in groups:
        g_start, g_end = g[0][0], g[-1][1]
        starts = [e[0] for e in g]
        ends = [e[1] for e in g]
        # from the segment before the brackets into any bracket of the group
        if ea == g_start and sb in starts:
            return True
        # from the end of a bracket back to a repeat start at or before the body
        if ea in ends and any(rs == sb and rs <= g_start for rs, _ in m["repeats"]):
            return True
        if ea in ends and sb == m["first"] and not any(rs <= g_start for rs, _ in m["repeats"]):
            return True
        # from the end of a bracket past the remaining brackets
        if ea in ends and sb == g_end:
            return True
    if ea in m["dacapo"] and sb == m["first"]:
        return True
    if ea in m["dalsegno"] and sb in m["segno"]:
        return True
    if ea in m["tocoda"] and sb in m["coda"]:
        return True
    return False


def only_by_jump_back(m, segs, a, b):
    """the step a -> b is permitted by a da capo / dal segno mark and by nothing else"""
    ea, sb = segs[a][1], segs[b][0]
    if not ((ea in m["dacapo"] and sb == m["first"]) or (ea in m["dalsegno"] and sb in m["segno"])):
        return False
    plain = dict(m, dacapo=[], dalsegno=[])
    return not allowed(plain, segs, a, b)


def may_end(m, segs, a):
    if segs[a][1] == m["last"] or segs[a][1] in m["fine"]:
        return True
    # the end of a bracket of a volta group that closes the piece (the last pass need not be the last bracket)
    for g in volta_groups(m):
        if g[-1][1] == m["last"] and segs[a][1] in [e[1] for e in g]:
            return True
    return False


def validate_path(m, path_ids):
    """returns None if the walk is permitted, else a description of the first illegal step"""
    segs = segments(m)
    idx = []
    for p in path_ids:
        i = ord(p) - 65
        if not (0 <= i < len(segs)):
            return f"unknown segment {p!r} (there are {len(segs)})"
        idx.append(i)
    if not idx or idx[0] != 0:
        return f"path starts with {path_ids[:1]} instead of the first segment"
    jumped = set()
    for a, b in zip(idx, idx[1:]):
        if not allowed(m, segs, a, b):
            return f"step {seg_id(a)}{list(segs[a])} -> {seg_id(b)}{list(segs[b])} is not permitted by any mark"
        if jumped and segs[a][1] in m["fine"] and b == a + 1 and not only_by_jump_back(m, segs, a, b):
            # after a da capo / dal segno the piece ends at the fine: walking on past it is not a permitted path
            return f"after the jump back the walk passes the fine at {segs[a][1]} (step {seg_id(a)} -> {seg_id(b)})"
        if only_by_jump_back(m, segs, a, b):
            if segs[a][1] in jumped:
                return f"the da capo / dal segno at {segs[a][1]} is followed a second time (step {seg_id(a)} -> {seg_id(b)})"
            jumped.add(segs[a][1])
    if not may_end(m, segs, idx[-1]):
        return f"path ends after {seg_id(idx[-1])}{list(segs[idx[-1]])} which is neither the last segment nor ends at a fine"
    return None
