"""Reference piano-roll rasteriser, octave fold and run-length decoder (C13).

Written from the property statement and the public docstrings only:

* rows: 128 (pitch p in row p); 88 in piano range (row p - 21, pitches outside
  21..108 not shown); (highest - lowest + 1) + 2*margin when a pitch margin is
  given (row p - lowest + margin).  piano_range together with a pitch margin is
  left open by the statement (rows = None: not judged).
* time origin t0: onset of the first note when silence is removed, else time 0
  (a negative first onset without silence removal is left open: origin_open).
* frame of a time x: nearest integer of time_div * (x - t0); a note occupies
  frames [on, on + max(1, nearest(time_div * duration))) -- only `on` in onset
  mode, one frame less (but never less than one) with note separation.
* columns: margin + span + margin, span = last offset frame, or
  ceil(time_div * (end_time - t0)) when an end time is given.
* value: the note's velocity; 1 without velocities or in binary mode; maximum
  where notes collide.

All arithmetic is exact (fractions.Fraction); `aligned` tells whether every
rounding was unambiguous (within GRID_TOL of an integer), otherwise the
nearest-frame reading is only one of several and cells must not be judged.
"""
import math
from fractions import Fraction

GRID_TOL = Fraction(1, 20)
HALF = Fraction(1, 2)


def fr(x):
    """Exact rational of a Python/numpy number (floats are taken at their stored value)."""
    if isinstance(x, Fraction):
        return x
    if isinstance(x, int):
        return Fraction(x)
    try:
        import numpy as np
        if isinstance(x, np.integer):
            return Fraction(int(x))
    except Exception:  # pragma: no cover
        pass
    return Fraction(float(x))


def nearest(x):
    """(nearest integer, distance); exact halves go up (callers treat them as open)."""
    n = math.floor(x + HALF)
    return n, abs(x - n)


class Roll:
    __slots__ = ("rows", "cols", "cols_ok", "cells", "idx", "aligned", "origin_open", "rows_open", "end_status",
                 "t0", "cover", "frames", "hidden", "min_frames_forced", "lead")

    def dense(self):
        out = [[0] * self.cols for _ in range(self.rows)]
        for (r, c), v in self.cells.items():
            out[r][c] = v
        return out


def rasterise(notes, time_div, onset_only=False, note_separation=False, pitch_margin=-1, time_margin=0,
              piano_range=False, remove_silence=True, end_time=None, binary=False, min_time=None):
    """notes: [(pitch:int, onset:Fraction, duration:Fraction, velocity:int|None)] in input order."""
    assert notes
    R = Roll()
    td = int(time_div)
    onsets = [n[1] for n in notes]
    first = min(onsets)
    R.origin_open = False
    if min_time is not None:
        t0 = fr(min_time)
    elif remove_silence:
        t0 = first
    else:
        t0 = Fraction(0)
        if first < 0:
            R.origin_open = True      # "time 0 of the timeline" cannot hold a negative onset
            t0 = first
    R.t0 = t0
    lead = int(td * time_margin)
    R.lead = lead
    R.aligned = (fr(td * time_margin) == lead)

    # ---------------------------------------------------------------- rows
    pitches = [int(n[0]) for n in notes]
    R.rows_open = False
    if pitch_margin is not None and pitch_margin > -1:
        lo, hi = min(pitches), max(pitches)
        rows = (hi - lo + 1) + 2 * int(pitch_margin)
        shift = int(pitch_margin) - lo
        if piano_range and not (lo - int(pitch_margin) >= 21 and hi + int(pitch_margin) <= 108):
            # the band of the margin reaches beyond the keys of a piano: how the two options combine there is left open
            R.rows_open = True
        # (inside the piano range the request for the piano range changes nothing: the notes and their margin are shown)
    else:
        rows, shift = 128, 0
    if piano_range and not (pitch_margin is not None and pitch_margin > -1):
        rows, shift = 88, -21

    # ---------------------------------------------------------------- frames
    frames = []
    R.min_frames_forced = 0
    span = 0
    for p, on, du, ve in notes:
        a, da = nearest(td * (on - t0))
        d, dd = nearest(td * du)
        if da >= GRID_TOL or dd >= GRID_TOL:
            R.aligned = False
        if d < 1:
            d = 1
            R.min_frames_forced += 1
        a += lead
        frames.append((a, a + d))
        span = max(span, a + d)
    R.frames = frames
    span -= lead                                   # last offset frame relative to t0

    # ---------------------------------------------------------------- columns
    R.end_status = "none"
    if end_time is None:
        cols = lead + span + lead
        R.cols_ok = {cols}
    else:
        E = td * (fr(end_time) - t0)
        if abs(E - span) < Fraction(1, 10**4):
            R.end_status = "boundary"              # end time equal to the last offset up to storage rounding
        elif E < span:
            R.end_status = "before-last-offset"    # documented rejection
        else:
            R.end_status = "valid"
        c, dist = nearest(E)
        ce = math.ceil(E)
        cols = lead + (c if dist < Fraction(1, 10**6) else ce) + lead
        R.cols_ok = {cols, lead + ce + lead} if dist < Fraction(1, 10**6) else {cols}
    R.rows, R.cols = rows, cols

    # ---------------------------------------------------------------- cells
    cells, cover, idx = {}, {}, []
    R.hidden = 0
    for (p, on, du, ve), (a, b) in zip(notes, frames):
        if onset_only:
            e = a + 1
        else:
            e = max(a + 1, b - (1 if note_separation else 0))
        r = int(p) + shift
        idx.append((r, a, e, int(p)))
        if not 0 <= r < rows:
            R.hidden += 1
            continue
        v = 1 if (ve is None or binary) else int(ve)
        for j in range(a, e):
            k = (r, j)
            cover[k] = cover.get(k, 0) + 1
            if cells.get(k, 0) < v:
                cells[k] = v
    R.cells, R.cover, R.idx = cells, cover, idx
    return R


def fold(cells, cols, binary=False, normalize=False, how="sum"):
    """Octave fold of a 128-row roll given as {(row, col): value}; exact Fractions."""
    out = [[Fraction(0)] * cols for _ in range(12)]
    for (r, c), v in cells.items():
        if 0 <= c < cols:
            if how == "sum":
                out[r % 12][c] += v
            else:
                out[r % 12][c] = max(out[r % 12][c], Fraction(v))
    if binary:
        out = [[Fraction(1) if v > 0 else Fraction(0) for v in row] for row in out]
    if normalize:
        for c in range(cols):
            s = sum(out[r][c] for r in range(12))
            if s != 0:
                for r in range(12):
                    out[r][c] /= s
    return out


def decode(dense, init_pitch=0):
    """Run-length decoding of an integer roll (list of rows): every maximal run of
    one non-zero value in a row is a note (pitch, on, off, value).  Returns
    (notes, touching) where touching says two runs of a row are adjacent."""
    notes, touching = [], False
    for r, row in enumerate(dense):
        j, n = 0, len(row)
        while j < n:
            v = row[j]
            if v == 0:
                j += 1
                continue
            k = j
            while k < n and row[k] == v:
                k += 1
            notes.append((r + init_pitch, j, k, int(v)))
            if k < n and row[k] != 0:
                touching = True
            j = k
    return notes, touching
