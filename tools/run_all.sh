#!/bin/sh
# tools/run_all.sh [tier] [seed]  — runs every registered check (or $PROPS) once and prints one line per check
TIER=${1:-quick}; SEED=${2:-0}
cd "$(dirname "$0")/.."
LOGDIR=${LOGDIR:-/tmp}
PROPS=${PROPS:-$(python3 -c "import json;print(' '.join(c['property_id'] for c in json.load(open('MANIFEST.json'))['checks']))")}
for p in $PROPS; do
  VERIF_SEED=$SEED ./check $p --tier $TIER > $LOGDIR/runall_$p.log 2>&1; rc=$?
  echo "$p exit=$rc $(grep -c '^VIOLATION' $LOGDIR/runall_$p.log) viol $(grep -c '^KNOWN-FINDING' $LOGDIR/runall_$p.log) known :: $(tail -1 $LOGDIR/runall_$p.log | cut -c1-150)"
done
