"""Generic deep snapshot of an object graph (Part / Score / PerformedPart / ...).

snap(root) -> Snapshot with
    .records   list of (class name, encoded attribute dict) in discovery order,
               references rendered as discovery ordinals
    .ids       list of id(obj) in the same order (identity: "same objects")

Two snapshots of the same argument taken before and after a read-only call must
be equal in both; a snapshot of a deep copy must be equal in .records only.

Excluded because unobservable through the API:
  * empty per-class buckets that a read-only defaultdict lookup creates in
    TimePoint.starting_objects / ending_objects;
  * the identity of cached function objects (scipy interp1d instances are
    compared by their tables, plain functions by qualified name).
"""
import collections
import hashlib
from fractions import Fraction

import numpy as np

ATOMS = (bool, int, float, str, bytes, type(None), complex)


class Snapshot:
    __slots__ = ("records", "ids")

    def __init__(self, records, ids):
        self.records = records
        self.ids = ids

    def __eq__(self, other):
        return self.records == other.records and self.ids == other.ids

    def same_structure(self, other):
        return self.records == other.records

    def __len__(self):
        return len(self.records)


def snap(root, mask=(), skip_attrs=(), drop_classes=()):
    """mask: attribute names whose values are replaced by '*' (on every object);
    skip_attrs: attribute names left out entirely."""
    memo = {}
    order = []
    records = []
    mask = set(mask)
    skip_attrs = set(skip_attrs)
    drop_classes = set(drop_classes)     # class names whose instances (and class-keyed buckets) are left out

    def ref(o):
        k = id(o)
        if k not in memo:
            memo[k] = len(order)
            order.append(o)
        return ("ref", memo[k])

    def enc(x):
        if isinstance(x, ATOMS):
            if isinstance(x, float):
                return ("f", repr(x))
            return x
        if isinstance(x, np.generic):
            return ("np", str(x.dtype), repr(x.item()))
        if isinstance(x, Fraction):
            return ("frac", str(x))
        if isinstance(x, np.ndarray):
            if x.dtype == object:
                return ("ndobj", [enc(e) for e in x.ravel().tolist()])
            return ("nd", str(x.dtype), x.shape, hashlib.sha1(np.ascontiguousarray(x).tobytes()).hexdigest()[:16])
        if isinstance(x, (list, tuple)):
            return (type(x).__name__, [enc(e) for e in x])
        if isinstance(x, dict):
            items = []
            drop_empty = isinstance(x, collections.defaultdict)
            for k, v in x.items():
                if drop_empty and hasattr(v, "__len__") and len(v) == 0:
                    continue
                if drop_classes and ((isinstance(k, type) and k.__name__ in drop_classes) or type(k).__name__ in drop_classes):
                    continue
                items.append((enc(k), enc(v)))
            return (type(x).__name__, items)
        if isinstance(x, (set, frozenset)):
            return ("set", sorted((enc(e) for e in x), key=repr))
        if isinstance(x, type):
            return ("class", x.__module__ + "." + x.__qualname__)
        if callable(x) and not hasattr(x, "__dict__") or type(x).__name__ in ("function", "builtin_function_or_method", "method"):
            return ("fn", getattr(x, "__qualname__", repr(type(x))))
        if type(x).__name__ == "interp1d" and hasattr(x, "x") and hasattr(x, "y"):
            return ("interp1d", enc(np.asarray(x.x)), enc(np.asarray(x.y)), getattr(x, "_kind", None))
        if hasattr(x, "__dict__") or hasattr(x, "__slots__"):
            if drop_classes and type(x).__name__ in drop_classes:
                return ("dropped", type(x).__name__)
            return ref(x)
        return ("repr", repr(x))

    ref(root) if not isinstance(root, (list, tuple, dict)) else None
    top = None
    if isinstance(root, (list, tuple, dict)):
        top = enc(root)
    i = 0
    while i < len(order):
        o = order[i]
        i += 1
        d = {}
        if hasattr(o, "__dict__"):
            src = vars(o)
        else:
            src = {s: getattr(o, s) for s in getattr(o, "__slots__", ()) if hasattr(o, s)}
        for k, v in src.items():
            if k in skip_attrs:
                continue
            d[k] = "*" if k in mask else enc(v)
        records.append((type(o).__name__, d))
    if top is not None:
        records.insert(0, ("<root>", {"value": top}))
    return Snapshot(records, [id(o) for o in order])


def diff(a, b, limit=6):
    """Human-readable first differences between two snapshots."""
    out = []
    if len(a.records) != len(b.records):
        out.append(f"object count {len(a.records)} -> {len(b.records)}")
    for i, (ra, rb) in enumerate(zip(a.records, b.records)):
        if ra == rb:
            continue
        if ra[0] != rb[0]:
            out.append(f"#{i}: class {ra[0]} -> {rb[0]}")
        else:
            for k in sorted(set(ra[1]) | set(rb[1])):
                va, vb = ra[1].get(k, "<absent>"), rb[1].get(k, "<absent>")
                if va != vb:
                    out.append(f"#{i} {ra[0]}.{k}: {str(va)[:120]} -> {str(vb)[:120]}")
                    if len(out) >= limit:
                        return out
        if len(out) >= limit:
            return out
    if not out and a.ids != b.ids:
        out.append("object identities differ")
    return out
