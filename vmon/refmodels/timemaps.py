"""Exact (Fraction) reference for Part.quarter_map / beat_map and their inverses (C02).

describe(part) reads the registered objects directly (time points' buckets and
the public quarter_durations() table); Model integrates d/q quarters and
(d/q)*(beat_type/4)[*musical_beats/beats] beats over maximal constant stretches.
"""
import bisect
from fractions import Fraction


def objects_of(part, cls, exact=True):
    out = []
    for tp in part._points:
        for c, objs in tp.starting_objects.items():
            if (c is cls) if exact else issubclass(c, cls):
                out.extend(objs)
    return out


def describe(part):
    import partitura.score as S
    pts = part._points
    d = {"n_points": len(pts)}
    if len(pts) == 0:
        return d
    d["first"], d["last"] = int(pts[0].t), int(pts[-1].t)
    d["q"] = [(int(t), int(q)) for t, q in part.quarter_durations()]
    tss = objects_of(part, S.TimeSignature)
    d["ts"] = sorted((int(ts.start.t), int(ts.beats), int(ts.beat_type), int(ts.musical_beats)) for ts in tss)
    times = [x[0] for x in d["ts"]]
    d["ts_dup"] = len(times) != len(set(times))
    ms = [m for m in pts[0].starting_objects.get(S.Measure, ())]
    d["first_measures"] = [(int(m.start.t), int(m.end.t) if m.end is not None else None) for m in ms]
    d["ts_at_first"] = any(t == d["first"] for t in times)
    return d


class Model:
    def __init__(self, d, musical=False):
        self.d = d
        self.first, self.last = d["first"], d["last"]
        self.musical = musical
        q = dict(d["q"])
        ts = {t: (b, bt, mb) for t, b, bt, mb in d["ts"]}
        keys = sorted(set(q) | set(ts) | {self.first, self.last})
        # constant stretches: breakpoints with the values in force from there on
        self.bp = []
        cur_q = None
        cur_ts = None
        qkeys = sorted(q)
        for k in keys:
            # divisions in force at k: latest change <= k (the table always starts at 0)
            i = bisect.bisect_right(qkeys, k) - 1
            cur_q = q[qkeys[max(i, 0)]]
            if k in ts:
                cur_ts = ts[k]
            self.bp.append((k, cur_q, cur_ts))
        self.origin_q, self.origin_b = self._origin()

    def _rates(self, q, ts):
        rq = Fraction(1, q)
        if ts is None:
            rb = rq                       # no signature in force yet: the beat is the quarter (4/4 default)
        else:
            b, bt, mb = ts
            rb = rq * Fraction(bt, 4)
            if self.musical:
                rb = rb * Fraction(mb, b)
        return rq, rb

    def _integrate(self, t):
        """(quarters, beats) from the first point to t (first <= t)."""
        accq = accb = Fraction(0)
        for i, (k, q, ts) in enumerate(self.bp):
            if k >= t:
                break
            nxt = self.bp[i + 1][0] if i + 1 < len(self.bp) else t
            if k < self.first:
                lo = self.first
                if nxt <= lo:
                    continue
            else:
                lo = k
            hi = min(nxt, t)
            if hi <= lo:
                continue
            rq, rb = self._rates(q, ts)
            accq += (hi - lo) * rq
            accb += (hi - lo) * rb
        return accq, accb

    def _origin(self):
        """Shift applied when the part opens with a pickup measure. Returns (shift_q, shift_b);
        None components mean 'the statement does not fix the origin here' (only differences judged)."""
        d = self.d
        fm = d["first_measures"]
        if not fm:
            return Fraction(0), Fraction(0)
        if len(fm) > 1 or fm[0][1] is None or d["ts_dup"]:
            return None, None
        if not d["ts_at_first"]:
            return None, None            # a first measure without its signature at the start: origin not fixed by the statement
        m0, m1 = fm[0]
        if any(m0 < t < m1 for t, *_ in d["ts"]):
            return None, None            # signature change inside the first measure: 'full bar' is undefined
        b, bt, mb = next((b, bt, mb) for t, b, bt, mb in d["ts"] if t == self.first)
        dq, db = self._integrate(m1)
        full_q = Fraction(4 * b, bt)
        if dq < full_q:
            return dq, db
        return Fraction(0), Fraction(0)

    def quarter(self, t):
        return self._integrate(t)[0]

    def beat(self, t):
        return self._integrate(t)[1]

    def divisions(self, t):
        qk = sorted(dict(self.d["q"]))
        i = bisect.bisect_right(qk, t) - 1
        return dict(self.d["q"])[qk[max(i, 0)]]

    def change_points(self):
        return sorted({k for k, _, _ in self.bp if self.first <= k <= self.last})
