"""Reference models for C18, written from the property statement.

* expected_pairs      the alignment's matches whose ids exist in both score and performance
* order_ok            "ordered by score onset then pitch" (equal keys: any order)
* timemap_knots       exact (Fraction) knots of the time maps: score onset -> mean performed onset of the matched
                      notes written at that onset
* roundtrip_failures  "performed onset up to one common shift, performed duration, velocity"
* reference_decode    a decoder of the documented parameter meaning (beat period = seconds per beat from one score
                      onset to the next, timing = equivalent onset - performed onset, articulation_log =
                      log2(performed duration / (beat period * notated duration))) used only to *name* the side at
                      fault (encoder or decoder) when the round trip fails
"""
import math
from fractions import Fraction

FLOOR = 0.0                      # (was 60/200*0.25: the codec raised shorter durations to that value, a hack for negative durations; repaired, every positive duration is judged)


def index_ids(ids):
    out = {}
    for i, x in enumerate(ids):
        out.setdefault(str(x), []).append(i)
    return out


def expected_pairs(s_ids, p_ids, alignment):
    """[(score id, performance id)] in alignment order, plus 'the ids are unique on both sides'."""
    s_index, p_index = index_ids(s_ids), index_ids(p_ids)
    pairs = []
    for a in alignment:
        if a.get("label") != "match":
            continue
        sid, pid = str(a.get("score_id")), str(a.get("performance_id"))
        if sid in s_index and pid in p_index:
            pairs.append((sid, pid))
    unique = (all(len(v) == 1 for v in s_index.values()) and all(len(v) == 1 for v in p_index.values())
              and len({s for s, _ in pairs}) == len(pairs) and len({p for _, p in pairs}) == len(pairs))
    return pairs, unique, s_index, p_index


def order_ok(keys):
    """keys = [(score onset, pitch)] in table order."""
    return all(a <= b for a, b in zip(keys, keys[1:]))


def timemap_knots(s_on, s_dur, p_on, idx_pairs, remove_ornaments):
    """s_on/s_dur/p_on: sequences of floats (the note arrays' columns); idx_pairs: [(score index, perf index)].
    Returns [(score onset, mean performed onset)] as Fractions sorted by score onset, and the number of score onsets
    that carry only ornaments (dropped when remove_ornaments)."""
    groups, seen = {}, set()
    for si, pi in idx_pairs:
        u = Fraction(float(s_on[si]))
        seen.add(u)
        if remove_ornaments and not float(s_dur[si]) > 0:
            continue
        groups.setdefault(u, []).append(Fraction(float(p_on[pi])))
    knots = sorted((u, sum(v) / len(v)) for u, v in groups.items())
    return knots, len(seen) - len(groups)


def roundtrip_failures(truth, decoded, tol, dur_tol=None):
    """truth / decoded: {score id: (onset, duration, velocity)}.  -> [(component, score id, got, want)]
    tol: seconds, for onsets (after the common shift) and durations; dur_tol: optional {score id: seconds}."""
    fails = []
    ids = [s for s in truth if s in decoded]
    for s in truth:
        if s not in decoded:
            fails.append(("missing", s, None, truth[s]))
    if not ids:
        return fails
    d = {}
    for s in ids:
        x = decoded[s][0] - truth[s][0]
        if not math.isfinite(x):
            fails.append(("onset", s, decoded[s][0], truth[s][0]))
        else:
            d[s] = x
    if d:
        lo, hi = min(d.values()), max(d.values())
        if hi - lo > 2 * tol:                     # no single shift brings every onset within tol
            med = sorted(d.values())[len(d) // 2]
            worst = sorted(d, key=lambda s: -abs(d[s] - med))
            for s in worst[:5]:
                if abs(d[s] - med) > tol:
                    fails.append(("onset", s, decoded[s][0] - med, truth[s][0]))
            if not any(f[0] == "onset" for f in fails):
                s = worst[0]
                fails.append(("onset", s, decoded[s][0] - med, truth[s][0]))
    for s in ids:
        got, want = decoded[s][1], truth[s][1]
        if want is not None and not (math.isfinite(got) and abs(got - want) <= (dur_tol.get(s, tol) if dur_tol else tol)):
            fails.append(("duration", s, got, want))
        if decoded[s][2] != truth[s][2]:
            fails.append(("velocity", s, decoded[s][2], truth[s][2]))
    return fails


def rescale_beat_period(norm, row):
    """Beat period from the normalisation's own columns (row: dict field -> float)."""
    if norm == "beat_period":
        return row["beat_period"]
    if norm == "beat_period_log":
        return 2.0 ** row["beat_period_log"]
    if norm == "beat_period_ratio":
        return row["beat_period_ratio"] * row["beat_period_mean"]
    if norm == "beat_period_ratio_log":
        return 2.0 ** row["beat_period_ratio_log"] * row["beat_period_mean"]
    if norm == "beat_period_standardized":
        return row["beat_period_standardized"] * row["beat_period_std"] + row["beat_period_mean"]
    raise KeyError(norm)


PARAM_NAMES = {
    "beat_period": (),
    "beat_period_log": ("beat_period_log",),
    "beat_period_ratio": ("beat_period_ratio", "beat_period_mean"),
    "beat_period_ratio_log": ("beat_period_ratio_log", "beat_period_mean"),
    "beat_period_standardized": ("beat_period_standardized", "beat_period_mean", "beat_period_std"),
}
BASE_FIELDS = ("beat_period", "velocity", "timing", "articulation_log")


def reference_decode(norm, rows, score):
    """rows: [dict of parameter fields] in table order; score: [(score onset beats, notated duration beats)] in the
    same order.  -> [(onset, duration, velocity)] (onsets up to a shift).  Grace notes (notated duration 0) have no
    documented duration parameter: duration None."""
    groups = {}
    for k, (on, _) in enumerate(score):
        groups.setdefault(round(on * 1e5), []).append(k)
    keys = sorted(groups)
    u = [sum(score[k][0] for k in groups[g]) / len(groups[g]) for g in keys]
    bp = []
    for g in keys:
        vals = [rescale_beat_period(norm, rows[k]) for k in groups[g]]
        bp.append(sum(vals) / len(vals))
    eq = [0.0]
    for i in range(len(keys) - 1):
        eq.append(eq[-1] + bp[i] * (u[i + 1] - u[i]))
    out = [None] * len(score)
    for i, g in enumerate(keys):
        for k in groups[g]:
            sd = score[k][1]
            dur = (2.0 ** rows[k]["articulation_log"]) * sd * bp[i] if sd > 0 else None
            out[k] = (eq[i] - rows[k]["timing"], dur, int(round(rows[k]["velocity"] * 127)))
    return out
