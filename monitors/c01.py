"""C01 — a Part is a consistent time-ordered collection under any edit history.

Lock-step reference model (vmon/refmodels/timeline.py) driven from hooks on the
real Part mutators; after every outermost mutator returns, the real timeline is
compared with the model; after every operation a batch of queries is compared
with the model as multiset equality + non-decreasing time.
"""
import collections

import numpy as np

from vmon import core
from vmon.refmodels.timeline import TimelineModel

PROP = "C01"
RULE = ("seeded edit histories (20-200 ops) of add(start|end|both), remove(start|end|both), set_quarter_duration, "
        "get_or_add_point over times mostly in 0..11 (first/last point hit constantly) with objects from the whole "
        "TimedObject hierarchy, queries after every op; non-trivial = removed >= 1 time point, changed >= 1 quarter "
        "duration and held >= 4 points at once; distinct by op-sequence digest")
ASSUMPTIONS = ["iter_all interval is half-open [start, end) as all library callers assume",
               "order of objects inside one time point is not judged (statement promises time order only)",
               "a point handed out by get_or_add_point is 'pending' (may be empty) until an object is removed from it",
               "a set_quarter_duration redundant with the preceding segment may or may not become an explicit change (both accepted)"]
MIN_HOOKS = {"Part.add": {"quick": 10000, "thorough": 300000}, "Part.remove": {"quick": 5000, "thorough": 80000},
             "Part.set_quarter_duration": {"quick": 1000, "thorough": 20000}, "invariant": {"quick": 15000, "thorough": 300000}}
MIN_NONTRIVIAL = {"quick": 400, "thorough": 8000}

MODELS = {}          # id(part) -> TimelineModel   (parts driven by this workload)
_depth = 0
_installed = False


# ---------------------------------------------------------------- invariants
def structural(ctx, part, where):
    """Model-free part of the invariant: what the Part API alone is responsible for."""
    pts = list(part._points)
    ts = [p.t for p in pts]
    ctx.check(3)
    if any(t < 0 for t in ts):
        ctx.violation("negative-time-point", f"{where}: times {ts}", {"times": ts})
        return False
    if any(b <= a for a, b in zip(ts, ts[1:])):
        ctx.violation("points-not-strictly-increasing", f"{where}: times {ts}", {"times": ts})
        return False
    for i, p in enumerate(pts):
        want_prev = pts[i - 1] if i > 0 else None
        want_next = pts[i + 1] if i + 1 < len(pts) else None
        if p.prev is not want_prev:
            pos = "first" if i == 0 else ("last" if i == len(pts) - 1 else "interior")
            ctx.violation(f"stale-prev-link-{pos}-point", f"{where}: point t={p.t} prev is "
                          f"{getattr(p.prev, 't', None)} expected {getattr(want_prev, 't', None)}", {"times": ts, "index": i})
            return False
        if p.next is not want_next:
            pos = "first" if i == 0 else ("last" if i == len(pts) - 1 else "interior")
            ctx.violation(f"stale-next-link-{pos}-point", f"{where}: point t={p.t} next is "
                          f"{getattr(p.next, 't', None)} expected {getattr(want_next, 't', None)}", {"times": ts, "index": i})
            return False
        for cls, objs in p.starting_objects.items():
            for o in objs:
                if o.start is not p:
                    ctx.violation("listed-object-start-not-this-point", f"{where}: {type(o).__name__} listed as starting at "
                                  f"t={p.t} has start {getattr(o.start, 't', None)}", None)
                    return False
                if type(o) is not cls:
                    ctx.violation("object-listed-under-wrong-class", f"{where}: {type(o).__name__} under {cls.__name__}", None)
                    return False
        for cls, objs in p.ending_objects.items():
            for o in objs:
                if o.end is not p:
                    ctx.violation("listed-object-end-not-this-point", f"{where}: {type(o).__name__} listed as ending at "
                                  f"t={p.t} has end {getattr(o.end, 't', None)}", None)
                    return False
    return True


def qfunction_real(part, positions):
    qm = part.quarter_duration_map
    vals = [int(v) for v in np.asarray(qm(np.asarray(positions))).tolist()]
    # scalar calls agree with the vector call (sampled)
    for t in positions[:: max(1, len(positions) // 5)]:
        if int(qm(t)) != vals[positions.index(t)]:
            return None
    return vals


def positions_for(part, model, ts):
    """All integer positions up to last+2 when that is small; otherwise every
    breakpoint of any table involved and its neighbours (a step function is
    decided by its values there)."""
    last = ts[-1] if ts else 0
    keys = set()
    for tab in model.qcands:
        keys.update(tab)
    keys.update(int(x) for x in part._quarter_times)
    top = max([last] + list(keys)) + 2
    if top <= 64:
        return list(range(top + 1))
    pos = {0, last, last + 1, last + 2}
    pos.update(ts)
    for k in keys:
        pos.update((k - 1, k, k + 1))
    pos.update(range(0, 14))
    return sorted(x for x in pos if x >= 0)


def compare_with_model(ctx, part, model, where):
    ctx.hook("invariant")
    if not structural(ctx, part, where):
        return False
    pts = list(part._points)
    ts = [p.t for p in pts]
    want = model.times()
    ctx.check()
    if ts != want:
        empty = [p.t for p in pts if sum(len(v) for v in p.starting_objects.values()) + sum(len(v) for v in p.ending_objects.values()) == 0]
        if set(ts) - set(want) and set(ts) - set(want) <= set(empty):
            ctx.violation("empty-time-point-left", f"{where}: points {ts}, expected {want}", {"real": ts, "model": want})
        elif set(want) - set(ts):
            ctx.violation("time-point-missing", f"{where}: points {ts}, expected {want}", {"real": ts, "model": want})
        else:
            ctx.violation("time-points-differ", f"{where}: points {ts}, expected {want}", {"real": ts, "model": want})
        return False
    # every model object registered exactly where the model says; nothing else listed
    listed_s = collections.Counter()
    listed_e = collections.Counter()
    for p in pts:
        for objs in p.starting_objects.values():
            for o in objs:
                listed_s[(id(o), p.t)] += 1
        for objs in p.ending_objects.values():
            for o in objs:
                listed_e[(id(o), p.t)] += 1
    exp_s = collections.Counter()
    exp_e = collections.Counter()
    for o, s, e in model.reg.values():
        if s is not None:
            exp_s[(id(o), s)] += 1
        if e is not None:
            exp_e[(id(o), e)] += 1
        ctx.check(2)
        if (o.start.t if o.start is not None else None) != s:
            ctx.violation("object-start-stale", f"{where}: {type(o).__name__}.start is {getattr(o.start, 't', None)}, model {s}", None)
            return False
        if (o.end.t if o.end is not None else None) != e:
            ctx.violation("object-end-stale", f"{where}: {type(o).__name__}.end is {getattr(o.end, 't', None)}, model {e}", None)
            return False
        if s is not None and o.start is not part.get_point(s):
            ctx.violation("object-start-not-the-listed-point", f"{where}: {type(o).__name__} start object is not the part's point {s}", None)
            return False
        if e is not None and o.end is not part.get_point(e):
            ctx.violation("object-end-not-the-listed-point", f"{where}: {type(o).__name__} end object is not the part's point {e}", None)
            return False
    ctx.check(2)
    if listed_s != exp_s:
        ctx.violation("starting-registrations-differ", f"{where}: {sum(listed_s.values())} listed, {sum(exp_s.values())} expected", None)
        return False
    if listed_e != exp_e:
        ctx.violation("ending-registrations-differ", f"{where}: {sum(listed_e.values())} listed, {sum(exp_e.values())} expected", None)
        return False
    # quarter durations
    positions = positions_for(part, model, ts)
    real = qfunction_real(part, positions)
    ctx.check()
    if real is None:
        ctx.violation("quarter-duration-map-scalar-vector-disagree", f"{where}", None)
        return False
    ok = [tab for tab in model.qcands if [model.q_of(tab, t) for t in positions] == real
          and all(p.quarter == model.q_of(tab, p.t) for p in pts)]
    if len(model.qcands) > 1:
        ctx.extra["checks_with_several_admissible_quarter_tables"] += 1
    if not ok:
        if model.q_ambiguous:
            ctx.ambiguous()
        else:
            tab = model.qcands[0]
            exp = [model.q_of(tab, t) for t in positions]
            if exp == real:
                bad = [(p.t, p.quarter, model.q_of(tab, p.t)) for p in pts if p.quarter != model.q_of(tab, p.t)]
                ctx.violation("point-quarter-stale", f"{where}: (t, point.quarter, in force) {bad[:4]}", {"table": sorted(tab.items())})
            else:
                ctx.violation("quarter-duration-map-wrong", f"{where}: map {real[:16]} expected {exp[:16]} at {positions[:16]} (table {sorted(tab.items())})",
                              {"table": sorted(tab.items()), "real": real})
            return False
    else:
        model.qcands = ok
        # quarter_durations() must denote the same step function
        qd = np.asarray(part.quarter_durations())
        ctx.check()
        tq = {int(r[0]): int(r[1]) for r in qd}
        if sorted(tq) != sorted(set(tq)) or list(qd[:, 0]) != sorted(qd[:, 0]) or \
                [TimelineModel.q_of(tq, t) for t in positions] != real:
            ctx.violation("quarter_durations-table-wrong", f"{where}: table {qd.tolist()} vs map {real}", None)
            return False
    return True


# ---------------------------------------------------------------- hooks
def install(ctx):
    global _installed
    core.set_current(ctx)
    if _installed:
        return
    _installed = True
    import partitura.score as S

    def make(name, apply):
        def pre(*a, **k):
            global _depth
            _depth += 1
            return None

        def post(ret, exc, token, a, k):
            global _depth
            _depth -= 1
            if _depth or exc is not None:
                return
            part = a[0]
            c = core.CURRENT
            model = MODELS.get(id(part))
            if model is not None:
                apply(model, a, k)
                model.last_ok = compare_with_model(c, part, model, f"after {name}")
            elif getattr(c, "structural_everywhere", False):
                c.hook("invariant-structural")
                structural(c, part, f"after {name}")

        h = core.Hook(S.Part, name, pre=pre, post=post, ctx=ctx, label=f"Part.{name}")
        # the generic Hook guards re-entrancy per hook; nesting across hooks is handled by _depth
        return h

    def ap_add(m, a, k):
        o = a[1] if len(a) > 1 else k["o"]
        start = a[2] if len(a) > 2 else k.get("start")
        end = a[3] if len(a) > 3 else k.get("end")
        m.add(o, start, end)

    def ap_remove(m, a, k):
        o = a[1] if len(a) > 1 else k["o"]
        which = a[2] if len(a) > 2 else k.get("which", "both")
        m.remove(o, which)

    def ap_setq(m, a, k):
        t = a[1] if len(a) > 1 else k["t"]
        q = a[2] if len(a) > 2 else k["quarter"]
        m.set_quarter(t, q)

    def ap_goap(m, a, k):
        t = a[1] if len(a) > 1 else k["t"]
        m.get_or_add_point(t)

    make("add", ap_add)
    make("remove", ap_remove)
    make("set_quarter_duration", ap_setq)
    make("get_or_add_point", ap_goap)


def setup(ctx):
    install(ctx)


# ---------------------------------------------------------------- object pool
_USER_CLASSES = {}


def user_class(base, r):
    """A class the user derives from one of the library's timed classes - defined now, that is: after queries through its
    ancestors have already run in this process (a new one every few calls)."""
    k = _USER_CLASSES.get(base)
    if k is None or r.random() < 0.3:
        k = type(f"User{base.__name__}{len(_USER_CLASSES)}_{r.randrange(10**6)}", (base,), {})
        _USER_CLASSES[base] = k
    return k


def object_factories():
    import partitura.score as S
    return [
        ("UserNote", lambda r: user_class(S.Note, r)(r.choice("CDEFGAB"), r.randint(1, 7), None, id=f"u{r.randrange(10**6)}")),
        ("UserDirection", lambda r: user_class(S.ConstantLoudnessDirection, r)("mf")),
        ("Note", lambda r: S.Note(r.choice("CDEFGAB"), r.randint(1, 7), r.choice([None, 0, 1, -1]), id=f"n{r.randrange(10**6)}")),
        ("GraceNote", lambda r: S.GraceNote("grace", r.choice("CDEFGAB"), 4)),
        ("Rest", lambda r: S.Rest()),
        ("UnpitchedNote", lambda r: S.UnpitchedNote("E", 4)),
        ("Measure", lambda r: S.Measure(number=r.randint(1, 9))),
        ("TimeSignature", lambda r: S.TimeSignature(r.choice([2, 3, 4, 6]), r.choice([4, 8]))),
        ("KeySignature", lambda r: S.KeySignature(r.randint(-7, 7), r.choice(["major", "minor", None]))),
        ("Clef", lambda r: S.Clef(1, "G", 2, 0)),
        ("Slur", lambda r: S.Slur()),
        ("Tuplet", lambda r: S.Tuplet()),
        ("Repeat", lambda r: S.Repeat()),
        ("Ending", lambda r: S.Ending(r.randint(1, 3))),
        ("Fermata", lambda r: S.Fermata()),
        ("Tempo", lambda r: S.Tempo(r.choice([60, 90, 120]))),
        ("Words", lambda r: S.Words("dolce")),
        ("Barline", lambda r: S.Barline("light-heavy")),
        ("Page", lambda r: S.Page(1)),
        ("System", lambda r: S.System(1)),
        ("DaCapo", lambda r: S.DaCapo()),
        ("Fine", lambda r: S.Fine()),
        ("Segno", lambda r: S.Segno()),
        ("Coda", lambda r: S.Coda()),
        ("ToCoda", lambda r: S.ToCoda()),
        ("DalSegno", lambda r: S.DalSegno()),
        ("Staff", lambda r: S.Staff(1)),
        ("Transposition", lambda r: S.Transposition(0, 0)),
        ("OctaveShiftDirection", lambda r: S.OctaveShiftDirection("down")),
        ("Harmony", lambda r: S.Harmony("I")),
        ("ChordSymbol", lambda r: S.ChordSymbol("C", "major")),
        ("Phrase", lambda r: S.Phrase()),
        ("Direction", lambda r: S.Direction("x")),
        ("ConstantLoudnessDirection", lambda r: S.ConstantLoudnessDirection("f")),
        ("IncreasingLoudnessDirection", lambda r: S.IncreasingLoudnessDirection("cresc.")),
        ("DecreasingLoudnessDirection", lambda r: S.DecreasingLoudnessDirection("dim.")),
        ("DecreasingTempoDirection", lambda r: S.DecreasingTempoDirection("rit.")),
        ("IncreasingTempoDirection", lambda r: S.IncreasingTempoDirection("accel.")),
        ("ConstantTempoDirection", lambda r: S.ConstantTempoDirection("adagio")),
        ("ResetTempoDirection", lambda r: S.ResetTempoDirection("a tempo")),
        ("ImpulsiveLoudnessDirection", lambda r: S.ImpulsiveLoudnessDirection("sfz")),
        ("ConstantArticulationDirection", lambda r: S.ConstantArticulationDirection("legato")),
        ("SustainPedalDirection", lambda r: S.SustainPedalDirection()),
        ("DynamicLoudnessDirection", lambda r: S.DynamicLoudnessDirection("x")),
    ]


def query_classes():
    import partitura.score as S
    return [S.Note, S.GenericNote, S.TimedObject, S.Rest, S.Measure, S.TimeSignature, S.Direction, S.LoudnessDirection,
            S.TempoDirection, S.ConstantDirection, S.DynamicDirection, S.DynamicLoudnessDirection, S.Harmony, S.GraceNote,
            S.Slur, S.KeySignature, S.Words, S.Repeat, S.ConstantLoudnessDirection, S.ImpulsiveDirection, S.PedalDirection]


# ---------------------------------------------------------------- driver
def plan(tier, seed):
    n = 16 * 90 if tier == "quick" else 16 * 2500
    return [["hist", i] for i in range(n)]


def check_query(ctx, got, exp, what, witness):
    """multiset equality + time order. got: list of objects; exp: list of (time, obj)."""
    ctx.check()
    if collections.Counter(id(o) for o in got) != collections.Counter(id(o) for _, o in exp):
        ctx.violation(f"query-wrong-result:{what.split('(')[0]}", f"{what}: returned {len(got)} objects, expected {len(exp)}", witness)
        return False
    return True


def time_ordered(objs, mode, reverse=False):
    ts = [(o.start.t if mode == "starting" else o.end.t) for o in objs]
    return all((a >= b) if reverse else (a <= b) for a, b in zip(ts, ts[1:]))


def run_queries(ctx, rng, part, model, ops, nq):
    import partitura.score as S
    times = model.times()
    classes = query_classes()
    for _ in range(nq):
        kind = rng.random()
        if kind < 0.55:
            cls = rng.choice(classes)
            inc = rng.random() < 0.6
            mode = rng.choice(["starting", "ending"])
            bounds = []
            for _b in range(2):
                r = rng.random()
                if r < 0.3:
                    bounds.append(None)
                elif r < 0.6 and times:
                    bounds.append(rng.choice(times))
                elif r < 0.7 and times:
                    bounds.append(part.get_point(rng.choice(times)))
                elif r < 0.8 and times:
                    bounds.append(times[-1] + rng.randint(1, 3))
                else:
                    bounds.append(rng.randint(0, 14))
            lo, hi = bounds
            lo_t = lo.t if isinstance(lo, S.TimePoint) else lo
            hi_t = hi.t if isinstance(hi, S.TimePoint) else hi
            got = list(ctx.call(lambda: list(part.iter_all(cls, lo, hi, include_subclasses=inc, mode=mode))))
            exp = model.objects(cls, inc or cls is None, mode, lo_t, hi_t)
            w = {"ops": ops, "query": ["iter_all", getattr(cls, "__name__", None), lo_t, hi_t, inc, mode]}
            if check_query(ctx, got, exp, f"iter_all({getattr(cls, '__name__', None)},{lo_t},{hi_t},inc={inc},{mode})", w):
                ctx.check()
                if not time_ordered(got, mode):
                    ctx.violation("query-not-time-ordered:iter_all", "iter_all result not in time order", w)
            ctx.state(f"q:iter_all:{cls is None}:{lo is None}:{hi is None}:{inc}:{mode}:{min(len(exp), 3)}")
        elif kind < 0.85 and times:
            t = rng.choice(times)
            p = part.get_point(t)
            cls = rng.choice(classes)
            inc = rng.random() < 0.6
            eq = rng.random() < 0.5
            fwd = rng.random() < 0.5
            if fwd:
                got = ctx.call(lambda: list(p.iter_next(cls, eq=eq, include_subclasses=inc)))
                exp = [x for x in model.objects(cls, inc, "starting") if (x[0] >= t if eq else x[0] > t)]
            else:
                got = ctx.call(lambda: list(p.iter_prev(cls, eq=eq, include_subclasses=inc)))
                exp = [x for x in model.objects(cls, inc, "starting") if (x[0] <= t if eq else x[0] < t)]
            name = "iter_next" if fwd else "iter_prev"
            w = {"ops": ops, "query": [name, cls.__name__, t, eq, inc]}
            if check_query(ctx, got, exp, f"{name}({cls.__name__},t={t},eq={eq},inc={inc})", w):
                ctx.check()
                if not time_ordered(got, "starting", reverse=not fwd):
                    ctx.violation(f"query-not-time-ordered:{name}", f"{name} result not in time order", w)
            ctx.state(f"q:{name}:{eq}:{inc}:{min(len(exp), 3)}:{'first' if t == times[0] else 'last' if t == times[-1] else 'mid'}")
        else:
            fp, lp = part.first_point, part.last_point
            ctx.check(2)
            if (fp.t if fp is not None else None) != (times[0] if times else None):
                ctx.violation("first_point-wrong", f"first_point {getattr(fp, 't', None)} expected {times[:1]}", {"ops": ops})
            if (lp.t if lp is not None else None) != (times[-1] if times else None):
                ctx.violation("last_point-wrong", f"last_point {getattr(lp, 't', None)} expected {times[-1:]}", {"ops": ops})
            t = rng.randint(0, 14)
            gp = ctx.call(part.get_point, t)
            ctx.check()
            if (gp is not None) != (t in times) or (gp is not None and gp.t != t):
                ctx.violation("get_point-wrong", f"get_point({t}) -> {getattr(gp, 't', None)}; model times {times}", {"ops": ops})


def run_item(ctx, item):
    import partitura.score as S
    rng = ctx.rng("hist", item[1])
    q0 = rng.choice([1, 2, 4, 12, 480])
    part = S.Part("P", "history", quarter_duration=q0)
    model = TimelineModel(q0)
    model.last_ok = True
    MODELS[id(part)] = model
    facts = object_factories()
    n_ops = rng.randint(20, 200) if rng.random() < 0.8 else rng.randint(5, 20)
    pool = []                 # objects created so far
    ops = [["part", q0]]
    removed_points = 0
    qchanges = 0
    max_points = 0
    hostile = rng.random()
    big_times = rng.random() < 0.15
    use_all_cls = rng.random() < 0.08

    def rtime():
        if big_times and rng.random() < 0.2:
            return rng.choice([100, 480, 960, 10**6, 12345])
        return rng.randint(0, 11)

    try:
        for step in range(n_ops):
            times = model.times()
            r = rng.random()
            reg = list(model.reg.values())
            if r < 0.45 or not pool:
                # add: new object or (re-)registration of an unregistered side
                if pool and rng.random() < 0.35:
                    o = rng.choice(pool)
                    lab = type(o).__name__
                else:
                    lab, f = rng.choice(facts)
                    o = f(rng)
                    pool.append(o)
                cur = model.reg.get(id(o), [o, None, None])
                s = e = None
                mode = rng.choice(["start", "end", "both", "both"])
                if mode in ("start", "both") and cur[1] is None:
                    s = rtime()
                if mode in ("end", "both") and cur[2] is None:
                    e = rtime()
                s_eff = s if s is not None else cur[1]
                e_eff = e if e is not None else cur[2]
                if s_eff is not None and e_eff is not None and s_eff > e_eff:
                    if s is not None and e is not None:
                        s, e = e, s
                    elif s is not None:
                        s = rng.randint(0, e_eff)
                    else:
                        e = s_eff + rng.randint(0, 4)
                if s is None and e is None:
                    continue
                ops.append(["add", lab, pool.index(o), s, e])
                ctx.call(part.add, o, s, e)
                ctx.state(f"add:{'s' if s is not None else ''}{'e' if e is not None else ''}:{s == e}:{min(len(times), 5)}")
            elif r < 0.75 and reg:
                # remove; hostile bias towards whatever sits on the first / last point
                which = rng.choice(["start", "end", "both", "both"])
                if hostile < 0.6 and rng.random() < 0.5 and times:
                    edge = times[0] if rng.random() < 0.5 else times[-1]
                    cands = [x for x in reg if x[1] == edge or x[2] == edge]
                    o = rng.choice(cands)[0] if cands else rng.choice(reg)[0]
                else:
                    o = rng.choice(reg)[0]
                before = len(times)
                cur = model.reg[id(o)]
                pos = []
                for tt in (cur[1], cur[2]):
                    if tt is not None and times:
                        pos.append("only" if len(times) == 1 else "first" if tt == times[0] else "last" if tt == times[-1] else "mid")
                ops.append(["remove", type(o).__name__, pool.index(o), which])
                ctx.call(part.remove, o, which)
                after = len(model.times())
                if after < before:
                    removed_points += before - after
                ctx.state(f"remove:{which}:{'/'.join(pos)}:{before - after}")
            elif r < 0.78 and pool:
                # removing something that is not registered is a no-op
                o = rng.choice(pool)
                if id(o) not in model.reg:
                    ops.append(["remove-unregistered", type(o).__name__, pool.index(o)])
                    ctx.call(part.remove, o, rng.choice(["start", "end", "both"]))
            elif r < 0.9:
                t = rtime() if rng.random() < 0.7 or not times else rng.choice(times)
                tab = model.qcands[0]
                if rng.random() < 0.35:
                    q = TimelineModel.q_of(tab, max(t - 1, 0))       # equal to the previous segment (redundant / replace)
                elif rng.random() < 0.3 and t in tab:
                    q = tab[t]                                        # same value again
                else:
                    q = rng.choice([1, 2, 3, 4, 6, 8, 12, 16, 24, 480])
                before = [TimelineModel.q_of(tab, x) for x in range(13)]
                ops.append(["set_quarter_duration", t, q])
                ctx.call(part.set_quarter_duration, t, q)
                if [TimelineModel.q_of(model.qcands[0], x) for x in range(13)] != before:
                    qchanges += 1
                ctx.state(f"setq:{t in tab}:{'red' if before[min(t, 12)] == q else 'chg'}:{min(len(tab), 4)}")
            elif r < 0.95:
                t = rtime()
                ops.append(["get_or_add_point", t])
                p = ctx.call(part.get_or_add_point, t)
                ctx.check()
                if p.t != t or part.get_point(t) is not p:
                    ctx.violation("get_or_add_point-wrong", f"get_or_add_point({t}) returned t={p.t}", {"ops": ops})
            else:
                # empty the part completely, then it gets refilled by later ops
                if hostile > 0.5:
                    for x in list(model.reg.values()):
                        ops.append(["remove", type(x[0]).__name__, pool.index(x[0]), "both"])
                        before = len(model.times())
                        ctx.call(part.remove, x[0], "both")
                        removed_points += max(0, before - len(model.times()))
                        if not model.last_ok:
                            break
            if not model.last_ok:
                break
            max_points = max(max_points, len(model.times()))
            if rng.random() < 0.5:
                run_queries(ctx, rng, part, model, ops, rng.randint(1, 3))
        if use_all_cls and model.last_ok:
            # bare iter_all() walks every Python class and leaves thousands of empty buckets on
            # every point: done once, as the last step, so that it does not slow the invariant walks
            got = ctx.call(lambda: list(part.iter_all()))
            check_query(ctx, got, model.objects(None, True, "starting"), "iter_all()", {"ops": ops})
            compare_with_model(ctx, part, model, "after bare iter_all()")
    except core.PartituraRaised as pr:
        ctx.raised(pr, {"ops": ops})
    finally:
        MODELS.pop(id(part), None)
    if ctx.violations and ctx.violations[-1]["item"] == ctx.item and ctx.violations[-1].get("witness") is None:
        ctx.violations[-1]["witness"] = {"ops": ops}
    nontrivial = removed_points >= 1 and qchanges >= 1 and max_points >= 4
    ctx.case(core.digest(ops), nontrivial, cls="history",
             sample={"n_ops": len(ops), "ops_head": ops[:12], "removed_points": removed_points, "quarter_changes": qchanges,
                     "max_points": max_points})
    ctx.extra["ops"] += len(ops)
    ctx.extra["points_removed"] += removed_points
