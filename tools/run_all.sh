#!/bin/sh
# tools/run_all.sh [tier] [seed]  — runs every registered check once and prints one line per check
TIER=${1:-quick}; SEED=${2:-0}
cd /verif
for p in $(python3 -c "import json;print(' '.join(c['property_id'] for c in json.load(open('MANIFEST.json'))['checks']))"); do
  VERIF_SEED=$SEED ./check $p --tier $TIER > /tmp/runall_$p.log 2>&1; rc=$?
  echo "$p exit=$rc $(grep -c '^VIOLATION' /tmp/runall_$p.log) viol $(grep -c '^KNOWN-FINDING' /tmp/runall_$p.log) known :: $(tail -1 /tmp/runall_$p.log | cut -c1-150)"
done
