"""Executable reference model of a Part's timeline (C01).

State:
  reg      dict id(obj) -> [obj, start_t|None, end_t|None]   (registered objects)
  pending  set of times created by an explicit get_or_add_point and not yet cleaned up
  qcands   list of candidate quarter-duration tables {t: q}; more than one only
           while the history went through a situation the documentation leaves
           open (a set_quarter_duration that is redundant with the segment before it)
"""
import bisect


class TimelineModel:
    def __init__(self, q0):
        self.reg = {}
        self.order = []            # registration order of objects (for reporting only)
        self.pending = set()
        self.qcands = [{0: q0}]
        self.q_ambiguous = False

    # ------------------------------------------------------------ derived
    def times(self):
        ts = set(self.pending)
        for _, s, e in self.reg.values():
            if s is not None:
                ts.add(s)
            if e is not None:
                ts.add(e)
        return sorted(ts)

    def count_at(self, t):
        return sum((s == t) + (e == t) for _, s, e in self.reg.values())

    @staticmethod
    def q_of(table, t):
        keys = sorted(table)
        i = bisect.bisect_right(keys, t) - 1
        return table[keys[max(i, 0)]]

    # ------------------------------------------------------------ operations
    def add(self, o, start, end):
        r = self.reg.get(id(o))
        if r is None:
            r = self.reg[id(o)] = [o, None, None]
        if start is not None:
            r[1] = start
        if end is not None:
            r[2] = end

    def remove(self, o, which):
        r = self.reg.get(id(o))
        if r is None:
            return
        if which in ("start", "both") and r[1] is not None:
            t = r[1]
            r[1] = None
            if self.count_at(t) == 0:
                self.pending.discard(t)
        if which in ("end", "both") and r[2] is not None:
            t = r[2]
            r[2] = None
            if self.count_at(t) == 0:
                self.pending.discard(t)
        if r[1] is None and r[2] is None:
            del self.reg[id(o)]

    def get_or_add_point(self, t):
        if t not in self.times():
            self.pending.add(t)

    def set_quarter(self, t, q):
        new = []
        for tab in self.qcands:
            keys = sorted(tab)
            i = bisect.bisect_left(keys, t)
            prev_val = tab[keys[i - 1]] if i > 0 else None
            if t in tab:
                a = dict(tab)
                a[t] = q
                new.append(a)
                if prev_val == q:              # replacement became redundant: dropping it denotes the same function
                    b = dict(tab)
                    del b[t]
                    new.append(b)
            elif prev_val == q:
                new.append(dict(tab))          # redundant: the code comment says it is not added ...
                a = dict(tab)
                a[t] = q                       # ... the docstring reads as if it were
                new.append(a)
            else:
                a = dict(tab)
                a[t] = q
                new.append(a)
        uniq = []
        for tab in new:
            if tab not in uniq:
                uniq.append(tab)
        self.qcands = uniq[:32]
        if len(uniq) > 32:
            self.q_ambiguous = True

    # ------------------------------------------------------------ queries
    def objects(self, cls, include_subclasses, mode, lo=None, hi=None):
        """Expected result of iter_all as a list of (time, obj), time-ordered."""
        idx = 1 if mode == "starting" else 2
        out = []
        for r in self.reg.values():
            t = r[idx]
            if t is None:
                continue
            o = r[0]
            if cls is not None:
                if include_subclasses:
                    if not isinstance(o, cls):
                        continue
                elif type(o) is not cls:
                    continue
            if lo is not None and t < lo:
                continue
            if hi is not None and t >= hi:
                continue
            out.append((t, o))
        out.sort(key=lambda x: x[0])
        return out
