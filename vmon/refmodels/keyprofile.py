"""Krumhansl-Schmuckler key correlation, written from the published tables
(nothing imported from partitura).

Used by the C17 monitor ONLY to recognise ambiguous inputs (how far apart the
two best candidates are); the property does not promise a particular key, so
this model is never the oracle for *which* key is returned.

Profiles, index = semitones above the tonic:
  krumhansl_kessler  Krumhansl, Cognitive Foundations of Musical Pitch (1990), p. 30
  temperley (CBMS)   Temperley, Music and Probability (2007), table 6.1
  kostka_payne       ibid.
"""
import math
from fractions import Fraction

PROFILES = {
    "krumhansl_kessler": (
        [6.35, 2.23, 3.48, 2.33, 4.38, 4.09, 2.52, 5.19, 2.39, 3.66, 2.29, 2.88],
        [6.33, 2.68, 3.52, 5.38, 2.60, 3.53, 2.54, 4.75, 3.98, 2.69, 3.34, 3.17],
    ),
    "temperley": (
        [5.0, 2.0, 3.5, 2.0, 4.5, 4.0, 2.0, 4.5, 2.0, 3.5, 1.5, 4.0],
        [5.0, 2.0, 3.5, 4.5, 2.0, 4.0, 2.0, 4.5, 3.5, 2.0, 1.5, 4.0],
    ),
    "kostka_payne": (
        [0.748, 0.060, 0.488, 0.082, 0.670, 0.460, 0.096, 0.715, 0.104, 0.366, 0.057, 0.400],
        [0.712, 0.048, 0.474, 0.618, 0.049, 0.460, 0.105, 0.747, 0.404, 0.067, 0.133, 0.330],
    ),
}
ALIASES = {"kk": "krumhansl_kessler", "ks": "krumhansl_kessler", "tp": "temperley", "cmbs": "temperley",
           "kp": "kostka_payne"}


def histogram(pitches, durations):
    """Exact duration-weighted pitch-class histogram (12 Fractions)."""
    h = [Fraction(0)] * 12
    for p, d in zip(pitches, durations):
        h[int(p) % 12] += Fraction(d)
    return h


def pearson(x, y):
    n = len(x)
    mx, my = math.fsum(x) / n, math.fsum(y) / n
    sxx = math.fsum((a - mx) ** 2 for a in x)
    syy = math.fsum((b - my) ** 2 for b in y)
    if sxx <= 0 or syy <= 0:
        return float("nan")
    return math.fsum((a - mx) * (b - my) for a, b in zip(x, y)) / math.sqrt(sxx * syy)


def correlations(hist, profiles="krumhansl_kessler"):
    """{(tonic pitch class, mode): r} for the 24 keys."""
    maj, mnr = PROFILES[ALIASES.get(profiles, profiles)]
    total = sum(hist)
    h = [float(v / total) if total else 0.0 for v in hist]
    out = {}
    for tonic in range(12):
        for mode, prof in (("major", maj), ("minor", mnr)):
            rotated = [prof[(pc - tonic) % 12] for pc in range(12)]
            out[(tonic, mode)] = pearson(h, rotated)
    return out


def margin(hist, profiles="krumhansl_kessler"):
    """(best key, best r - second best r); margin is NaN for degenerate histograms."""
    c = correlations(hist, profiles)
    if any(math.isnan(v) for v in c.values()):
        return None, float("nan")
    ranked = sorted(c.items(), key=lambda kv: -kv[1])
    return ranked[0][0], ranked[0][1] - ranked[1][1]
