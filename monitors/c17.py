"""C17 — pitch spelling, voice estimation and key estimation are total,
well-formed and pitch-preserving.

Post-condition hooks sit on the REAL `estimate_spelling`, `estimate_voices`,
`estimate_key` and `load_score_midi` (module attributes and every alias inside
the package), so the checks fire on every call — also on the calls the MIDI
importer makes.  The metamorphic relations of the statement (row permutation
for spelling; octave shifts, duration rescaling and transposition for the key)
are evaluated inside the hook by re-invoking the real function on the
transformed input.  `vmon/refmodels/keyprofile.py` only measures how far apart
the two best key candidates are (ambiguity guard); it never decides which key
is right.
"""
import collections
import hashlib
import math
import os
import random
import shutil
import tempfile
import warnings
from fractions import Fraction

import numpy as np

from vmon import core
from vmon.refmodels import keyprofile as KP
from vmon.refmodels import pitch as P

PROP = "C17"
RULE = ("seeded note arrays (workloads/c17_arrays.py): 10 textures (melody, block chords, 2-5 independent voices, random "
        "overlaps, onset clusters, grace-note patterns, all-zero-length, held arpeggios, repeated pitch, overlap chains) x 5 time "
        "units (beat/quarter f4|f8, div/tick i4|i8, sec f4) x 1..400 rows in shuffled/sorted/reversed/by-pitch order, tonal / "
        "chromatic / narrow / range-edge pitch material, exact duplicate rows, extra columns; each array goes to estimate_spelling, "
        "estimate_voices (both modes), estimate_key (three profile sets) and, written as a type-1 MIDI file through mido "
        "(1-3 tracks x 1-4 channels, meta track on/off), to load_score_midi (assign modes 0-5, voice/key estimation on/off); "
        "thorough adds the fixture corpora (midi, musicxml parts) and a PYTHONHASHSEED sweep. A case is one (function, options, "
        "array) call; non-trivial when the array has >= 20 rows and at least two rows share an onset; distinct by digest of "
        "(function, options, array contents)")
ASSUMPTIONS = [
    "sounding pitch of a spelling = 12*(octave+1) + natural(step) + alter (vmon/refmodels/pitch.py)",
    "valid key names = the names of the 30 keys with -7..7 fifths, major or minor (vmon/refmodels/pitch.py)",
    "key relations are judged only when the independent Krumhansl-Schmuckler reference (vmon/refmodels/keyprofile.py) "
    "separates the two best keys by more than 1e-6 (1e-4 when the float duration sums are not exact), scaled by mean/std of the "
    "pitch-class histogram, for the original and for the transformed input",
    "permutation invariance of spelling is judged on the multiset of (onset, duration, pitch, step, alter, octave)",
    "the notes of a MIDI file are read back independently with mido (note_on v>0 ... note_off | note_on v=0 per channel and pitch)",
    "imported scores are compared on sounding notes (notes without tie_prev)",
]
MIN_HOOKS = {"estimate_spelling": {"quick": 800, "thorough": 8000}, "estimate_voices": {"quick": 600, "thorough": 6000},
             "estimate_key": {"quick": 800, "thorough": 8000}, "load_score_midi": {"quick": 200, "thorough": 2000}}
MIN_NONTRIVIAL = {"quick": 1000, "thorough": 10000}
WATCHDOG_S = {"quick": 900, "thorough": 7200}

VALID_KEY_NAMES = set(P.ALL_KEYS.values())
SCORE_UNITS = ("beat", "quarter", "div")
PERF_UNITS = ("sec", "tick")
PROFILE_SETS = ["krumhansl_kessler", "temperley", "kostka_payne"]

_hooks = {}


# ------------------------------------------------------------------ helpers
def time_unit(arr):
    """Which onset/duration columns the documentation says are used: score units
    are preferred over performance units."""
    names = arr.dtype.names or ()
    for u in SCORE_UNITS + PERF_UNITS:
        if "onset_" + u in names and "duration_" + u in names:
            return u
    return None


def is_note_array(x):
    return isinstance(x, np.ndarray) and x.dtype.fields is not None and "pitch" in x.dtype.names and time_unit(x) is not None


def rows_of(arr):
    u = time_unit(arr)
    return list(zip(arr["onset_" + u].tolist(), arr["duration_" + u].tolist(), [int(p) for p in arr["pitch"].tolist()]))


def arr_digest(arr):
    return hashlib.sha1(repr((arr.dtype.descr, rows_of(arr))).encode()).hexdigest()[:16]


def small(arr, limit=40):
    """JSON witness of an array."""
    u = time_unit(arr)
    return {"unit": u, "dtype": str(arr["onset_" + u].dtype), "n": len(arr),
            "rows_onset_duration_pitch": [list(r) for r in rows_of(arr)[:limit]], "truncated": len(arr) > limit}


def has_simultaneity(rows):
    ons = [r[0] for r in rows]
    return len(set(ons)) < len(ons)


def V(key, what, witness=None):
    core.CURRENT.violation(key, what, witness)


def shrink(arr, fails, budget=60):
    """Greedy row removal keeping `fails(sub)` true; returns a smaller array for the witness."""
    cur = arr
    tries = 0
    chunk = max(1, len(cur) // 2)
    while chunk >= 1 and tries < budget and len(cur) > 1:
        i = 0
        progressed = False
        while i < len(cur) and tries < budget and len(cur) > 1:
            cand = np.concatenate([cur[:i], cur[i + chunk:]])
            tries += 1
            ok = False
            if len(cand):
                try:
                    ok = fails(cand)
                except Exception:
                    ok = False
            if ok:
                cur = cand
                progressed = True
            else:
                i += chunk
        if not progressed or chunk > 1:
            chunk //= 2
    return cur



def raise_sig(fn, a, k):
    """(exception type name, innermost partitura frame) of fn(*a, **k), or None."""
    import sys
    try:
        fn(*a, **k)
    except RecursionError:
        return ("RecursionError", "*")
    except Exception as e:  # noqa
        return (type(e).__name__, core.innermost_partitura_frame(sys.exc_info()[2]))
    return None


def guarded(ctx, fn, args, kwargs, witness, arr=None, classify=None):
    """ctx.call with a witness that contains the failing input; for array inputs the
    witness array is shrunk to a few rows that still raise the same way."""
    try:
        return True, ctx.call(fn, *args, **kwargs)
    except core.PartituraRaised as pr:
        tname = type(pr.exc).__name__
        key = f"raise:{tname}@{pr.where}"
        if classify:
            key = classify(pr, key)
        wit = dict(witness)
        if arr is not None and ctx._viol_keys[key] < 3:
            real = getattr(fn, "__wrapped__", fn)
            want = (tname, "*" if tname == "RecursionError" else pr.where)
            sm = shrink(arr, lambda sub: raise_sig(real, (sub,) + tuple(args[1:]), kwargs) == want, budget=120)
            wit["array"] = small(sm)
        wit["exception"] = f"{tname}: {pr.exc}"[:300]
        wit["traceback_tail"] = pr.tb[-700:]
        ctx.violation(key, f"{getattr(fn, '__name__', fn)} raised {tname}: {str(pr.exc)[:200]}", wit)
        return False, None


# ------------------------------------------------------------------ spelling
def check_spelling(arr, ret, real, kwargs):
    ctx = core.CURRENT
    rows = rows_of(arr)
    pitches = [r[2] for r in rows]
    if not pitches or min(pitches) < 21 or max(pitches) > 108:
        ctx.extra["spelling_out_of_domain_input"] += 1
        return
    ctx.check()
    try:
        got = list(zip([str(s) for s in ret["step"].tolist()], [int(a) for a in ret["alter"].tolist()],
                       [int(o) for o in ret["octave"].tolist()]))
    except Exception as e:
        V("spelling-malformed-result", f"result is not a step/alter/octave table: {type(e).__name__}: {e}", small(arr))
        return
    if len(got) != len(rows):
        V("spelling-length", f"{len(rows)} rows in, {len(got)} spellings out", small(arr))
        return
    ctx.check(len(rows))
    for i, ((st, al, oc), p) in enumerate(zip(got, pitches)):
        if st not in P.STEP_NAMES:
            V("spelling-invalid-step", f"row {i}: step {st!r}", {"row": list(rows[i]), "spelling": [st, al, oc], "array": small(arr)})
            break
        if abs(al) > 2:
            V("spelling-alter-beyond-double", f"row {i}: pitch {p} spelled {st}{al:+d} octave {oc}",
              {"row": list(rows[i]), "spelling": [st, al, oc], "array": small(arr)})
            break
        if P.midi(st, al, oc) != p:
            V("spelling-sounds-different-pitch", f"row {i}: pitch {p} spelled {st}{al:+d} octave {oc} = {P.midi(st, al, oc)}",
              {"row": list(rows[i]), "spelling": [st, al, oc], "array": small(arr)})
            break
    ctx.extra["spelled_notes"] += len(rows)
    ctx.extra["spelled_with_accidental"] += sum(1 for g in got if g[1])
    ctx.extra["spelled_double_accidental"] += sum(1 for g in got if abs(g[1]) == 2)
    # ---- the result for a note does not depend on the order of the rows
    if len(rows) < 2:
        return
    u = time_unit(arr)
    rng = random.Random(arr_digest(arr))

    def perm_for(n, which):
        idx = list(range(n))
        if which == 0:
            rng.shuffle(idx)
        elif which == 1:
            idx.reverse()
        else:
            idx.sort(key=lambda i: (-arr["pitch"][i], arr["onset_" + u][i]))
        return idx

    def table(a, r):
        # a note is told from another by what its row says: onset, pitch and (when the array has one) duration
        dur = a["duration_" + u].tolist() if "duration_" + u in a.dtype.names else [0] * len(a)
        return collections.Counter(zip(a["onset_" + u].tolist(), dur, a["pitch"].tolist(), [str(s) for s in r["step"].tolist()],
                                       [int(x) for x in r["alter"].tolist()], [int(x) for x in r["octave"].tolist()]))

    base = table(arr, ret)
    for which in (0, rng.choice([1, 2])):
        idx = perm_for(len(arr), which)
        if idx == list(range(len(arr))):
            continue
        parr = arr[idx].copy()
        ctx.check()
        r2 = real(parr, **kwargs)
        if table(parr, r2) != base:
            def fails(sub):
                j = list(range(len(sub)))
                random.Random(1).shuffle(j)
                return table(sub, real(sub, **kwargs)) != table(sub[j].copy(), real(sub[j].copy(), **kwargs))
            sm = shrink(arr, fails)
            V("spelling-depends-on-row-order", "permuting the rows changes the spelling of some note",
              {"array": small(sm), "permutation": ["shuffle", "reverse", "by-pitch"][which],
               "changed": [list(map(str, k)) for k in list((base - table(parr, r2)).keys())[:4]]})
            break


# ------------------------------------------------------------------ voices
def check_voices(arr, ret, mono):
    ctx = core.CURRENT
    rows = rows_of(arr)
    pitches = [r[2] for r in rows]
    if not rows or min(pitches) < 0 or max(pitches) > 127:
        ctx.extra["voices_out_of_domain_input"] += 1
        return
    ctx.check()
    mode = "mono" if mono else "chord"
    try:
        vals = np.asarray(ret).tolist()
        assert isinstance(vals, list)
    except Exception:
        V("voices-malformed-result", f"result is {type(ret).__name__}", small(arr))
        return
    if len(vals) != len(rows):
        V("voices-length", f"{len(rows)} notes in, {len(vals)} voice numbers out ({mode})", small(arr))
        return
    ctx.check(3)
    bad = [(i, v) for i, v in enumerate(vals) if not (isinstance(v, int) and not isinstance(v, bool)) and not (isinstance(v, float) and v == int(v))]
    if bad:
        V("voices-not-integer", f"row {bad[0][0]} has voice {bad[0][1]!r} ({mode})", small(arr))
        return
    vals = [int(v) for v in vals]
    low = [(i, v) for i, v in enumerate(vals) if v < 1]
    if low:
        i, v = low[0]
        key = "voices-nonpositive-zero-duration-note" if all(rows[j][1] == 0 for j, _ in low) else "voices-nonpositive"
        V(key, f"row {i} {rows[i]} got voice {v} ({mode})", {"mode": mode, "row": list(rows[i]), "array": small(arr)})
    elif set(vals) != set(range(1, max(vals) + 1)):
        missing = sorted(set(range(1, max(vals) + 1)) - set(vals))
        V("voices-numbering-gap", f"voices used {sorted(set(vals))}, missing {missing[:5]} ({mode})", {"mode": mode, "array": small(arr)})
    if not mono:
        groups = collections.defaultdict(set)
        for (o, d, _), v in zip(rows, vals):
            groups[(o, d)].add(v)
        ctx.check(len(groups))
        ctx.extra["chords_checked"] += sum(1 for g in groups.values() if len(g) >= 1)
        split = [(k, sorted(v)) for k, v in groups.items() if len(v) > 1]
        if split:
            (o, d), vs = split[0]
            V("voices-chord-split", f"notes with onset {o} and duration {d} are in voices {vs}",
              {"onset": o, "duration": d, "voices": vs, "array": small(arr)})
    k = max(vals)
    ctx.extra["voices_result_" + ("1" if k == 1 else "2-3" if k <= 3 else "4-6" if k <= 6 else "7+")] += 1


# ------------------------------------------------------------------ key
def parse_key(name):
    mode = "minor" if name.endswith("m") else "major"
    root = name[:-1] if mode == "minor" else name
    return P.pitch_class(root[0], P.ACCIDENTAL_TEXT[root[1:]]), mode


def exact_sums(arr):
    """True when the duration column can be added up exactly in its own dtype."""
    u = time_unit(arr)
    col = arr["duration_" + u]
    if np.issubdtype(col.dtype, np.integer):
        return True
    vals = col.tolist()
    if any(v != v or v in (float("inf"), float("-inf")) for v in vals):
        return False
    if any(Fraction(v).denominator > 1024 for v in vals):
        return False
    return sum(abs(Fraction(v)) for v in vals) < 4096


def ref_margin(arr, profiles):
    """(best key, margin / conditioning): the reference margin between the two best keys, divided by
    mean/std of the histogram (>= 1) — a nearly flat histogram amplifies rounding in the duration sums."""
    u = time_unit(arr)
    durs = arr["duration_" + u].tolist()
    if any(isinstance(d, float) and (d != d or math.isinf(d)) for d in durs):
        return None, float("nan")
    hist = KP.histogram(arr["pitch"].tolist(), durs)
    best, m = KP.margin(hist, profiles)
    total = sum(hist)
    if not total or m != m:
        return None, float("nan")
    h = [float(v / total) for v in hist]
    sd = math.sqrt(sum((x - 1 / 12) ** 2 for x in h) / 12)
    if sd <= 0:
        return None, float("nan")
    return best, m / max(1.0, (1 / 12) / sd)


def check_key(arr, ret, real, args, kwargs):
    ctx = core.CURRENT
    ctx.check()
    if kwargs.get("return_sorted_keys") or (len(args) > 1 and args[1]):
        ctx.extra["key_sorted_list_calls"] += 1
        names = list(ret)
    else:
        names = [ret]
    for nm in names:
        if not isinstance(nm, str) or nm not in VALID_KEY_NAMES:
            V("key-invalid-name", f"estimate_key returned {nm!r}", small(arr))
            return
    if len(names) != 1:
        return
    rows = rows_of(arr)
    pitches = [r[2] for r in rows]
    if not rows or min(pitches) < 21 or max(pitches) > 108 or any(r[1] < 0 for r in rows):
        ctx.extra["key_out_of_domain_input"] += 1
        return
    profiles = kwargs.get("key_profiles", args[0] if args else "krumhansl_kessler")
    if not isinstance(profiles, str) or KP.ALIASES.get(profiles, profiles) not in KP.PROFILES:
        ctx.extra["key_unknown_profile_object"] += 1
        return
    tol = 1e-6 if exact_sums(arr) else 1e-4
    best, m0 = ref_margin(arr, profiles)
    if not (m0 > tol):
        ctx.ambiguous()
        ctx.extra["key_near_tie_or_degenerate"] += 1
        return
    tonic, mode = parse_key(ret)
    ctx.extra["key_agrees_with_reference" if (tonic, mode) == best else "key_differs_from_reference"] += 1
    u = time_unit(arr)
    rng = random.Random(arr_digest(arr))

    def call(a):
        return real(a, *args, **kwargs)

    def judged(a2):
        _, m = ref_margin(a2, profiles)
        t2 = 1e-6 if exact_sums(a2) else 1e-4
        if not (m > max(tol, t2)):
            ctx.ambiguous()
            return False
        return True

    # (1) shifting notes by octaves
    a2 = arr.copy()
    for i, p in enumerate(pitches):
        ks = [k for k in range(-7, 8) if 21 <= p + 12 * k <= 108]
        a2["pitch"][i] = p + 12 * rng.choice(ks)
    if judged(a2):
        ctx.check()
        r2 = call(a2)
        if r2 != ret:
            def fails(sub):
                s2 = sub.copy()
                rr = random.Random(7)
                for i, p in enumerate(sub["pitch"].tolist()):
                    s2["pitch"][i] = p + 12 * rr.choice([k for k in range(-7, 8) if 21 <= p + 12 * k <= 108])
                return ref_margin(sub, profiles)[1] > 1e-3 and call(sub) != call(s2)
            V("key-changes-under-octave-shift", f"{ret} became {r2} after moving notes by whole octaves",
              {"profiles": profiles, "array": small(shrink(arr, fails)), "shifted_pitches": a2["pitch"].tolist()[:40]})
    # (2) rescaling all durations
    col = "duration_" + u
    if np.issubdtype(arr[col].dtype, np.integer):
        facs = [2, 3, 10]
    else:
        # (also other units altogether: seconds written as micro- or milliseconds and the other way round)
        facs = [2.0, 0.5, 3.0, 0.1, 7.0, 1e-3, 1e-4, 1e-6, 1e3, 1e5]
    c = rng.choice(facs)
    a3 = arr.copy()
    a3[col] = arr[col] * c
    if judged(a3):
        ctx.check()
        r3 = call(a3)
        if r3 != ret:
            V("key-changes-under-duration-scaling", f"{ret} became {r3} after multiplying all durations by {c}",
              {"profiles": profiles, "factor": c, "array": small(arr)})
    # (3) transposition by k semitones
    lo, hi = min(pitches), max(pitches)
    ks = [k for k in range(21 - lo, 108 - hi + 1) if k != 0]
    if not ks:
        ctx.extra["key_no_room_to_transpose"] += 1
        return
    pick = {rng.choice(ks)}
    nz = [k for k in ks if k % 12]
    if nz:
        pick.add(rng.choice(nz))
    for k in sorted(pick):
        a4 = arr.copy()
        a4["pitch"] = arr["pitch"] + k
        if not judged(a4):
            continue
        ctx.check()
        r4 = call(a4)
        if not isinstance(r4, str) or r4 not in VALID_KEY_NAMES:
            V("key-invalid-name", f"estimate_key returned {r4!r}", small(a4))
            continue
        t4, m4 = parse_key(r4)
        if m4 != mode:
            V("key-mode-changes-under-transposition", f"{ret} became {r4} after transposing by {k} semitones",
              {"profiles": profiles, "k": k, "array": small(arr)})
        elif t4 != (tonic + k) % 12:
            def fails(sub, k=k):
                s = sub.copy()
                s["pitch"] = sub["pitch"] + k
                if ref_margin(sub, profiles)[1] <= 1e-3:
                    return False
                x, y = parse_key(call(sub)), parse_key(call(s))
                return y[0] != (x[0] + k) % 12
            V("key-tonic-not-transposed", f"{ret} became {r4} after transposing by {k} semitones (expected tonic pitch class {(tonic + k) % 12})",
              {"profiles": profiles, "k": k, "array": small(shrink(arr, fails))})


# ------------------------------------------------------------------ MIDI import
def midi_notes(mid):
    """Independent reading of a MIDI file's notes: [(track, channel, onset tick, duration, pitch)]."""
    out = []
    for ti, track in enumerate(mid.tracks):
        t = 0
        open_ = {}
        for msg in track:
            t += msg.time
            if msg.type == "note_on" and msg.velocity > 0:
                open_[(msg.channel, msg.note)] = t
            elif msg.type == "note_off" or (msg.type == "note_on" and msg.velocity == 0):
                k = (msg.channel, msg.note)
                if k in open_:
                    on = open_.pop(k)
                    out.append((ti, msg.channel, on, t - on, msg.note))
    return out


def score_sounding(scr):
    import partitura.score as S
    out = []
    for part in scr.parts:
        for tp in part._points:
            for cls, objs in tp.starting_objects.items():
                if objs and issubclass(cls, S.Note):
                    for n in objs:
                        if n.tie_prev is None:
                            out.append((part, n))
    return out


def check_midi_import(filename, scr, kwargs):
    import mido
    ctx = core.CURRENT
    try:
        mid = filename if isinstance(filename, mido.MidiFile) else mido.MidiFile(str(filename))
    except Exception:
        ctx.extra["midi_unreadable_by_reference"] += 1
        return
    exp_notes = midi_notes(mid)
    ctx.check()
    got = score_sounding(scr)
    q = kwargs.get("quantization_unit")
    got_p = collections.Counter(int(n.midi_pitch) for _, n in got)
    exp_p = collections.Counter(p for *_, p in exp_notes)
    opts = {k: kwargs.get(k) for k in ("part_voice_assign_mode", "estimate_voice_info", "estimate_key", "quantization_unit") if k in kwargs}
    wit = {"options": opts, "file_notes_track_channel_onset_duration_pitch": [list(x) for x in exp_notes[:40]],
           "ticks_per_beat": mid.ticks_per_beat, "n_file_notes": len(exp_notes)}
    if got_p != exp_p:
        missing = sorted((exp_p - got_p).elements())[:8]
        extra = sorted((got_p - exp_p).elements())[:8]
        V("midi-import-pitches-differ", f"file has {sum(exp_p.values())} notes, score {sum(got_p.values())}; pitches only in file {missing}, only in score {extra}",
          dict(wit, only_in_file=missing, only_in_score=extra))
        return
    if not q:
        ctx.check()
        got_op = collections.Counter((int(n.start.t), int(n.midi_pitch)) for _, n in got)
        exp_op = collections.Counter((on, p) for _, _, on, _, p in exp_notes)
        if got_op != exp_op:
            V("midi-import-pitch-on-wrong-note", f"(onset, pitch) pairs differ: only in file {sorted((exp_op - got_op).elements())[:5]}, "
              f"only in score {sorted((got_op - exp_op).elements())[:5]}", wit)
    if kwargs.get("estimate_voice_info"):
        ctx.extra["midi_notes_without_positive_voice_after_estimation"] += sum(1 for _, n in got if n.voice is None or n.voice < 1)
    ctx.extra["midi_notes_compared"] += len(exp_notes)



_last_voice_input = [None]      # rows of the array most recently handed to estimate_voices (set by its pre hook)


def classify_voices(rows=None):
    """Name the mechanism of a raise inside voice separation by what its input contained."""
    def f(pr, key):
        r = rows if rows is not None else (_last_voice_input[0] or [])
        return key + (":zero-duration-notes" if any(x[1] == 0 for x in r) else "")
    return f


def classify_midi(kw):
    def f(pr, key):
        msg = str(pr.exc)
        if (pr.where or "").startswith("musicanalysis.voice_separation"):
            return classify_voices()(pr, key)
        if kw.get("estimate_key") and "importmidi.py" in pr.tb and (
                (pr.where == "io.importmidi.load_score_midi" and "unpack" in msg)
                or pr.where == "utils.music.fifths_mode_to_key_name"):
            return "midi-import-estimate_key-name-unpacked-as-tuple"
        if kw.get("estimate_key") and pr.where == "io.importmidi.load_score_midi" and "min()" in msg:
            return "midi-import-estimate_key-time-signature-sanitising-on-emptied-table"
        return key
    return f

# ------------------------------------------------------------------ hooks
def install(ctx):
    core.set_current(ctx)
    if _hooks:
        return
    warnings.simplefilter("ignore")
    import partitura  # noqa
    import partitura.musicanalysis.pitch_spelling as PS
    import partitura.musicanalysis.voice_separation as VS
    import partitura.musicanalysis.key_identification as KI
    import partitura.io.importmidi as IM

    def pre_copy(note_info, *a, **k):
        return note_info.copy() if is_note_array(note_info) else None

    def pre_vo(note_info, *a, **k):
        tok = pre_copy(note_info)
        _last_voice_input[0] = rows_of(tok) if tok is not None else None
        return tok

    def post_sp(ret, exc, token, a, k):
        if exc is not None or token is None:
            if token is None:
                core.CURRENT.extra["spelling_non_array_input"] += 1
            return
        if (a[1:] and a[1] != "ps13s1") or k.get("method", "ps13s1") != "ps13s1":
            return
        kw = {x: y for x, y in k.items() if x != "note_info"}
        check_spelling(token, ret, _hooks["sp"].orig, kw)

    def post_vo(ret, exc, token, a, k):
        if exc is not None or token is None:
            if token is None:
                core.CURRENT.extra["voices_non_array_input"] += 1
            return
        mono = a[1] if len(a) > 1 else k.get("monophonic_voices", True)
        check_voices(token, ret, bool(mono))

    def post_key(ret, exc, token, a, k):
        if exc is not None or token is None:
            if token is None:
                core.CURRENT.extra["key_non_array_input"] += 1
            return
        method = a[1] if len(a) > 1 else k.get("method", "krumhansl")
        if method != "krumhansl":
            return
        kw = {x: y for x, y in k.items() if x not in ("note_info", "method")}
        check_key(token, ret, lambda arr, *aa, **kk: _hooks["key"].orig(arr, "krumhansl", *aa, **kk), tuple(a[2:]), kw)

    def post_midi(ret, exc, token, a, k):
        if exc is not None:
            return
        import inspect
        try:
            ba = inspect.signature(inspect.unwrap(_hooks["midi"].orig)).bind(*a, **k)
            ba.apply_defaults()
            args = dict(ba.arguments)
        except TypeError:
            args = dict(k)
            if a:
                args["filename"] = a[0]
        fn = args.get("filename", args.get("fn"))
        check_midi_import(fn, ret, args)

    for name, mod, attr, pre, post, label in (
            ("sp", PS, "estimate_spelling", pre_copy, post_sp, "estimate_spelling"),
            ("vo", VS, "estimate_voices", pre_vo, post_vo, "estimate_voices"),
            ("key", KI, "estimate_key", pre_copy, post_key, "estimate_key"),
            ("midi", IM, "load_score_midi", None, post_midi, "load_score_midi")):
        h = core.Hook(mod, attr, pre=pre, post=post, ctx=ctx, label=label)
        core.rebind_everywhere(h.orig, h.wrapper)
        _hooks[name] = h


def setup(ctx):
    install(ctx)


# ------------------------------------------------------------------ driver
def plan(tier, seed):
    if tier == "quick":
        items = [["sp", i] for i in range(48)] + [["vo", i] for i in range(80)] + [["key", i] for i in range(48)]
        items += [["midi", i] for i in range(64)] + [["names"], ["fixture-midi", 0], ["fixture-xml", 0]]
        return items
    items = [["sp", i] for i in range(480)] + [["vo", i] for i in range(960)] + [["key", i] for i in range(480)]
    items += [["midi", i] for i in range(720)] + [["names"]]
    items += [["fixture-midi", i] for i in range(5)] + [["fixture-xml", i] for i in range(12)]
    sweep = [["vo", i] for i in range(1000, 1032)] + [["midi", i] for i in range(1000, 1032)]
    return {"0": items, "1": sweep, "2": sweep, "3": sweep}


def sizes(rng, tier, big):
    r = rng.random()
    if r < 0.12:
        return rng.randint(1, 4)
    if r < 0.35:
        return rng.randint(5, 19)
    if r < 0.85 or not big:
        return rng.randint(20, 60 if tier == "quick" else 120)
    return rng.randint(120, 400)


def describe(rows, info, unit):
    n = len(rows)
    return (f"{info['style']}:{unit}:{info['pitch_kind']}:{info['order']}:"
            f"{'zero' if any(r[1] == 0 for r in rows) else 'nozero'}:{'dup' if info['dup'] else 'nodup'}:"
            f"{'simul' if has_simultaneity(rows) else 'seq'}:{'1' if n == 1 else '<20' if n < 20 else '<120' if n < 120 else '>=120'}")


def one_array(ctx, rng, tier, lo, hi, big=True, style=None, pitch_kind=None):
    from workloads import c17_arrays as G
    n = sizes(rng, tier, big)
    rows, info = G.make_rows(rng, n, lo, hi, style=style, pitch_kind=pitch_kind)
    arr, unit = G.to_array(rng, rows)
    return arr, rows_of(arr), info, unit


def run_item(ctx, item):
    core.set_current(ctx)
    import partitura  # noqa
    from partitura.musicanalysis import estimate_spelling, estimate_voices, estimate_key
    from workloads import c17_arrays as G
    kind = item[0]
    tier = ctx.tier
    if kind == "sp":
        rng = ctx.rng("sp", item[1])
        for j in range(24):
            arr, rows, info, unit = one_array(ctx, rng, tier, 21, 108)
            d = arr_digest(arr)
            ok, res = guarded(ctx, estimate_spelling, (arr,), {}, {"fn": "estimate_spelling", "array": small(arr)}, arr)
            nt = len(rows) >= 20 and has_simultaneity(rows)
            ctx.case(["sp", d], nt, cls="spelling", sample={"fn": "estimate_spelling", "array": small(arr, 6), "info": info,
                                                            "result_head": [list(map(str, r)) for r in res[:4].tolist()] if ok else None}
                     if j == 0 else None)
            ctx.state("sp:" + describe(rows, info, unit))
    elif kind == "vo":
        rng = ctx.rng("vo", item[1])
        for j in range(8):
            arr, rows, info, unit = one_array(ctx, rng, tier, 0, 127, big=(j == 0))
            d = arr_digest(arr)
            nt = len(rows) >= 20 and has_simultaneity(rows)
            for mono in (True, False):
                kw = {} if mono and rng.random() < 0.3 else {"monophonic_voices": mono}     # {} = default mode
                ok, res = guarded(ctx, estimate_voices, (arr,), kw, {"fn": "estimate_voices", "kwargs": kw, "array": small(arr)}, arr,
                                  classify=classify_voices(rows))
                ctx.case(["vo", mono, d], nt, cls="voices-mono" if mono else "voices-chord",
                         sample={"fn": "estimate_voices", "monophonic_voices": mono, "array": small(arr, 6), "info": info,
                                 "result_head": np.asarray(res)[:6].tolist() if ok else None} if j == 0 and not mono else None)
                ctx.state(f"vo:{'mono' if mono else 'chord'}:" + describe(rows, info, unit))
    elif kind == "key":
        rng = ctx.rng("key", item[1])
        for j in range(12):
            pk = rng.choice(["tonal", "tonal", "tonal", None])
            arr, rows, info, unit = one_array(ctx, rng, tier, 21, 108, pitch_kind=pk)
            d = arr_digest(arr)
            nt = len(rows) >= 20 and has_simultaneity(rows)
            for prof in PROFILE_SETS:
                name = prof if rng.random() < 0.8 else {"kostka_payne": "kp"}.get(prof, prof)
                kw = {} if prof == "krumhansl_kessler" and rng.random() < 0.5 else {"key_profiles": name}   # {} = default set
                ok, res = guarded(ctx, estimate_key, (arr,), kw, {"fn": "estimate_key", "kwargs": kw, "array": small(arr)}, arr)
                ctx.case(["key", prof, d], nt, cls="key-" + prof,
                         sample={"fn": "estimate_key", "key_profiles": prof, "array": small(arr, 6), "info": info, "result": res}
                         if j == 0 and prof == "temperley" else None)
                ctx.state(f"key:{prof}:" + describe(rows, info, unit))
    elif kind == "midi":
        from partitura.io.importmidi import load_score_midi
        rng = ctx.rng("midi", item[1])
        tmp = tempfile.mkdtemp(prefix="c17-")
        try:
            for j in range(4):
                n = sizes(rng, tier, big=False)
                rows, info = G.make_rows(rng, n, 21, 108)
                ticks, ppq = G.rows_to_ticks(rows, rng.choice([1, 1, 2, 4, 120]))
                if ppq > 30000:
                    continue
                path = os.path.join(tmp, f"m{j}.mid")
                placed = G.build_midi(rng, ticks, ppq, path)
                prow = [(on, dur, p) for on, dur, p, _, _ in placed]
                nt = len(prow) >= 20 and has_simultaneity(prow)
                d = core.digest([ppq, placed])
                combos = [(m, v, k) for m in range(6) for v in (False, True) for k in (False, True)]
                rng.shuffle(combos)
                for mode, ev, ek in combos[:3 if tier == "quick" else 5]:
                    kw = dict(part_voice_assign_mode=mode, estimate_voice_info=ev, estimate_key=ek)
                    if rng.random() < 0.15:
                        kw["quantization_unit"] = rng.choice([1, max(1, ppq // 4)])
                    ok, res = guarded(ctx, load_score_midi, (path,), kw,
                                      {"fn": "load_score_midi", "options": kw, "ticks_per_beat": ppq,
                                       "file_notes_onset_duration_pitch_track_channel": [list(x) for x in placed[:40]],
                                       "n_file_notes": len(placed)}, classify=classify_midi(kw))
                    ctx.case(["midi", mode, ev, ek, kw.get("quantization_unit"), d], nt, cls=f"midi-voice{int(ev)}-key{int(ek)}",
                             sample={"fn": "load_score_midi", "options": kw, "ppq": ppq, "notes": len(placed), "info": info,
                                     "file_notes_head": [list(x) for x in placed[:5]]} if j == 0 else None)
                    ctx.state(f"midi:{mode}:{int(ev)}:{int(ek)}:{info['style']}:"
                              f"{'zero' if any(r[1] == 0 for r in prow) else 'nozero'}:{'simul' if has_simultaneity(prow) else 'seq'}")
        finally:
            shutil.rmtree(tmp, ignore_errors=True)
    elif kind == "names":
        # every name the library itself lists as a valid key-profile set selects one of the three sets
        import partitura.utils.globals as Gl
        rng = ctx.rng("names")
        rows, info = G.make_rows(rng, 30, 40, 90, style="chords", pitch_kind="tonal")
        arr, unit = G.to_array(rng, rows, unit="beat", extra_fields=False)
        for name in list(Gl.VALID_KEY_PROFILES):
            try:
                res = estimate_key(arr, key_profiles=name)
                ctx.extra["profile_names_accepted"] += 1
            except ValueError as e:
                ctx.violation("key-profile-name-listed-valid-but-rejected",
                              f"estimate_key(key_profiles={name!r}) raises ValueError({e}) although {name!r} is in VALID_KEY_PROFILES",
                              {"key_profiles": name, "array": small(arr, 8)})
            ctx.case(["names", name], False, cls="profile-names")
    elif kind == "fixture-midi":
        from partitura.io.importmidi import load_score_midi
        files = sorted(f for f in os.listdir(os.path.join(core.REPO, "tests/data/midi")) if f.endswith(".mid"))
        mine = files if tier == "quick" else files[item[1]::5]
        for f in mine:
            path = os.path.join(core.REPO, "tests/data/midi", f)
            combos = [(0, False, False), (4, True, False)] if tier == "quick" else \
                [(m, v, k) for m in range(6) for v in (False, True) for k in (False, True)]
            for mode, ev, ek in combos:
                import mido
                try:
                    nn = midi_notes(mido.MidiFile(path))
                except Exception:
                    continue
                if not nn or min(x[4] for x in nn) < 21 or max(x[4] for x in nn) > 108 or len(nn) > 1500:
                    ctx.extra["fixture_midi_skipped_out_of_domain"] += 1
                    continue
                kw = dict(part_voice_assign_mode=mode, estimate_voice_info=ev, estimate_key=ek)
                guarded(ctx, load_score_midi, (path,), kw, {"fn": "load_score_midi", "options": kw, "fixture": f},
                        classify=classify_midi(kw))
                ctx.case(["fixture-midi", f, mode, ev, ek], len(nn) >= 20, cls="fixture-midi")
    elif kind == "fixture-xml":
        import partitura as pt
        files = sorted(f for f in os.listdir(os.path.join(core.REPO, "tests/data/musicxml")) if f.endswith((".musicxml", ".xml")))
        mine = files[:6] if tier == "quick" else files[item[1]::12]
        for f in mine:
            try:
                scr = pt.load_musicxml(os.path.join(core.REPO, "tests/data/musicxml", f))
                na = scr.note_array()
            except Exception:
                ctx.extra["fixture_xml_unloadable"] += 1
                continue
            if len(na) == 0 or na["pitch"].min() < 21 or na["pitch"].max() > 108 or len(na) > 1200:
                ctx.extra["fixture_xml_skipped"] += 1
                continue
            rows = rows_of(na)
            nt = len(rows) >= 20 and has_simultaneity(rows)
            guarded(ctx, estimate_spelling, (na,), {}, {"fn": "estimate_spelling", "fixture": f})
            ctx.case(["fx", "sp", f], nt, cls="fixture-xml")
            for mono in (True, False):
                guarded(ctx, estimate_voices, (na,), {"monophonic_voices": mono}, {"fn": "estimate_voices", "mono": mono, "fixture": f},
                        classify=classify_voices(rows))
                ctx.case(["fx", "vo", mono, f], nt, cls="fixture-xml")
            for prof in PROFILE_SETS:
                guarded(ctx, estimate_key, (na,), {"key_profiles": prof}, {"fn": "estimate_key", "key_profiles": prof, "fixture": f})
                ctx.case(["fx", "key", prof, f], nt, cls="fixture-xml")
    else:
        raise ValueError(item)
