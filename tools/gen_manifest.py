#!/usr/bin/env python3
"""Regenerates MANIFEST.json from the table below and validates it."""
import json, os, sys
HERE = os.path.dirname(os.path.dirname(os.path.abspath(__file__)))
sys.path.insert(0, HERE)
from tools.manifest_table import CHECKS, NOT_APPLICABLE  # noqa

props = [json.loads(l)["id"] for l in open(os.path.join(HERE, "properties.jsonl"))]
checks = []
for pid in props:
    if pid not in CHECKS:
        continue
    c = CHECKS[pid]
    checks.append({
        "property_id": pid,
        "quick_cmd": f"./check {pid} --tier quick",
        "thorough_cmd": f"./check {pid} --tier thorough",
        "evidence_file": f"evidence/{pid}.json",
        "replay_cmd_template": f"./check {pid} --replay {{path}}",
        "engine": "vmon",
        "level_claimed": {"category": "exploration", "text": c["text"], "design_ref": f"DESIGN.md §4 {pid}"},
        "level_note": c["note"],
        "technique": c["technique"],
    })
na = [{"property_id": p, "reason": NOT_APPLICABLE.get(p, "monitor not built yet in this session (planned, see DESIGN.md §4)")}
      for p in props if p not in CHECKS]
m = {
    "version": 1,
    "setup_cmd": "./setup.sh",
    "hooks": {
        "guard": "PARTITURA_VERIF",
        "enable": "no source hooks: all instrumentation is attached from /verif at import time (wrappers/contracts on the real "
                  "functions of /repo's working tree, fresh interpreter per shard, PYTHONPATH=/repo); the launcher sets PARTITURA_VERIF=1",
        "baseline_off_cmd": "cd /repo && /venv/bin/python -m pytest -ra -q -p no:cacheprovider --timeout=900 --continue-on-collection-errors",
        "source_commits": [],
        "add_only": True,
    },
    "engines": [{"name": "vmon", "path": "vmon/", "serves_properties": [c["property_id"] for c in checks],
                 "kind_free_text": "runtime monitoring: hooks/contracts on the real functions + executable reference models + "
                                   "seeded hostile workloads, sharded over worker subprocesses; three-valued verdicts"}],
    "checks": checks,
    "not_applicable": na,
    "notes": "Exit codes: 0 held, 1 VIOLATION, 2 INCONCLUSIVE (deciding monitor not reached / monitor error). "
             "Known findings: known_findings.json (keyed by mechanism). See DESIGN.md.",
}
with open(os.path.join(HERE, "MANIFEST.json"), "w") as f:
    json.dump(m, f, indent=1)
try:
    import jsonschema
    jsonschema.validate(m, json.load(open("/root/.vp/MANIFEST.schema.json")))
    print("MANIFEST valid;", len(checks), "checks,", len(na), "not_applicable")
except ImportError:
    print("jsonschema unavailable; not validated")
