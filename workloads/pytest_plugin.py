"""pytest plugin: runs the repository's own test-suite with one property's monitors installed (record-only).

Used by the thorough tier (vmon/pytest_tier.py).  Environment:
  VMON_PYTEST_MONITOR   monitor module name, e.g. c05
  VMON_PYTEST_OUT       file the observations are written to at session end
The tests are unaffected: monitors record and never raise into the code they observe.
"""
import json
import os

_ctx = None


def pytest_configure(config):
    global _ctx
    name = os.environ.get("VMON_PYTEST_MONITOR")
    if not name:
        return
    import importlib
    import warnings
    warnings.filterwarnings("ignore")
    from vmon import core
    mod = importlib.import_module(f"monitors.{name}")
    _ctx = core.Ctx(mod.PROP, "thorough", int(os.environ.get("VERIF_SEED", "0")))
    _ctx.structural_everywhere = True          # C01: model-free invariant on parts built by importers
    _ctx.item = ["pytest"]
    mod.setup(_ctx)


def pytest_runtest_setup(item):
    if _ctx is not None:
        _ctx.item = ["pytest", item.nodeid]


def pytest_sessionfinish(session, exitstatus):
    if _ctx is None:
        return
    out = os.environ.get("VMON_PYTEST_OUT")
    if out:
        with open(out, "w") as f:
            json.dump(_ctx.result(), f, default=repr)
