"""C15 — merging parts keeps every note at the same musical time in disjoint voices.

Post-condition hook on the real merge_parts: the inputs are fingerprinted
before the call (the function consumes them) and the result is compared
element-wise under the exact rational rescale; voice/staff partitions are
checked as 'same input and same old voice <=> same new voice'.
"""
import collections
import math
from fractions import Fraction

from vmon import core
from vmon.refmodels import pitch as P
from vmon.refmodels import timemaps

PROP = "C15"
RULE = ("2-5 aligned generated parts (shared bar structure) with one divisions value each from {1,2,3,4,5,6,7,8,12} (lcm often "
        "exceeding all), 1-4 voices, 1-3 staves, notes with missing staff, directions/words/slurs, passed as list / group / nested "
        "groups / Score, x reassign in {voice, staff, auto}; single-part inputs; non-trivial = >=3 parts or lcm not among the "
        "inputs' divisions; distinct by (input digest, mode, form)")
ASSUMPTIONS = ["structural = the classes the documentation lists (Barline, Page, System, Clef, Measure, TimeSignature, KeySignature); "
               "classes the code additionally drops from later parts (DaCapo, Fine, Fermata, Ending, Tempo) are don't-care",
               "notes and rests carry a voice (stated domain); a missing staff counts as staff 1",
               "multi-division inputs are documented to raise and are not generated"]
MIN_HOOKS = {"merge_parts": {"quick": 200, "thorough": 4000}}
MIN_NONTRIVIAL = {"quick": 100, "thorough": 2000}
_installed = False
DOC_STRUCTURAL = ("Barline", "Page", "System", "Clef", "Measure", "TimeSignature", "KeySignature")
DONT_CARE = ("DaCapo", "Fine", "Fermata", "Ending", "Tempo")


def flat_parts(x):
    import partitura.score as S
    if isinstance(x, S.Score):
        return list(x.parts)
    if isinstance(x, S.Part):
        return [x]
    if isinstance(x, S.PartGroup):
        out = []
        for c in x.children:
            out += flat_parts(c)
        return out
    out = []
    for c in x:
        out += flat_parts(c)
    return out


def element_rows(part):
    """(class name, start, end, key attrs) of every registered object + note details."""
    import partitura.score as S
    rows = []
    for tp in part._points:
        for cls, objs in tp.starting_objects.items():
            for o in objs:
                if cls.__name__ == "Segment":
                    continue
                key = getattr(o, "id", None) or getattr(o, "text", None) or getattr(o, "number", None)
                rows.append({"cls": cls.__name__, "start": int(o.start.t), "end": int(o.end.t) if o.end is not None else None,
                             "key": key, "obj": id(o), "voice": getattr(o, "voice", None), "staff": getattr(o, "staff", None),
                             "is_note": isinstance(o, S.GenericNote), "is_rest": isinstance(o, S.Rest),
                             "pitch": (o.step, o.alter or 0, o.octave) if isinstance(o, S.Note) else None,
                             "tie_next": getattr(getattr(o, "tie_next", None), "id", None)})
    return rows


def sounding(part):
    import partitura.score as S
    out = []
    for n in timemaps.objects_of(part, S.Note, exact=False):
        if n.tie_prev is not None:
            continue
        last, dur = n, 0
        while last is not None:
            dur += last.end.t - last.start.t
            last = last.tie_next
        out.append((int(n.start.t), int(dur), P.midi(n.step, n.alter, n.octave)))
    return out


def fingerprint_inputs(parts_arg):
    import partitura.utils.music as M
    parts = flat_parts(parts_arg)
    fp = {"parts": [], "ids": [id(p) for p in parts]}
    for p in parts:
        q = [(int(t), int(v)) for t, v in p.quarter_durations()]
        fp["parts"].append({"id": p.id, "q": q, "rows": element_rows(p), "sounding": sounding(p)})
    fp["score_level"] = None
    if len(parts) > 1 and all(len(x["q"]) == 1 for x in fp["parts"]):
        try:
            na = M.note_array_from_part_list(parts)
            fp["score_level"] = sorted((Fraction(int(r["onset_div"]), int(r["divs_pq"])), Fraction(int(r["duration_div"]), int(r["divs_pq"])),
                                        int(r["pitch"])) for r in na)
            # the same table in its own (least-common-multiple) divisions, as the merged part states them
            fp["score_level_divs"] = sorted((int(r["onset_div"]), int(r["duration_div"]), int(r["pitch"])) for r in na)
            fp["score_level_divs_pq"] = sorted({int(r["divs_pq"]) for r in na})
        except Exception:
            fp["score_level"] = None
    return fp


def check_merge(ctx, fp, parts_arg, reassign, result):
    import partitura.score as S
    n = len(fp["parts"])
    w = {"reassign": reassign, "divisions": [p["q"] for p in fp["parts"]],
         "parts": [{"id": p["id"], "elements": collections.Counter(r["cls"] for r in p["rows"]).most_common(8),
                    "voices": sorted({r["voice"] for r in p["rows"] if r["is_note"]}, key=repr),
                    "staves": sorted({r["staff"] for r in p["rows"] if r["is_note"]}, key=repr)} for p in fp["parts"]]}
    ctx.check()
    if n == 1:
        if id(result) != fp["ids"][0]:
            ctx.violation("single-part-not-returned-as-is", "merge of one part returned another object", w)
        return
    if any(len(p["q"]) != 1 for p in fp["parts"]):
        return
    qs = [p["q"][0][1] for p in fp["parts"]]
    lcm = math.lcm(*qs)
    got_q = [(int(t), int(v)) for t, v in result.quarter_durations()]
    ctx.check()
    if got_q != [(0, lcm)]:
        ctx.violation("merged-divisions-not-lcm", f"merged part has divisions {got_q}, lcm is {lcm}", w)
        return
    # the merged part is a part like any other: every time point carries the divisions in force (tie_notes, find_tuplets
    # and the estimate of note values read them from there)
    stale = [(int(tp.t), tp.quarter) for tp in result._points if tp.quarter != lcm]
    ctx.check()
    if stale:
        ctx.violation("merged-time-points-carry-other-divisions", f"{len(stale)} of {len(result._points)} time points of the merged part carry "
                      f"divisions {sorted({q_ for _, q_ in stale})}, the part's divisions are {lcm}", w)
    res_rows = element_rows(result)
    by_obj = {r["obj"]: r for r in res_rows}
    res_multiset = collections.Counter((r["cls"], r["start"], r["end"], r["key"]) for r in res_rows)
    # 1. every note / rest / non-structural element of every input at the same musical time
    new_voice = {}     # (part index, old voice) -> set(new voices)
    new_staff = {}
    for i, p in enumerate(fp["parts"]):
        m = lcm // qs[i]
        for r in p["rows"]:
            if r["cls"] in DOC_STRUCTURAL and i > 0:
                continue
            if r["cls"] in DONT_CARE and i > 0:
                ctx.ambiguous()
                continue
            k = (r["cls"], r["start"] * m, r["end"] * m if r["end"] is not None else None, r["key"])
            ctx.check()
            if res_multiset[k] <= 0:
                kind = "note" if r["is_note"] else "element"
                ctx.violation(f"{kind}-missing-or-moved-in-merged-part", f"{r['cls']} {r['key']} of part {i} expected at "
                              f"[{k[1]},{k[2]}) (x{m}) not found", dict(w, element=[r["cls"], r["key"], r["start"], r["end"]], part_index=i))
                return
            res_multiset[k] -= 1
            if r["is_note"] and not r["is_rest"] and r["obj"] in by_obj:      # the statement speaks of notes
                nr = by_obj[r["obj"]]
                new_voice.setdefault((i, r["voice"]), set()).add(nr["voice"])
                new_staff.setdefault((i, r["staff"] if r["staff"] is not None else 1), set()).add(nr["staff"])
    # 2. structural elements come from the first part only
    for cls in DOC_STRUCTURAL:
        if cls == "Clef" and reassign in ("staff", "auto"):
            continue          # the docstring's list is for voice mode; staff modes keep the clefs of all parts
        exp = collections.Counter((r["start"] * (lcm // qs[0]), r["end"] * (lcm // qs[0]) if r["end"] is not None else None)
                                  for r in fp["parts"][0]["rows"] if r["cls"] == cls)
        got = collections.Counter((r["start"], r["end"]) for r in res_rows if r["cls"] == cls)
        ctx.check()
        if exp != got:
            ctx.violation("structural-elements-not-from-first-part-only", f"{cls}: merged {sorted(got.items())[:6]}, first part {sorted(exp.items())[:6]}", w)
            return
    # 3. partitions
    groups = new_voice if reassign in ("voice", "auto") else new_staff
    what = "voice" if reassign in ("voice", "auto") else "staff"
    ctx.check()
    for key, news in groups.items():
        if len(news) != 1:
            ctx.violation(f"{what}-group-split-by-merge", f"notes of part {key[0]} {what} {key[1]} ended up in {what}s {sorted(news, key=repr)}", w)
            return
    inv = collections.defaultdict(set)
    for key, news in groups.items():
        inv[next(iter(news))].add(key)
    for nv, keys in inv.items():
        if len({k[0] for k in keys}) > 1:
            ctx.violation(f"{what}-shared-by-notes-of-different-inputs", f"new {what} {nv} holds notes of {sorted(keys, key=repr)}", w)
            return
        if len(keys) > 1:
            ctx.violation(f"{what}-groups-of-one-input-fused", f"new {what} {nv} fuses {sorted(keys, key=repr)}", w)
            return
    # 4. sounding notes equal the score-level note array
    if fp["score_level"] is not None:
        got = sorted((Fraction(o, lcm), Fraction(d, lcm), p) for o, d, p in sounding(result))
        ctx.check()
        if got != fp["score_level"]:
            ctx.violation("sounding-notes-differ-from-score-level-note-array", f"{len(got)} vs {len(fp['score_level'])} notes", w)
        elif fp.get("score_level_divs") is not None:
            # one table, one unit: every row of the score-level array is in the same divisions (the least common multiple of the
            # parts that have notes; a part without notes need not count), and in that unit it equals the merged part
            unit = fp["score_level_divs_pq"]
            got_d = sorted((int(o), int(d), int(p)) for o, d, p in sounding(result))
            if len(unit) == 1 and lcm % unit[0] == 0:
                k_ = lcm // unit[0]
                fp["score_level_divs"] = sorted((o * k_, d * k_, p) for o, d, p in fp["score_level_divs"])
            ctx.check()
            if len(unit) != 1 or got_d != fp["score_level_divs"]:
                k = next((i for i, (a, b) in enumerate(zip(got_d, fp["score_level_divs"])) if a != b), 0)
                ctx.violation("merged-part-and-score-level-note-array-in-different-divisions",
                              f"merged part (lcm {lcm}) has {got_d[k]}, the score-level note array {fp['score_level_divs'][k]} (onset, duration in divisions, pitch)", w)


def install(ctx):
    global _installed
    core.set_current(ctx)
    if _installed:
        return
    _installed = True
    import partitura.score as S

    def pre(parts, reassign="voice"):
        return fingerprint_inputs(parts)

    def post(ret, exc, token, a, k):
        if exc is None:
            reassign = a[1] if len(a) > 1 else k.get("reassign", "voice")
            check_merge(core.CURRENT, token, a[0] if a else k["parts"], reassign, ret)

    h = core.Hook(S, "merge_parts", pre=pre, post=post, ctx=ctx, label="merge_parts")
    core.rebind_everywhere(h.orig, h.wrapper)


def setup(ctx):
    install(ctx)


def plan(tier, seed):
    n = 16 * 16 if tier == "quick" else 16 * 300
    return [["merge", i] for i in range(n)] + [["single", i] for i in range(n // 8)]


def run_item(ctx, item):
    import partitura.score as S
    from workloads import gen_score
    rng = ctx.rng(item[0], item[1])
    if item[0] == "single":
        part, _ = gen_score.make_part(rng, "P1", profile="basic")
        form = rng.choice(["list", "group", "part-in-nested-group", "score", "score-of-group", "tuple-of-group"])
        if form == "list":
            arg = [part]
        elif form == "score":
            arg = S.Score(partlist=[part], id="s")
        elif form in ("score-of-group", "tuple-of-group"):
            g = S.PartGroup("brace", "g")
            g.children = [part]
            arg = S.Score(partlist=[g], id="s") if form == "score-of-group" else [g]
        else:
            g = S.PartGroup("brace", "g")
            g.children = [part]
            arg = g
            if form != "group":
                g2 = S.PartGroup("bracket", "outer")
                g2.children = [g]
                arg = g2
        ctx.try_call(S.merge_parts, arg, rng.choice(["voice", "staff", "auto"]))
        ctx.case(["single", item[1], form], False, cls="single")
        return
    n_parts = rng.choice([2, 2, 3, 3, 4, 5])
    feats = [f for f in ("chords", "rests", "ties", "multivoice", "multistaff", "pickup", "ts_changes", "slurs", "graces") if rng.random() < 0.6]
    first, meta0 = gen_score.make_part(rng, "P1", features=feats + ["clefs"], divs=rng.choice([1, 2, 3, 4, 5, 6, 8, 12]),
                                       meters=[(4, 4), (3, 4), (2, 2), (6, 8), (2, 4)])
    parts = [first]
    cands = gen_score.skeleton_divs(meta0["skeleton"], [1, 2, 3, 4, 5, 6, 7, 8, 12])
    for i in range(1, n_parts):
        f2 = [f for f in feats if f not in ("pickup", "ts_changes")] + (["clefs"] if rng.random() < 0.5 else [])
        p, _ = gen_score.make_part(rng, f"P{i + 1}", features=f2, divs=rng.choice(cands), skeleton=meta0["skeleton"])
        parts.append(p)
    if rng.random() < 0.4:
        # layout: system and page breaks in every part (each staff of a printed score restates them); only those of the first
        # part may arrive in the merged part, under every way of renumbering
        for p_ in parts:
            last_ = int(p_.last_point.t)
            for k_, t_ in enumerate(sorted(rng.sample(range(0, max(2, last_)), min(max(2, last_), rng.randint(1, 3))))):
                p_.add(S.System(k_ + 1), t_)
                if rng.random() < 0.4:
                    p_.add(S.Page(k_ + 1), t_)
        ctx.extra["merges_with_system_and_page_breaks_in_every_part"] += 1
    if rng.random() < 0.2:
        # parts need not have distinct ids (the first parts of two separately loaded files are both "P1")
        parts[rng.randrange(1, len(parts))].id = parts[0].id
        ctx.extra["merges_with_a_later_part_named_like_the_first"] += 1
    if rng.random() < 0.25:
        # a percussion line: some notes of a part are unpitched (they have a voice and a staff like any other note)
        p_ = parts[rng.randrange(len(parts))]
        plain_ = [n_ for n_ in timemaps.objects_of(p_, S.Note, exact=True) if n_.tie_next is None and n_.tie_prev is None
                  and not getattr(n_, "slur_starts", None) and not getattr(n_, "slur_stops", None)
                  and not getattr(n_, "tuplet_starts", None) and not getattr(n_, "tuplet_stops", None)]
        for n_ in rng.sample(plain_, min(len(plain_), rng.randint(1, 4))):
            a_, b_ = int(n_.start.t), int(n_.end.t)
            u_ = S.UnpitchedNote(step=n_.step, octave=n_.octave, id=n_.id, voice=n_.voice, staff=n_.staff,
                                 symbolic_duration=dict(n_.symbolic_duration) if n_.symbolic_duration else None)
            p_.remove(n_)
            p_.add(u_, a_, b_)
        ctx.extra["merges_with_unpitched_notes"] += 1
    if rng.random() < 0.2:
        # a part without any note or rest that still has something to say (chord symbols, cues, an analysis layer)
        q_ = rng.choice(cands)
        last_q = max(float(p_.quarter_map(p_.last_point.t)) for p_ in parts)
        extra = S.Part(f"P{len(parts) + 1}", "analysis", quarter_duration=q_)
        for k_ in range(rng.randint(1, 4)):
            t_ = rng.randint(0, max(1, int(last_q * q_)))
            kind_ = rng.choice(["chord", "words", "harmony", "dyn"])
            if kind_ == "chord":
                extra.add(S.ChordSymbol(rng.choice("CDEFGAB"), rng.choice(["major", "minor"])), t_)
            elif kind_ == "words":
                extra.add(S.Words(rng.choice(["cue: horns", "solo", "tutti"])), t_)
            elif kind_ == "harmony":
                extra.add(S.Harmony(rng.choice(["I", "V7", "ii6"])), t_)
            else:
                extra.add(S.ConstantLoudnessDirection(rng.choice(["p", "f"])), t_)
        parts.insert(rng.randrange(1, len(parts) + 1), extra)
        n_parts = len(parts)
        ctx.extra["merges_with_a_part_without_notes_or_rests"] += 1
    if rng.random() < 0.3:
        # a crowded part: more voices than the four per staff that the automatic renumbering reserves
        p = parts[rng.randrange(len(parts))]
        notes = [n_ for n_ in timemaps.objects_of(p, S.Note, exact=True) if n_.tie_next is None and n_.tie_prev is None]
        top = max([n_.voice for n_ in timemaps.objects_of(p, S.GenericNote, exact=False) if n_.voice] or [1])
        if notes:
            for v in range(top + 1, rng.randint(5, 7) + 1):
                for j in range(rng.randint(1, 3)):
                    n_ = rng.choice(notes)
                    p.add(S.Note(rng.choice("CDEFGAB"), rng.randint(2, 5), id=f"{p.id}x{v}_{j}", voice=v, staff=n_.staff,
                                 symbolic_duration=dict(n_.symbolic_duration) if n_.symbolic_duration else None), n_.start.t, n_.end.t)
            ctx.extra["merges_with_a_part_of_more_than_four_voices_per_staff"] += 1
    hostile = rng.random()
    for p in parts:
        notes = timemaps.objects_of(p, S.GenericNote, exact=False)
        if hostile < 0.3:
            for nte in notes:
                if rng.random() < 0.3:
                    nte.staff = None                      # a missing staff counts as staff 1
        starts = sorted({int(nte.start.t) for nte in notes})
        if starts and rng.random() < 0.6:
            for _ in range(rng.randint(1, 3)):
                t = rng.choice(starts)
                kind = rng.choice(["dyn", "words", "dyn-staffed"])
                if kind == "dyn":
                    p.add(S.ConstantLoudnessDirection(rng.choice(["p", "f", "mf"])), t)
                elif kind == "words":
                    p.add(S.Words(rng.choice(["dolce", "cantabile"])), t)
                else:
                    p.add(S.ConstantLoudnessDirection("ff", staff=1), t)
    divs = [int(p.quarter_durations()[0][1]) for p in parts]
    lcm = math.lcm(*divs)
    form = rng.choice(["list", "group", "nested", "score"])
    if form == "list":
        arg = parts
    elif form == "group":
        arg = S.PartGroup("brace", "g")
        arg.children = parts
    elif form == "nested":
        g = S.PartGroup("brace", "inner")
        g.children = parts[:2]
        arg = [g] + parts[2:]
    else:
        arg = S.Score(parts, id="s")
    reassign = rng.choice(["voice", "staff", "auto"])
    ctx.try_call(S.merge_parts, arg, reassign)
    ctx.case(["merge", item[1], reassign, form], n_parts >= 3 or lcm not in divs, cls=f"merge-{reassign}",
             sample={"divisions": divs, "lcm": lcm, "reassign": reassign, "form": form, "features": feats})
    ctx.state(f"{reassign}:{form}:{n_parts}:{lcm not in divs}:{hostile < 0.3}")
