"""Parent runner: shards a monitor's plan over worker subprocesses, merges what
the monitors observed, applies the known-findings list, writes the evidence
file and the replay files, prints the verdict lines and returns the exit code.

exit 0  held on everything observed (KNOWN-FINDING lines may be printed)
exit 1  VIOLATION property=<id> replay=<path>
exit 2  INCONCLUSIVE property=<id> reason=...
"""
import importlib
import json
import os
import subprocess
import sys
import tempfile
import time

from . import core

HERE = os.path.dirname(os.path.dirname(os.path.abspath(__file__)))
PY = "/venv/bin/python"
NCPU = min(16, os.cpu_count() or 1)


def env_for_child(hashseed="0"):
    env = dict(os.environ)
    env["PARTITURA_VERIF"] = "1"
    env["PYTHONDONTWRITEBYTECODE"] = "1"
    env["PYTHONHASHSEED"] = str(hashseed)
    env["PYTHONWARNINGS"] = "ignore"
    env["OMP_NUM_THREADS"] = env["OPENBLAS_NUM_THREADS"] = env["MKL_NUM_THREADS"] = "1"
    repo = os.environ.get("VERIF_REPO", "/repo")
    deps = os.path.join(HERE, ".deps")
    env["PYTHONPATH"] = os.pathsep.join([HERE, repo, deps])
    return env


def ensure_setup():
    if not os.path.isdir(os.path.join(HERE, ".deps")):
        subprocess.run([os.path.join(HERE, "setup.sh")], cwd=HERE, stdout=subprocess.DEVNULL)
    os.makedirs(os.path.join(HERE, "evidence"), exist_ok=True)
    os.makedirs(os.path.join(HERE, "replays"), exist_ok=True)


def load_findings(prop):
    path = os.path.join(HERE, "known_findings.json")
    try:
        with open(path) as f:
            data = json.load(f)
    except FileNotFoundError:
        return {}
    return {e["key"]: e for e in data.get("findings", [])
            if e["property"] == prop and e.get("status") == "open"}


def shard_main(argv):
    """Worker: python -m vmon.runner --shard <prop> <tier> <seed> <i> <n> <itemsfile> <out>"""
    prop, tier, seed, i, n, itemsfile, out = argv
    seed, i, n = int(seed), int(i), int(n)
    mod = importlib.import_module(f"monitors.{prop.lower()}")
    with open(itemsfile) as f:
        spec = json.load(f)
    items = spec["items"]
    ctx = core.Ctx(prop, tier, seed, i, n)
    t0 = time.time()
    deadline = t0 + spec["soft_deadline_s"] if spec.get("soft_deadline_s") else None
    if hasattr(mod, "setup"):
        mod.setup(ctx)
    core.run_items(mod, ctx, items, deadline)
    if hasattr(mod, "finish"):
        try:
            mod.finish(ctx)
        except Exception:
            import traceback
            ctx.monitor_errors.append({"item": "finish", "traceback": traceback.format_exc()[-2000:]})
    res = ctx.result()
    res["wall_s"] = time.time() - t0
    with open(out, "w") as f:
        json.dump(res, f, default=repr)


def run(prop, tier, seed, replay=None, only_items=None):
    ensure_setup()
    t0 = time.time()
    sys.path.insert(0, HERE)
    mod = importlib.import_module(f"monitors.{prop.lower()}")
    if replay:
        with open(replay) as f:
            rp = json.load(f)
        groups = [("0", [rp["item"]])]
        tier, seed = rp.get("tier", tier), rp.get("seed", seed)
    elif only_items is not None:
        groups = [("0", only_items)]
    else:
        plan = mod.plan(tier, seed)
        # a plan is a list of items, or {"hashseed": [items]} for hash-seed sweeps
        groups = list(plan.items()) if isinstance(plan, dict) else [("0", plan)]
        if tier == "thorough" and getattr(mod, "PYTEST_TIER", True):
            # first, so that it starts at once on a worker of its own
            groups = [("0", [["pytest-tier"]])] + groups
    watchdog = getattr(mod, "WATCHDOG_S", {"quick": 600, "thorough": 7200})[tier]
    soft = getattr(mod, "SOFT_DEADLINE_S", {}).get(tier)
    work = tempfile.mkdtemp(prefix=f"vmon-{prop}-", dir=os.path.join(HERE, ".work") if os.path.isdir(os.path.join(HERE, ".work")) else None)
    procs = []
    for gi, (hs, items) in enumerate(groups):
        n = max(1, min(NCPU, len(items)))
        for i in range(n):
            sub = items[i::n]
            if not sub:
                continue
            itf = os.path.join(work, f"items-{gi}-{hs}-{i}.json")
            out = os.path.join(work, f"out-{gi}-{hs}-{i}.json")
            with open(itf, "w") as f:
                json.dump({"items": sub, "soft_deadline_s": soft}, f)
            procs.append((hs, i, out, itf, n))
    results, inconclusive = [], []
    running = []
    queue = list(procs)

    def launch(p):
        hs, i, out, itf, n = p
        cmd = [PY, "-m", "vmon.runner", "--shard", prop, tier, str(seed), str(i), str(n), itf, out]
        errf = open(out + ".err", "w")
        return (subprocess.Popen(cmd, cwd=HERE, env=env_for_child(hs), stdout=errf, stderr=errf), p, errf)

    start = time.time()
    while queue or running:
        while queue and len(running) < NCPU:
            running.append(launch(queue.pop(0)))
        time.sleep(0.05)
        still = []
        for pr, p, errf in running:
            rc = pr.poll()
            if rc is None:
                if time.time() - start > watchdog:
                    pr.kill()
                    inconclusive.append(f"watchdog({watchdog}s)-shard{p[1]}")
                else:
                    still.append((pr, p, errf))
                continue
            errf.close()
            if rc != 0 or not os.path.exists(p[2]):
                try:
                    tail = open(p[2] + ".err").read()[-800:]
                except Exception:
                    tail = ""
                inconclusive.append(f"shard{p[1]}-died(rc={rc}): {tail!r}")
            else:
                with open(p[2]) as f:
                    results.append(json.load(f))
        running = still

    # ------------------------------------------------------------------ merge
    import collections
    hooks = collections.Counter()
    extra = collections.Counter()
    classes = collections.Counter()
    viol_counts = collections.Counter()
    nontrivial, states = set(), set()
    samples, violations, merrs = [], [], []
    evaluations = checks = ambiguous = n_merr = 0
    for r in results:
        hooks.update(r["hooks"]); extra.update(r["extra"]); classes.update(r["classes"])
        viol_counts.update(r["viol_counts"])
        nontrivial.update(r["nontrivial"]); states.update(r["states"])
        if len(samples) < 4:
            samples.extend(r["samples"][: 4 - len(samples)])
        violations.extend(r["violations"]); merrs.extend(r["monitor_errors"])
        evaluations += r["evaluations"]; checks += r["oracle_checks"]
        ambiguous += r["ambiguous"]; n_merr += r["n_monitor_errors"]
    import shutil
    shutil.rmtree(work, ignore_errors=True)

    known = load_findings(prop)
    exit_code = 0
    printed_known = set()
    unlisted = []
    for v in violations:
        if v["key"] in known:
            printed_known.add(v["key"])
        else:
            unlisted.append(v)
    for k in sorted(printed_known):
        print(f"KNOWN-FINDING: property={prop} {k}: {known[k]['what']} (seen {viol_counts[k]}x this run)")
    seen_keys = set()
    rdir = os.path.join(HERE, "replays", prop)
    for v in unlisted:
        os.makedirs(rdir, exist_ok=True)
        n = sum(1 for _ in os.listdir(rdir))
        safe = "".join(c if c.isalnum() or c in "-_." else "_" for c in v["key"])[:80]
        path = os.path.join(rdir, f"{safe}-{n}.json")
        with open(path, "w") as f:
            json.dump({"property": prop, "tier": tier, "seed": seed, "key": v["key"], "what": v["what"],
                       "item": v["item"], "witness": v["witness"]}, f, indent=1, default=repr)
        if v["key"] not in seen_keys or replay:
            seen_keys.add(v["key"])
            print(f"VIOLATION property={prop} replay={os.path.relpath(path, HERE)}")
            print(f"  key={v['key']} what={v['what'][:300]}")
        exit_code = 1

    reasons = list(inconclusive)
    if n_merr:
        reasons.append(f"MONITOR-ERROR x{n_merr}")
        for m in merrs[:3]:
            print("MONITOR-ERROR", json.dumps(m["item"], default=repr)[:200])
            print(m["traceback"])
    if not replay and only_items is None:
        for h, need in getattr(mod, "MIN_HOOKS", {}).items():
            need = need.get(tier, 1) if isinstance(need, dict) else need
            if hooks.get(h, 0) < need:
                reasons.append(f"hook {h} evaluated {hooks.get(h, 0)} < {need}")
        need_nt = getattr(mod, "MIN_NONTRIVIAL", {"quick": 2, "thorough": 2})[tier]
        if len(nontrivial) < need_nt:
            reasons.append(f"nontrivial cases {len(nontrivial)} < {need_nt}")
    verdict = "violated" if exit_code == 1 else ("inconclusive" if reasons else "held")
    if exit_code == 0 and reasons:
        exit_code = 2
        print(f"INCONCLUSIVE property={prop} reason={'; '.join(reasons)[:1500]}")

    wall = time.time() - t0
    if not replay and only_items is None:
        ev = {
            "property_id": prop,
            "tier": tier,
            "seed": seed,
            "level": "exploration",
            "coverage": {
                "evaluations": evaluations,
                "distinct_nontrivial": len(nontrivial),
                "rule": mod.RULE,
                "samples": samples,
                "exhaustive": bool(getattr(mod, "EXHAUSTIVE", False)),
                "oracle_checks": checks,
                "ambiguous_dont_care": ambiguous,
                "hook_calls": dict(hooks),
                "states_observed": len(states),
                "case_classes": dict(classes),
                "observed": dict(extra),
                "known_findings_seen": {k: viol_counts[k] for k in sorted(printed_known)},
                "verdict": verdict,
                "inconclusive_reasons": reasons,
                "shards": len(results),
            },
            "assumptions": list(getattr(mod, "ASSUMPTIONS", [])),
            "wall_s": round(wall, 2),
            "violations": len(unlisted),
        }
        # (runs against a scratch copy with a seeded change applied write their evidence elsewhere: VERIF_EVIDENCE_DIR)
        evdir = os.environ.get("VERIF_EVIDENCE_DIR") or os.path.join(HERE, "evidence")
        os.makedirs(evdir, exist_ok=True)
        with open(os.path.join(evdir, f"{prop}.json"), "w") as f:
            json.dump(ev, f, indent=1, default=repr)
    print(f"[{prop}] tier={tier} seed={seed} verdict={verdict} evaluations={evaluations} "
          f"nontrivial={len(nontrivial)} oracle_checks={checks} ambiguous={ambiguous} "
          f"states={len(states)} hooks={sum(hooks.values())} wall={wall:.1f}s")
    return exit_code


if __name__ == "__main__":
    if sys.argv[1] == "--shard":
        shard_main(sys.argv[2:])
