#!/bin/sh
# Offline install of the contract libraries next to the repository's interpreter
# (into /verif/.deps, never into /venv). Idempotent.
set -e
cd "$(dirname "$0")"
if [ ! -f .deps/icontract/__init__.py ]; then
  rm -rf .deps
  PIP_NO_INDEX=1 /venv/bin/pip install --quiet --no-index \
     --find-links /opt/veriftools/wheels --target .deps icontract >/dev/null 2>&1 || {
       echo "setup: icontract not installable offline (contracts fall back to plain wrappers)"; mkdir -p .deps; }
fi
mkdir -p evidence replays
echo "setup ok"
