"""C13 — a piano roll shows exactly the given notes, in their cells, with their velocity.

Post-condition hooks on the real `partitura.utils.music._make_pianoroll`,
`compute_pianoroll`, `compute_pitch_class_pianoroll` and
`pianoroll_to_notearray`: every call (the driver's and anybody else's) is
compared with the independent rasteriser / octave fold / run-length decoder of
`vmon/refmodels/pianoroll.py` (exact Fraction time).  The driver feeds seeded
hostile note arrays x option combinations, re-runs every case on permuted rows
(order independence), folds, and inverts.
"""
import hashlib
import inspect
import math
import os
from fractions import Fraction

import numpy as np

from vmon import core
from vmon.refmodels import pianoroll as RP

PROP = "C13"
RULE = ("seeded note arrays (score units beat/quarter/div and performance units sec/tick in several column subsets, "
        "f4/f8/i4 columns, with/without velocity, channel (drum channel 9 present) and id columns; 1..40 notes on the "
        "1/time_div grid (85%) or off it; zero-length notes; same-pitch overlaps and same-onset duplicates; rows sorted, "
        "shuffled or reversed) x sampled combinations of time_unit, time_div (1..24, auto), onset_only, note_separation, "
        "pitch_margin, time_margin, piano_range, remove_silence, end_time, binary, return_idxs, remove_drums; each case is "
        "also run on permuted rows, 35% through the pitch-class roll and, when notes are grid-aligned and non-touching, "
        "back through pianoroll_to_notearray; integer rolls 128|88 x n for the inverse; note arrays of fixture scores and "
        "performances (raw, in divs, and snapped to the grid). Cells are judged exactly only when every onset and "
        "duration is within 0.05 frame of the grid, otherwise rows, values, index rows and order independence only. "
        "A case is non-trivial when it has >= 2 sounding notes and at least two of {same-pitch collision, rows not in "
        "onset order, >= 2 non-default options}; distinct by (array bytes, options)")
ASSUMPTIONS = ["reference rasteriser/fold/decoder in vmon/refmodels/pianoroll.py (nearest frame, >= 1 frame, margins on "
               "both sides also when end_time is given)",
               "ensure_notearray(score|performance) is trusted to give the note array of a non-array argument (C05)",
               "time_div='auto' is undocumented: the value the library chose is taken over (counted ambiguous)",
               "float results compared with 1e-9 (f8) / 1e-6 relative (f4 columns of the inverse)",
               "piano_range together with pitch_margin, negative onsets without silence removal, velocity 0, "
               "the offset column of index rows in onset mode and off-grid cells are left open by the statement"]
MIN_HOOKS = {"_make_pianoroll": {"quick": 15000, "thorough": 250000},
             "compute_pianoroll": {"quick": 15000, "thorough": 250000},
             "compute_pitch_class_pianoroll": {"quick": 2000, "thorough": 40000},
             "pianoroll_to_notearray": {"quick": 1500, "thorough": 25000}}
MIN_NONTRIVIAL = {"quick": 4000, "thorough": 80000}
WATCHDOG_S = {"quick": 900, "thorough": 7200}

_hooks = {}
_last = {}          # what the innermost hook evaluations of the current library call found
CASES_PER_ITEM = 50
ROLLS_PER_ITEM = 40
DATA = os.path.join(core.REPO, "tests", "data")


# ============================================================================ helpers
def witness(notes, o, extra=None):
    w = {"notes[pitch,onset,duration,velocity]": [[int(p), float(on), float(du), (None if v is None else int(v))]
                                                   for p, on, du, v in notes[:40]],
         "n_notes": len(notes),
         "options": {k: (v if isinstance(v, (int, str, bool, type(None))) else float(v)) for k, v in o.items()}}
    if extra:
        w.update(extra)
    return w


def lib_cells(pr):
    coo = pr.tocoo()
    d = {}
    for r, c, v in zip(coo.row.tolist(), coo.col.tolist(), coo.data.tolist()):
        if v != 0:
            d[(r, c)] = d.get((r, c), 0) + v
    return d


def strictly_increasing(notes):
    return all(notes[i][1] < notes[i + 1][1] for i in range(len(notes) - 1))


def notes_from_matrix(mat):
    mat = np.asarray(mat)
    has_vel = mat.shape[1] >= 4
    return [(int(round(float(row[0]))), RP.fr(float(row[1])), RP.fr(float(row[2])),
             int(round(float(row[3]))) if has_vel else None) for row in mat]


def select_unit(names, time_unit):
    """Unit the statement/doc designates, or None when it is left open."""
    if time_unit != "auto":
        return time_unit if f"onset_{time_unit}" in names else None
    score = [u for u in ("beat", "quarter", "div") if f"onset_{u}" in names]
    perf = [u for u in ("sec", "tick") if f"onset_{u}" in names]
    if score and perf:
        return None
    if "beat" in score:
        return "beat"
    if "sec" in perf:
        return "sec"
    both = score + perf
    return both[0] if len(both) == 1 else None


def notes_from_array(na, unit, remove_drums):
    names = na.dtype.names
    on, du = na[f"onset_{unit}"], na[f"duration_{unit}"]
    vel = na["velocity"] if "velocity" in names else None
    keep = range(len(na))
    if remove_drums and "channel" in names:
        keep = [i for i in keep if int(na["channel"][i]) != 9]
    # the piano roll works in float: a column value is taken at its stored (float) value
    return [(int(na["pitch"][i]), RP.fr(float(on[i])), RP.fr(float(du[i])), None if vel is None else int(vel[i]))
            for i in keep], list(keep)


def value_key(o, notes, R, got, rerun_ok):
    """Mechanism of a value-only disagreement in the exact mode (same non-zero cells, other values).
    The verdict comes from the reference roll; the *key* is chosen by testing hypotheses about the cause."""
    if o.get("binary"):
        return "binary-value-not-one"
    if all(n[3] is None for n in notes):
        return "value-not-one-without-velocities"
    unsorted = not strictly_increasing(notes)
    if unsorted and rerun_ok is not None and rerun_ok():
        return "velocity-on-wrong-note-unsorted-input"          # the same notes in onset order come out right
    if unsorted:
        # hypothesis: the velocity column stayed in input order while the notes were put in onset order
        order = sorted(range(len(notes)), key=lambda i: notes[i][1])
        cells = {}
        for k_, i in enumerate(order):
            r, a, e, p = R.idx[i]
            if 0 <= r < R.rows:
                for j in range(a, a + 1 if o.get("onset_only") else e):
                    cells[(r, j)] = max(cells.get((r, j), 0), notes[k_][3])
        if cells == got:
            return "velocity-on-wrong-note-unsorted-input"
    diff = [k for k in R.cells if got[k] != R.cells[k]]
    covering = {}
    for i, (r, a, e, p) in enumerate(R.idx):
        for j in range(a, a + 1 if o.get("onset_only") else e):
            covering.setdefault((r, j), set()).add(notes[i][3])
    if all(R.cover.get(k, 0) >= 2 and got[k] in covering[k] for k in diff):
        return "collision-not-maximum"
    return "wrong-velocity"


def judge(ctx, R, notes, o, ret, rerun_sorted=None):
    """Compare the library's result with the reference roll R.
    Returns a list of problems [(key, what, witness-extra)]; nothing is reported here."""
    from scipy import sparse
    probs = []

    def V(key, what, extra=None):
        probs.append((key, what, extra))

    want_idx = bool(o.get("return_idxs"))
    idx = None
    if want_idx:
        if not (isinstance(ret, tuple) and len(ret) == 2):
            V("return-idxs-not-a-pair", f"return_idxs=True returned {type(ret).__name__}")
            return probs
        pr, idx = ret
    else:
        pr = ret
    if not sparse.issparse(pr):
        V("result-not-a-sparse-matrix", f"returned {type(pr).__name__}")
        return probs
    rows, cols = pr.shape
    exact = R.aligned and not R.origin_open
    binary1 = o.get("binary") or all(n[3] is None for n in notes)
    # ------------------------------------------------------------------ rows
    ctx.check()
    if R.rows_open:
        ctx.ambiguous()
    elif rows != R.rows:
        V("rows-wrong", f"{rows} rows, expected {R.rows}", {"shape": [rows, cols]})
    # ------------------------------------------------------------------ columns
    # a negative first onset without silence removal leaves the origin open; but when the notes are placed as if the roll
    # started at the first onset (the earliest cell stands right after the leading margin), the end of the roll has to be
    # counted from the same origin
    placed_from_first = False
    if R.origin_open and R.aligned and pr.nnz:
        placed_from_first = int(pr.tocoo().col.min()) == R.lead
    if (exact or (placed_from_first and o.get("end_time") is not None)) and R.end_status in ("none", "valid"):
        ctx.check()
        if cols not in R.cols_ok:
            if o.get("end_time") is not None and R.lead > 0 and cols + R.lead in R.cols_ok:
                V("end_time-ignores-leading-time-margin",
                  f"{cols} columns with end_time and time_margin: one margin of {R.lead} frames is missing "
                  f"(expected {sorted(R.cols_ok)})", {"shape": [rows, cols]})
            else:
                V("columns-wrong", f"{cols} columns, expected {sorted(R.cols_ok)}", {"shape": [rows, cols]})
    else:
        ctx.ambiguous()
    # ------------------------------------------------------------------ cells
    got = lib_cells(pr)
    lib = None
    if want_idx:
        idx = np.asarray(idx)
        ctx.check()
        if idx.ndim != 2 or idx.shape != (len(notes), 4) or not np.issubdtype(idx.dtype, np.integer):
            V("idx-rows-shape-or-dtype", f"index array shape {idx.shape} dtype {idx.dtype} for {len(notes)} notes")
            want_idx = False
        else:
            lib = [tuple(int(x) for x in row) for row in idx]
    if R.rows_open or rows != R.rows:
        # piano_range with a pitch margin (open), or a wrong row count (reported): only the values can be judged
        ctx.ambiguous()
        ctx.check()
        allowed = {1} if binary1 else {n[3] for n in notes}
        bad = sorted({v for v in got.values() if v not in allowed})
        if bad:
            V("value-is-no-note-velocity", f"cell values {bad[:5]} are not the velocity of any given note")
        return probs
    if exact:
        ctx.check(max(1, len(R.cells)))
        exp = R.cells
        if got != exp:
            if set(got) == set(exp):
                key = value_key(o, notes, R, got, (lambda: rerun_sorted() == exp) if rerun_sorted is not None else None)
                diff = [[r, c, got[(r, c)], exp[(r, c)]] for (r, c) in sorted(exp) if got[(r, c)] != exp[(r, c)]]
                V(key, f"{len(diff)} cells hold another value than their note's velocity, e.g. {diff[:4]} as "
                       f"[row, col, got, expected]", {"cells[row,col,got,expected]": diff[:8]})
            else:
                missing = sorted(set(exp) - set(got))
                extra = sorted(set(got) - set(exp))
                if any(not (0 <= c < cols) for _, c in missing) and not extra and all(
                        not (0 <= c < cols) for _, c in missing):
                    key = "cells-cut-off-by-column-count"
                elif o.get("onset_only"):
                    key = "onset-mode-cells-wrong"
                elif R.min_frames_forced and missing and not extra:
                    key = "short-note-has-no-frame"
                elif o.get("note_separation"):
                    key = "note-separation-cells-wrong"
                else:
                    key = "cells-differ"
                V(key, f"{len(missing)} cells of sounding notes are empty, {len(extra)} cells are set where no note "
                       f"sounds; e.g. missing {missing[:3]} extra {extra[:3]}",
                  {"missing[row,col]": [list(x) for x in missing[:8]], "extra[row,col]": [list(x) for x in extra[:8]]})
        if want_idx:
            # (in onset mode a note's cells are its onset frame: the index row ends one frame after it begins)
            cmpcols = (0, 1, 2, 3)
            vis = [i for i, r in enumerate(R.idx) if 0 <= r[0] < R.rows]       # rows of notes outside the roll: open
            if len(vis) < len(R.idx):
                ctx.ambiguous()
            ctx.check(len(vis))
            badrows = [i for i in vis if tuple(lib[i][c] for c in cmpcols) != tuple(R.idx[i][c] for c in cmpcols)]
            if badrows:
                i = badrows[0]
                same_set = sorted(tuple(r[c] for c in cmpcols) for r in lib) == sorted(tuple(r[c] for c in cmpcols) for r in R.idx)
                V("idx-rows-not-in-input-order" if same_set else "idx-rows-wrong",
                  f"index row {i} is {list(lib[i])}, expected {list(R.idx[i])} ({len(badrows)} rows differ)",
                  {"idx": [list(r) for r in lib[:12]], "expected_idx": [list(r) for r in R.idx[:12]]})
        return probs
    # ---------------------------------------------------------------------- off the grid / open origin: loose checks
    ctx.ambiguous()
    td = int(o["time_div"])
    br = []                                            # per note: row, first possible frame, end of possible frames
    for i, (p, on, du, ve) in enumerate(notes):
        x, d = td * (on - R.t0), td * du
        lo = math.floor(x) + R.lead
        hi = math.ceil(x) + R.lead + (1 if o.get("onset_only") else max(1, math.ceil(d)) + 1)
        br.append((R.idx[i][0], lo, hi, 1 if binary1 else ve))
    if R.origin_open:
        allowed = {1} if binary1 else {n[3] for n in notes}
        ctx.check()
        bad = sorted({v for v in got.values() if v not in allowed})
        if bad:
            V("value-is-no-note-velocity", f"cell values {bad[:5]} are not the velocity of any given note")
        return probs

    def implausible(cells):
        """cells nobody can have set / whose value is nobody's velocity, under any reading of 'sounds during'"""
        nobody, wrongval = [], []
        byrow = {}
        for b in br:
            byrow.setdefault(b[0], []).append(b)
        for (r, c), v in cells.items():
            cand = [b[3] for b in byrow.get(r, ()) if b[1] <= c < b[2]]
            if not cand:
                nobody.append([r, c, v])
            elif v not in cand:
                wrongval.append([r, c, v, sorted(set(cand))])
        return nobody, wrongval

    ctx.check(max(1, len(got)))
    nobody, wrongval = implausible(got)
    if nobody:
        V("cell-set-where-no-note-sounds", f"{len(nobody)} cells are set where no note can sound, e.g. [row, col, value] {nobody[:4]}",
          {"cells[row,col,value]": nobody[:8]})
    if wrongval:
        if o.get("binary"):
            key = "binary-value-not-one"
        elif binary1:
            key = "value-not-one-without-velocities"
        elif (not strictly_increasing(notes) and rerun_sorted is not None and not any(implausible(rerun_sorted()))):
            key = "velocity-on-wrong-note-unsorted-input"
        else:
            key = "wrong-velocity"
        V(key, f"{len(wrongval)} cells hold a value that is not the velocity of any note that can sound there, e.g. "
               f"[row, col, got, possible] {wrongval[:4]}", {"cells[row,col,got,possible]": wrongval[:8]})
    ctx.check(len(notes))
    silent = [i for i, b in enumerate(br) if 0 <= b[0] < rows and not any((b[0], c) in got for c in range(b[1], b[2]))]
    if silent:
        V("note-without-any-cell", f"note {silent[0]} {[int(notes[silent[0]][0]), float(notes[silent[0]][1]), float(notes[silent[0]][2])]} "
                                   f"has no cell in frames {br[silent[0]][1]}..{br[silent[0]][2] - 1}")
    if want_idx:
        ctx.check(len(notes))
        badrows = [i for i, b in enumerate(br)
                   if lib[i][3] != int(notes[i][0]) or lib[i][0] != b[0] or not (b[1] <= lib[i][1] <= b[1] + 1)]
        if badrows:
            i = badrows[0]
            V("idx-rows-not-in-input-order" if _is_perm_consistent(lib, br, notes) else "idx-rows-wrong",
              f"index row {i} is {list(lib[i])} for note (pitch {int(notes[i][0])}, row {br[i][0]}) starting in frame "
              f"{br[i][1]} or {br[i][1] + 1}", {"idx": [list(r) for r in lib[:12]]})
            return probs
        # the index rows designate exactly the cells of the roll
        ctx.check()
        paint, painters = {}, {}
        for (r, a, b_, p), n in zip(lib, notes):
            if 0 <= r < rows:
                v = 1 if binary1 else n[3]
                for j in range(a, a + 1 if o.get("onset_only") else b_):
                    paint[(r, j)] = max(paint.get((r, j), 0), v)
                    painters.setdefault((r, j), []).append(v)
        key = "idx-rows-do-not-designate-the-cells"
        if set(paint) == set(got) and all(len(painters[k]) >= 2 and got[k] in painters[k] for k in paint if paint[k] != got[k]):
            key = "collision-not-maximum"
        if set(paint) == set(got) and paint != got and not binary1 and not strictly_increasing(notes):
            # hypothesis (for the key only): the velocity column stayed in input order while the notes were put in onset order
            order = sorted(range(len(notes)), key=lambda i: notes[i][1])
            ph = {}
            for k_, i in enumerate(order):
                r, a, b_, p = lib[i]
                if 0 <= r < rows:
                    for j in range(a, a + 1 if o.get("onset_only") else b_):
                        ph[(r, j)] = max(ph.get((r, j), 0), notes[k_][3])
            if ph == got:
                key = "velocity-on-wrong-note-unsorted-input"
        if set(paint) != set(got) or (paint != got and not wrongval):
            d = sorted(set(paint) ^ set(got)) or sorted(k for k in paint if paint[k] != got[k])
            V(key,
              f"{len(got)} cells set, {len(paint)} cells designated by the index rows; they differ e.g. at {d[:4]}",
              {"idx": [list(r) for r in lib[:12]]})
    return probs


def _is_perm_consistent(lib, br, notes):
    """some permutation of the index rows fits the notes (row, pitch, first frame)"""
    free = list(lib)
    for b, n in zip(br, notes):
        for r in free:
            if r[3] == int(n[0]) and r[0] == b[0] and b[1] <= r[1] <= b[1] + 1:
                free.remove(r)
                break
        else:
            return False
    return True


def emit(ctx, probs, notes, o, label, prefix=""):
    for key, what, extra in probs:
        ctx.violation(prefix + key, f"{label}: {what}", witness(notes, o, extra))
    return [prefix + p[0] for p in probs]


def judge_raise(ctx, exc, R, notes, o, label, prefix=""):
    """The library rejected the input: decide whether the statement allows that."""
    if not isinstance(exc, ValueError) or o.get("end_time") is None:
        return False                                            # not ours: reported as raise:... by the driver
    exc._c13_judged = True
    if not (R.aligned and not R.origin_open) or R.end_status == "boundary":
        ctx.ambiguous()
        return True
    if R.end_status == "before-last-offset":
        ctx.extra["end_time_before_last_offset_rejected"] += 1  # documented rejection
        return True
    ctx.check()
    if R.lead > 0:
        ctx.violation(prefix + "end_time-ignores-leading-time-margin",
                      f"{label}: end_time at/after the last note offset rejected when time_margin > 0: {exc}",
                      witness(notes, o, {"last_offset_frame": max(b for _, b in R.frames) - R.lead,
                                         "lead_margin_frames": R.lead}))
    else:
        ctx.violation(prefix + "end_time-wrongly-rejected", f"{label}: end_time after the last note offset rejected: {exc}",
                      witness(notes, o))
    return True


# ============================================================================ hooks
def _bind(fn, a, k):
    ba = inspect.signature(fn).bind(*a, **k)
    ba.apply_defaults()
    return dict(ba.arguments)


def install(ctx):
    core.set_current(ctx)
    if _hooks:
        return
    import partitura  # noqa
    import partitura.utils.music as M
    from scipy import sparse

    # ---------------------------------------------------------------- _make_pianoroll
    def pre_make(*a, **k):
        args = _bind(_hooks["_make_pianoroll"].orig, a, k)
        mat = np.array(args.pop("note_info"), dtype=float, copy=True)
        return mat, args

    def post_make(ret, exc, token, a, k):
        c = core.CURRENT
        mat, o = token
        _last["make"] = None
        if mat.ndim != 2 or mat.shape[0] == 0 or mat.shape[1] < 3 or np.any(mat[:, 2] < 0) or not np.all(np.isfinite(mat)):
            c.extra["make_out_of_domain"] += 1
            return
        if mat.shape[1] >= 4 and np.any(mat[:, 3] <= 0):
            c.extra["velocity_not_positive_skipped"] += 1
            return
        notes = notes_from_matrix(mat)
        o = dict(o)
        R = RP.rasterise(notes, o["time_div"], o["onset_only"], o["note_separation"], o["pitch_margin"], o["time_margin"],
                         o["piano_range"], o["remove_silence"], o["end_time"], o["binary"], o["min_time"])
        _last["make_td"] = o["time_div"]
        if exc is not None:
            handled = judge_raise(c, exc, R, notes, o, "_make_pianoroll")
            _last["make"] = ["raised"] if handled else None
            return

        def rerun_sorted():
            order = sorted(range(len(notes)), key=lambda i: notes[i][1])
            oo = dict(o)
            oo["return_idxs"] = False
            try:
                return lib_cells(_hooks["_make_pianoroll"].orig(mat[order].copy(), **oo))
            except Exception:
                return {(-1, -1): -1}

        _last["make"] = emit(c, judge(c, R, notes, o, ret, rerun_sorted), notes, o, "_make_pianoroll")
        c.state(("mk", R.aligned, bool(o["onset_only"]), bool(o["note_separation"]), o["pitch_margin"] > -1,
                 o["time_margin"] > 0, bool(o["piano_range"]), bool(o["remove_silence"]), o["end_time"] is not None,
                 bool(o["binary"]), bool(o["return_idxs"]), mat.shape[1] >= 4, strictly_increasing(notes),
                 max(R.cover.values(), default=0) > 1, R.min_frames_forced > 0, R.hidden > 0))

    h = core.Hook(M, "_make_pianoroll", pre=pre_make, post=post_make, ctx=ctx, label="_make_pianoroll")
    core.rebind_everywhere(h.orig, h.wrapper)
    _hooks["_make_pianoroll"] = h

    # ---------------------------------------------------------------- compute_pianoroll
    _meta = {"busy": False}

    def pre_compute(*a, **k):
        if _meta["busy"]:
            return None
        _last.pop("make", None)
        _last.pop("make_td", None)
        return None

    def post_compute(ret, exc, token, a, k):
        c = core.CURRENT
        o = _bind(_hooks["compute_pianoroll"].orig, a, k)
        note_info = o.pop("note_info")
        inner = _last.get("make")
        _last["compute"] = inner
        if isinstance(note_info, np.ndarray):
            na = note_info
        else:
            try:
                na = M.ensure_notearray(note_info)
            except Exception:
                c.extra["compute_no_note_array"] += 1
                return
        if na.dtype.names is None or "pitch" not in na.dtype.names:
            return
        unit = select_unit(na.dtype.names, o["time_unit"])
        if unit is None:
            c.ambiguous()
            return
        if o["time_div"] == "auto":
            c.ambiguous()
            if _last.get("make_td") is None:
                return
            if o["time_unit"] == "auto" and exc is None and not _meta.get("busy"):
                # which resolution 'auto' means is not documented, but it belongs to the unit that is used: leaving the
                # unit to the library or naming that unit oneself has to give the same roll
                _meta["busy"] = True
                try:
                    keep_make, keep_td = _last.get("make"), _last.get("make_td")
                    k2 = dict(k, time_unit=unit)
                    k2.pop("return_idxs", None)
                    try:
                        other = _hooks["compute_pianoroll"].orig(*a, **dict(k2, return_idxs=False))
                    except Exception:
                        other = None
                    _last["make"], _last["make_td"] = keep_make, keep_td
                finally:
                    _meta["busy"] = False
                mine = ret[0] if isinstance(ret, tuple) else ret
                c.check()
                if other is not None and hasattr(mine, "shape") and mine.shape != other.shape:
                    c.violation("auto-resolution-depends-on-how-the-unit-was-chosen",
                                f"time_unit='auto' (using {unit}) with time_div='auto' gives shape {mine.shape}, time_unit={unit!r} gives {other.shape}",
                                {"unit": unit, "columns": list(na.dtype.names)})
            o["time_div"] = _last["make_td"]
        try:
            o["time_div"] = int(o["time_div"])
        except Exception:
            return
        if not (np.all(np.isfinite(na[f"onset_{unit}"].astype(float))) and np.all(np.isfinite(na[f"duration_{unit}"].astype(float)))):
            c.extra["compute_non_finite_times_skipped"] += 1
            return
        notes, keep = notes_from_array(na, unit, o["remove_drums"])
        if not notes or any(n[2] < 0 for n in notes) or any(n[3] is not None and n[3] <= 0 for n in notes):
            c.extra["compute_out_of_domain"] += 1
            return
        R = RP.rasterise(notes, o["time_div"], o["onset_only"], o["note_separation"], o["pitch_margin"], o["time_margin"],
                         o["piano_range"], o["remove_silence"], o["end_time"], o["binary"])
        _last["compute_R"] = (R, notes, o)
        label = f"compute_pianoroll[{unit}]"
        if exc is not None:
            if inner is None and not getattr(exc, "_c13_judged", False):
                if judge_raise(c, exc, R, notes, o, label, "compute_pianoroll:"):
                    _last["compute"] = ["raised"]
            return
        probs = judge(c, R, notes, o, ret, None)
        if inner:
            _last["compute"] = inner            # the inner hook reported the root cause already
        elif probs:
            # the rasteriser got other notes than the given ones: find out which (hypotheses, for the key only)
            key = "result-differs-from-the-given-notes"
            names = na.dtype.names

            class _Null:                         # hypothesis runs do not count as oracle checks
                def check(self, n=1): pass
                def ambiguous(self, n=1): pass
            if "channel" in names and any(int(x) == 9 for x in na["channel"]):
                alt, _ = notes_from_array(na, unit, not o["remove_drums"])
                if alt and not judge(_Null(), RP.rasterise(alt, o["time_div"], o["onset_only"], o["note_separation"],
                                     o["pitch_margin"], o["time_margin"], o["piano_range"], o["remove_silence"],
                                     o["end_time"], o["binary"]), alt, o, ret, None):
                    key = "drum-channel-filter-wrong"
            if key.startswith("result"):
                for u in ("beat", "quarter", "div", "sec", "tick"):
                    if u != unit and f"onset_{u}" in names:
                        alt, _ = notes_from_array(na, u, o["remove_drums"])
                        if all(n[2] >= 0 for n in alt) and not judge(
                                _Null(), RP.rasterise(alt, o["time_div"], o["onset_only"], o["note_separation"],
                                                      o["pitch_margin"], o["time_margin"], o["piano_range"],
                                                      o["remove_silence"], o["end_time"], o["binary"]), alt, o, ret, None):
                            key = "wrong-time-unit-columns"
                            break
            k0, w0, x0 = probs[0]
            c.violation("compute_pianoroll:" + key, f"{label}: {w0} [{', '.join(p[0] for p in probs)}]",
                        witness(notes, o, dict(x0 or {}, fields=list(names),
                                               channel=[int(x) for x in na["channel"][:40]] if "channel" in names else None)))
            _last["compute"] = ["compute_pianoroll:" + key]
        else:
            _last["compute"] = []
        names = na.dtype.names
        c.state(("cp", unit, o["time_unit"] == "auto", "velocity" in names, "channel" in names, len(keep) < len(na),
                 bool(o["remove_drums"]), sum(f"onset_{u}" in names for u in ("beat", "quarter", "div", "sec", "tick"))))

    h = core.Hook(M, "compute_pianoroll", pre=pre_compute, post=post_compute, ctx=ctx, label="compute_pianoroll")
    core.rebind_everywhere(h.orig, h.wrapper)
    _hooks["compute_pianoroll"] = h

    # ---------------------------------------------------------------- compute_pitch_class_pianoroll
    def post_pc(ret, exc, token, a, k):
        c = core.CURRENT
        if exc is not None:
            return
        o = _bind(_hooks["compute_pitch_class_pianoroll"].orig, a, k)
        hm, hc = _hooks["_make_pianoroll"], _hooks["compute_pianoroll"]
        hm.active = False
        try:
            full, fidx = hc.orig(o["note_info"], time_unit=o["time_unit"], time_div=o["time_div"], onset_only=o["onset_only"],
                                 note_separation=o["note_separation"], pitch_margin=-1, time_margin=o["time_margin"],
                                 return_idxs=True, piano_range=False, remove_drums=True,
                                 remove_silence=o["remove_silence"], end_time=o["end_time"], binary=False)
        finally:
            hm.active = True
        ow = {kk: (vv if isinstance(vv, (int, str, bool, type(None))) else float(vv)) for kk, vv in o.items() if kk != "note_info"}
        wit = {"options": ow}
        if isinstance(o["note_info"], np.ndarray) and len(o["note_info"]) <= 40:
            wit["note_array"] = [[x.item() if hasattr(x, "item") else x for x in row] for row in o["note_info"].tolist()]
            wit["fields"] = list(o["note_info"].dtype.names)
        if o["return_idxs"]:
            c.check()
            if not (isinstance(ret, tuple) and len(ret) == 2):
                c.violation("pitch-class-return-idxs-not-a-pair", f"returned {type(ret).__name__}", wit)
                return
            pc, pidx = ret
            exp_idx = np.array(fidx)
            exp_idx[:, 0] = exp_idx[:, 0] % 12
            if np.asarray(pidx).shape != exp_idx.shape or not np.array_equal(np.asarray(pidx), exp_idx):
                c.violation("pitch-class-idx-rows-wrong", "index rows are not the full roll's rows with the pitch folded",
                            dict(wit, idx=np.asarray(pidx)[:8].tolist(), expected=exp_idx[:8].tolist()))
        else:
            pc = ret
        pc = np.asarray(pc)
        cols = full.shape[1]
        c.check()
        if pc.shape != (12, cols):
            c.violation("pitch-class-roll-shape", f"shape {pc.shape}, full roll has {cols} columns", wit)
            return
        cells = lib_cells(full)
        exp = RP.fold(cells, cols, binary=o["binary"], normalize=o["normalize"], how="sum")
        c.check(12 * cols)

        def differs(e):
            return [(r, j, float(pc[r, j]), float(e[r][j])) for r in range(12) for j in range(cols)
                    if abs(float(pc[r, j]) - float(e[r][j])) > 1e-9 * max(1.0, abs(float(e[r][j])))]

        d = differs(exp)
        if d:
            alt = RP.fold(cells, cols, binary=o["binary"], normalize=o["normalize"], how="max")
            if not differs(alt):
                c.ambiguous()                 # same pitch class in two octaves: sum or maximum is left open
            else:
                if o["normalize"] and not differs(RP.fold(cells, cols, binary=o["binary"], normalize=False)):
                    key = "pitch-class-roll-not-normalised"
                elif o["binary"] and not differs(RP.fold(cells, cols, binary=False, normalize=o["normalize"])):
                    key = "pitch-class-roll-not-binary"
                else:
                    key = "pitch-class-roll-not-the-octave-fold"
                c.violation(key, f"{len(d)} entries differ from the fold of the full roll, e.g. [pc, col, got, expected] "
                                 f"{[list(x) for x in d[:4]]}", dict(wit, entries=[list(x) for x in d[:8]]))
        c.state(("pc", bool(o["normalize"]), bool(o["binary"]), bool(o["return_idxs"]), bool(o["onset_only"]),
                 any(r >= 120 for r, _ in cells), any(r < 12 for r, _ in cells)))

    h = core.Hook(M, "compute_pitch_class_pianoroll", post=post_pc, ctx=ctx, label="compute_pitch_class_pianoroll")
    core.rebind_everywhere(h.orig, h.wrapper)
    _hooks["compute_pitch_class_pianoroll"] = h

    # ---------------------------------------------------------------- pianoroll_to_notearray
    def post_inv(ret, exc, token, a, k):
        c = core.CURRENT
        o = _bind(_hooks["pianoroll_to_notearray"].orig, a, k)
        roll = o["pianoroll"]
        dense = roll.toarray() if sparse.issparse(roll) else np.asarray(roll)
        if dense.ndim != 2 or dense.shape[0] not in (128, 88):
            c.extra["inverse_out_of_domain"] += 1
            return
        if not (np.issubdtype(dense.dtype, np.integer) and dense.min(initial=0) >= 0 and dense.max(initial=0) <= 127):
            c.extra["inverse_out_of_domain"] += 1
            return
        td, unit = o["time_div"], o["time_unit"]
        nz = [(int(r), row.tolist()) for r, row in enumerate(dense) if row.any()]
        wit = {"shape": list(dense.shape), "time_div": td, "time_unit": unit,
               "nonzero_rows{row:values}": {str(r): row[:64] for r, row in nz[:6]}}
        if exc is not None:
            c.violation(f"inverse-raise:{type(exc).__name__}", f"pianoroll_to_notearray raised {type(exc).__name__}: {exc}", wit)
            exc._c13_judged = True
            return
        init = 21 if dense.shape[0] == 88 else 0
        exp, touching = RP.decode([row for _, row in nz], 0)
        exp = [(nz[p][0] + init, a_, b_, v) for p, a_, b_, v in exp]
        _last["inverse_touching"] = touching
        if touching:
            c.ambiguous()
            return
        c.check(max(1, len(exp)))
        names = ret.dtype.names or ()
        of, df = f"onset_{unit}", f"duration_{unit}"
        if not all(f in names for f in ("pitch", of, df, "velocity")):
            c.violation("inverse-fields-missing", f"fields {names}", wit)
            return
        got = sorted((int(r["pitch"]), float(r[of]), float(r[df]), int(r["velocity"])) for r in ret)
        want = sorted((p, Fraction(a_, td), Fraction(b_ - a_, td), v) for p, a_, b_, v in exp)

        def close(x, e):
            return abs(Fraction(x) - e) <= Fraction(1, 10**6) * max(1, abs(e))

        if len(got) != len(want):
            c.violation("inverse-note-count", f"{len(got)} notes from a roll with {len(want)} runs", wit)
            return
        for g, w in zip(got, want):
            if g[0] != w[0]:
                key = "inverse-pitch-wrong"
            elif not close(g[1], w[1]):
                key = "inverse-onset-wrong"
            elif not close(g[2], w[2]):
                key = "inverse-duration-wrong"
            elif g[3] != w[3]:
                key = "inverse-velocity-wrong"
            else:
                continue
            c.violation(key, f"note {list(g)} where the roll has a run (pitch, onset, duration, velocity) = "
                             f"{[w[0], float(w[1]), float(w[2]), w[3]]}", wit)
            break
        c.state(("inv", dense.shape[0], sparse.issparse(roll), len(want) > 0, td))

    h = core.Hook(M, "pianoroll_to_notearray", post=post_inv, ctx=ctx, label="pianoroll_to_notearray")
    core.rebind_everywhere(h.orig, h.wrapper)
    _hooks["pianoroll_to_notearray"] = h


def setup(ctx):
    install(ctx)


# ============================================================================ driver
def plan(tier, seed):
    # every shard starts with an item of small cases (<= 3 notes), so that the witnesses kept per mechanism are small
    small = [["small", i] for i in range(16)]
    if tier == "quick":
        items = small + [["gen", i] for i in range(256)] + [["rolls", i] for i in range(48)]
        items += [["fixture", "musicxml/test_note_ties.xml"], ["fixture", "midi/test_basic_midi.mid"],
                  ["fixture", "musicxml/test_chew_vosa_example.xml"]]
        return items
    items = small + [["gen", i] for i in range(5000)] + [["rolls", i] for i in range(800)]
    for sub in ("musicxml", "midi", "match", "mei", "kern"):
        d = os.path.join(DATA, sub)
        if os.path.isdir(d):
            items += [["fixture", f"{sub}/{f}"] for f in sorted(os.listdir(d))
                      if f.endswith((".xml", ".musicxml", ".mid", ".match", ".mei", ".krn"))]
    return items


def _call(ctx, fn, *a, **k):
    """Library call whose raise is a violation unless a hook already judged it.  -> (ok, result)"""
    try:
        return True, ctx.call(fn, *a, **k)
    except core.PartituraRaised as pr:
        if getattr(pr.exc, "_c13_judged", False):
            return False, None
        ctx.raised(pr, {"options": {kk: repr(vv) for kk, vv in k.items()}})
        return False, None


def run_case(ctx, rng, na, opts, meta, first=False):
    import partitura.utils.music as M
    _last.clear()
    ok, res = _call(ctx, M.compute_pianoroll, na, **opts)
    probs = _last.get("compute")
    ref = _last.get("compute_R")
    n_opts = sum(1 for kk in opts if kk not in ("time_unit", "time_div", "return_idxs"))
    collision = unsorted = False
    sounding = len(na)
    if ref is not None:
        R, notes, o = ref
        collision = max(R.cover.values(), default=0) > 1
        unsorted = not all(notes[i][1] <= notes[i + 1][1] for i in range(len(notes) - 1))
        sounding = len(notes) - R.hidden
    nontrivial = ok and sounding >= 2 and (int(collision) + int(unsorted) + int(n_opts >= 2)) >= 2 and ref is not None
    sig = [hashlib.sha1(na.tobytes()).hexdigest()[:16], str(na.dtype.names), sorted((kk, repr(vv)) for kk, vv in opts.items())]
    ctx.case(sig, nontrivial, cls=("grid" if meta.get("grid") else "off-grid") + ("/perf" if meta.get("perf") else "/score"),
             sample={"fields": list(na.dtype.names), "rows": [[x for x in row] for row in na.tolist()[:6]], "options":
                     {kk: (vv if isinstance(vv, (int, str, bool)) else float(vv)) for kk, vv in opts.items()},
                     "shape": list((res[0] if isinstance(res, tuple) else res).shape)} if (first and ok) else None)
    if not ok:
        return
    # ------------------------------------------------------------------ order independence (metamorphic)
    if len(na) >= 2:
        perm = list(range(len(na)))
        rng.shuffle(perm)
        na2 = na[perm].copy()
        _last.clear()
        ok2, res2 = _call(ctx, M.compute_pianoroll, na2, **opts)
        probs2 = _last.get("compute")
        if ok2:
            ctx.check()
            p1 = res[0] if isinstance(res, tuple) else res
            p2 = res2[0] if isinstance(res2, tuple) else res2
            c1, c2 = lib_cells(p1), lib_cells(p2)
            wit = None
            if p1.shape != p2.shape or c1 != c2:
                names = na.dtype.names
                wit = {"fields": list(names), "rows": [list(r) for r in na.tolist()[:40]], "permutation": perm[:40],
                       "options": {kk: (vv if isinstance(vv, (int, str, bool)) else float(vv)) for kk, vv in opts.items()}}
                if not probs and not probs2:        # else the hooks already reported the root cause
                    if p1.shape == p2.shape and set(c1) == set(c2) and "velocity" in names and not opts.get("binary"):
                        key = "velocity-on-wrong-note-unsorted-input"
                    else:
                        key = "result-depends-on-row-order"
                    ctx.violation(key, f"the same notes in another row order give another roll: shapes {p1.shape}/{p2.shape}, "
                                       f"{len(set(c1.items()) ^ set(c2.items()))} cell entries differ", wit)
            elif isinstance(res, tuple) and not probs and not probs2:
                i1, i2 = np.asarray(res[1]), np.asarray(res2[1])
                keep = list(range(len(na)))
                if "channel" in na.dtype.names and opts.get("remove_drums", True):
                    keep = [i for i in keep if na["channel"][i] != 9]
                pos = {i: k_ for k_, i in enumerate(keep)}
                keep2 = [i for i in perm if i in pos]           # original indices in the order of na2's kept rows
                ctx.check()
                if i2.shape != i1.shape or any(tuple(i2[k_]) != tuple(i1[pos[i]]) for k_, i in enumerate(keep2)):
                    ctx.violation("idx-rows-not-in-input-order", "index rows of permuted input are not the permuted index rows",
                                  {"fields": list(na.dtype.names), "rows": [list(r) for r in na.tolist()[:40]],
                                   "permutation": perm[:40], "options": {kk: repr(vv) for kk, vv in opts.items()}})
    # ------------------------------------------------------------------ pitch-class roll
    if rng.random() < 0.35:
        kw = {kk: vv for kk, vv in opts.items() if kk in ("time_unit", "time_div", "onset_only", "note_separation",
                                                            "time_margin", "return_idxs", "remove_silence", "end_time", "binary")}
        if rng.random() < 0.5:
            kw["normalize"] = False
        if rng.random() < 0.3:
            kw["binary"] = True
        _last.clear()
        _call(ctx, M.compute_pitch_class_pianoroll, na, **kw)
    # ------------------------------------------------------------------ inverse of this very roll
    if ref is not None and not probs:
        R, notes, o = ref
        if (R.aligned and not R.origin_open and not R.rows_open and o["pitch_margin"] == -1 and not o["onset_only"]
                and not o["note_separation"] and not o["binary"] and R.min_frames_forced == 0
                and max(R.cover.values(), default=0) == 1
                and not any((r, c + 1) in R.cells and R.idx[i][2] == c + 1 for i, (r, a, b, p) in enumerate(R.idx)
                            for c in [b - 1] if 0 <= r < R.rows)):
            pr = res[0] if isinstance(res, tuple) else res
            unit = select_unit(na.dtype.names, o["time_unit"])
            td = o["time_div"]
            form = rng.choice(["sparse", "dense"])
            _last.clear()
            ok3, back = _call(ctx, M.pianoroll_to_notearray, pr if form == "sparse" else pr.toarray(), td, unit)
            if ok3:
                vis = [(i, n) for i, n in enumerate(notes) if 0 <= R.idx[i][0] < R.rows]
                want = sorted((n[0], Fraction(R.idx[i][1], td), Fraction(R.idx[i][2] - R.idx[i][1], td),
                               1 if n[3] is None else n[3]) for i, n in vis)
                got = sorted((int(r["pitch"]), float(r[f"onset_{unit}"]), float(r[f"duration_{unit}"]), int(r["velocity"]))
                             for r in back)
                ctx.check(len(want))
                ctx.extra["roundtrips"] += 1
                bad = len(got) != len(want) or any(
                    g[0] != w[0] or g[3] != w[3] or abs(Fraction(g[1]) - w[1]) > Fraction(1, 10**6) * max(1, abs(w[1]))
                    or abs(Fraction(g[2]) - w[2]) > Fraction(1, 10**6) * max(1, abs(w[2])) for g, w in zip(got, want))
                if bad and not _last.get("inverse_touching"):
                    ctx.violation("roundtrip-notes-not-recovered",
                                  f"roll -> note array gives {[list(g) for g in got[:4]]}, the roll was made from "
                                  f"{[[w[0], float(w[1]), float(w[2]), w[3]] for w in want[:4]]} (onsets relative to the first frame)",
                                  witness(notes, o, {"form": form}))


def snap_array(rng, na, unit, td, with_vel=None):
    """A copy of a fixture note array with the `unit` columns snapped to the 1/td grid (rows shuffled)."""
    dt = [("pitch", "i4"), (f"onset_{unit}", "f4"), (f"duration_{unit}", "f4")]
    names = na.dtype.names
    if "velocity" in names:
        dt.append(("velocity", "i4"))
    elif with_vel:
        dt.append(("velocity", "i4"))
    if "channel" in names:
        dt.append(("channel", "i4"))
    na = na[np.isfinite(na[f"onset_{unit}"].astype(float)) & np.isfinite(na[f"duration_{unit}"].astype(float))
            & (na[f"duration_{unit}"].astype(float) >= 0)]
    out = np.zeros(len(na), dtype=dt)
    out["pitch"] = na["pitch"]
    out[f"onset_{unit}"] = np.round(na[f"onset_{unit}"].astype(float) * td) / td
    out[f"duration_{unit}"] = np.round(na[f"duration_{unit}"].astype(float) * td) / td
    if "velocity" in names:
        out["velocity"] = np.maximum(na["velocity"], 1)
    elif with_vel:
        out["velocity"] = [rng.randint(1, 127) for _ in range(len(na))]
    if "channel" in names:
        out["channel"] = na["channel"]
    perm = list(range(len(na)))
    rng.shuffle(perm)
    return out[perm].copy()


def random_opts(rng, td, unit):
    o = {"time_unit": unit, "time_div": td}
    if rng.random() < 0.3:
        o["onset_only"] = True
    if rng.random() < 0.3:
        o["note_separation"] = True
    if rng.random() < 0.3:
        o["pitch_margin"] = rng.choice([0, 2])
    if rng.random() < 0.3:
        o["time_margin"] = rng.choice([1, 2])
    if rng.random() < 0.3:
        o["piano_range"] = True
    if rng.random() < 0.3:
        o["remove_silence"] = False
    if rng.random() < 0.3:
        o["binary"] = True
    if rng.random() < 0.6:
        o["return_idxs"] = True
    return o


def run_fixture(ctx, rel):
    import warnings
    import partitura
    import partitura.utils.music as M
    rng = ctx.rng("fixture", rel)
    path = os.path.join(DATA, rel)
    objs = []
    with warnings.catch_warnings():
        warnings.simplefilter("ignore")
        try:
            if rel.endswith(".mid"):
                objs = [("perf", partitura.load_performance_midi(path))]
                try:
                    objs += [("part", p) for p in partitura.load_score_midi(path).parts]
                except Exception:
                    ctx.extra["fixture_score_midi_load_failed"] += 1
            elif rel.endswith(".match"):
                perf, alignment, score = partitura.load_match(path, create_score=True)
                objs = [("perf", perf)] + [("part", p) for p in score.parts]
            else:
                objs = [("part", p) for p in partitura.load_score(path).parts]
        except Exception:
            ctx.extra["fixture_load_failed"] += 1          # loading is not this property's subject
            return
    for kind, obj in objs:
        try:
            na = obj.note_array()
        except Exception:
            ctx.extra["fixture_note_array_failed"] += 1
            continue
        if len(na) == 0:
            continue
        tcols = [n for n in na.dtype.names if n.startswith(("onset_", "duration_"))]
        finite = all(np.all(np.isfinite(na[c_].astype(float))) and (not c_.startswith("duration_") or np.all(na[c_] >= 0))
                     for c_ in tcols)
        if not finite:
            ctx.extra["fixture_non_finite_or_negative_durations"] += 1      # outside the domain: only the cleaned copy is used
        else:
            # raw object through the public entry point (off the grid in general: loosely judged)
            _last.clear()
            _call(ctx, M.compute_pianoroll, obj, return_idxs=True)
            ctx.case(["fixture-raw", rel, kind, len(na)], False, cls="fixture/raw")
            if len(na) < 3000:
                _last.clear()
                _call(ctx, M.compute_pitch_class_pianoroll, obj)
        if kind == "part":
            cells = int(np.sum(np.maximum(na["duration_div"], 1)))
            if cells < 400000 and finite:
                run_case(ctx, rng, obj.note_array(), {"time_unit": "div", "time_div": 1, "return_idxs": True},
                         {"grid": True, "perf": False})
                _last.clear()
                _call(ctx, M.compute_pianoroll, obj, time_unit="div", time_div=1, remove_silence=False)
            unit = "beat"
        else:
            unit = "sec"
        if len(na) > 4000:
            na = na[:4000]
        for td in ([4, 12] if kind == "part" else [8, 20]):
            if not np.nanmax(na[f"onset_{unit}"] + na[f"duration_{unit}"]) * td <= 6000:
                continue
            sn = snap_array(rng, na, unit, td, with_vel=rng.random() < 0.5)
            if len(sn) == 0:
                continue
            o = random_opts(rng, td, unit)
            if np.min(sn[f"onset_{unit}"]) < 0:
                o.pop("remove_silence", None)
            run_case(ctx, rng, sn, o, {"grid": True, "perf": kind == "perf"})


def run_item(ctx, item):
    import partitura.utils.music as M
    from workloads import gen_pianoroll_arrays as G
    core.set_current(ctx)
    kind = item[0]
    big = ctx.tier == "thorough"
    if kind in ("gen", "small"):
        rng = ctx.rng(kind, item[1])
        for j in range(CASES_PER_ITEM):
            case = G.make_case(rng, big=big, small=(j < 8 or kind == "small"))
            run_case(ctx, rng, case["na"], case["opts"], case["meta"], first=(j == 8))
    elif kind == "rolls":
        from scipy import sparse
        rng = ctx.rng("rolls", item[1])
        for j in range(ROLLS_PER_ITEM):
            roll, rkind = G.make_roll(rng, big=big)
            td = rng.choice([1, 2, 4, 8, 12, 100])
            unit = rng.choice(["sec", "beat", "quarter", "div"])
            form = rng.choice(["dense", "csc", "csr"])
            arg = roll if form == "dense" else (sparse.csc_matrix(roll) if form == "csc" else sparse.csr_matrix(roll))
            _last.clear()
            ok, back = _call(ctx, M.pianoroll_to_notearray, arg, td, unit)
            ctx.case(["roll", hashlib.sha1(roll.tobytes()).hexdigest()[:16], roll.shape[0], td, unit, form],
                     bool(roll.any()) and rkind == "notes", cls=f"roll/{rkind}",
                     sample={"shape": list(roll.shape), "kind": rkind, "time_div": td, "notes": None if not ok else len(back)}
                     if j == 0 else None)
            if ok and rkind == "notes" and len(back) and td in (1, 2, 4, 8):
                # and forward again: the note array of a roll rasterises to that roll
                kw = dict(time_unit=unit, time_div=td, remove_silence=False, piano_range=roll.shape[0] == 88,
                          end_time=roll.shape[1] / td)
                _last.clear()
                ok2, again = _call(ctx, M.compute_pianoroll, back, **kw)
                if ok2 and not _last.get("compute"):
                    ctx.check()
                    if again.shape != roll.shape or not np.array_equal(again.toarray(), roll):
                        ctx.violation("roll-notes-roll-not-identity", "rasterising the decoded notes does not give the roll back",
                                      {"shape": list(roll.shape), "time_div": td,
                                       "nonzero_rows": {str(r): roll[r].tolist()[:64] for r in np.nonzero(roll.any(axis=1))[0][:6]}})
    elif kind == "fixture":
        run_fixture(ctx, item[1])
    else:
        raise ValueError(f"unknown item {item!r}")
