"""C09 — unfolding repeats concatenates segments along a valid path and nothing else.

Hooks on the real new_part_from_path / unfold_part_maximal / unfold_part_minimal /
get_paths record (original part, path, unfolded part); checker 1 rebuilds the
expected notes from the original and the path (segment copy), checker 2
validates the path against an independent reading of the marks, checker 3
compares maximal/minimal paths and the variant count with the notated
structure for repeat/volta-only parts.
"""
import collections

from vmon import core, snapshot
from vmon.refmodels import repeats as R
from vmon.refmodels import timemaps

PROP = "C09"
RULE = ("parts generated from a block grammar: plain | repeat(body) | repeat(body, endings numbered '1','2','1,2','3') | nested "
        "repeat, optional D.C./fine or segno/to-coda/D.S./coda at measure boundaries, a repeat starting at time 0, ties and slurs "
        "crossing segment boundaries, division and signature changes inside repeated sections; x update_ids x ignore_leaps x the "
        "three path policies; plus the unfold fixtures; non-trivial = >=2 repeat constructs or a volta, and >=1 boundary-crossing "
        "reference; distinct by structure string")
ASSUMPTIONS = ["exact-path oracle only for non-nested repeat/volta structures without navigation marks; otherwise segment-copy and path-validity checkers",
               "System/Page objects and time/key signatures and clefs that repeat the one in force are documented as not copied (one-sided check)",
               "a reference whose target lies in a segment copied separately may become None (stays inside the copy)"]
MIN_HOOKS = {"new_part_from_path": {"quick": 300, "thorough": 8000}, "get_paths": {"quick": 300, "thorough": 5000}}
MIN_NONTRIVIAL = {"quick": 150, "thorough": 1500}
_installed = False
JUMP_CLASSES = ("Repeat", "Ending", "DaCapo", "DalSegno", "ToCoda")
ELIDABLE = ("TimeSignature", "KeySignature", "Clef", "System", "Page", "Segment") + JUMP_CLASSES


def registered(part):
    out = []
    for tp in part._points:
        for objs in tp.starting_objects.values():
            out.extend(objs)
    return out


def note_key(o, S):
    pitch = (o.step, o.alter or 0, o.octave) if isinstance(o, S.Note) else (getattr(o, "step", None), None, getattr(o, "octave", None))
    return (type(o).__name__, pitch, o.voice, o.staff)


def check_unfolded(ctx, P, path_ids, seg_table, U, update_ids, label):
    import partitura.score as S
    m = R.marks(P)
    w = {"path": "-".join(path_ids), "segments": {k: list(v) for k, v in seg_table.items()}, "marks": {k: v for k, v in m.items() if v},
         "update_ids": update_ids, "via": label}
    # ---- checker 2: path validity
    ctx.check()
    segs_model = R.segments(m)
    real_segs = sorted(seg_table.values())
    if real_segs != segs_model:
        ctx.violation("segment-boundaries-differ-from-marks", f"segments {real_segs} vs marks-derived {segs_model}", w)
        return
    err = R.validate_path(m, path_ids)
    if err:
        ctx.violation("path-not-permitted-by-marks", err, w)
        return
    # ---- checker 1: segment copy
    total = 0
    exp_notes = collections.Counter()
    exp_other = collections.Counter()
    id_occ = collections.defaultdict(list)
    p_objs = registered(P)
    by_start = collections.defaultdict(list)
    for o in p_objs:
        by_start[int(o.start.t)].append(o)
    max_end = 0
    rows = []
    for sid in path_ids:
        s, e = seg_table[sid]
        delta = total - s
        for t in sorted(by_start):
            if s <= t < e:
                for o in by_start[t]:
                    cname = type(o).__name__
                    if cname == "Segment":
                        continue
                    end = int(o.end.t) + delta if o.end is not None else None
                    if end is not None and cname not in ELIDABLE and cname not in ("Slur", "Tuplet"):
                        max_end = max(max_end, end)
                    if isinstance(o, S.GenericNote):
                        rows.append((o, t + delta, end))
                    else:
                        exp_other[(cname, t + delta, end)] += 1
        total += e - s
    # expected ids
    if update_ids:
        occ = collections.defaultdict(list)
        for i, (o, st, en) in enumerate(rows):
            if isinstance(o, S.Note) and o.id is not None:
                occ[o.id].append((st, i))
        new_id = {}
        for nid, lst in occ.items():
            for k, (st, i) in enumerate(sorted(lst)):
                new_id[i] = f"{nid}-{k + 1}"
    for i, (o, st, en) in enumerate(rows):
        oid = new_id.get(i, o.id) if update_ids else o.id
        exp_notes[(note_key(o, S), st, en, oid)] += 1
    u_objs = registered(U)
    got_notes = collections.Counter()
    got_other = collections.Counter()
    for o in u_objs:
        cname = type(o).__name__
        end = int(o.end.t) if o.end is not None else None
        if isinstance(o, S.GenericNote):
            got_notes[(note_key(o, S), int(o.start.t), end, o.id)] += 1
        else:
            got_other[(cname, int(o.start.t), end)] += 1
    ctx.check(3)
    if got_notes != exp_notes:
        missing = list((exp_notes - got_notes).items())[:3]
        extra = list((got_notes - exp_notes).items())[:3]
        # classify
        strip = lambda c: collections.Counter({k[:3]: v for k, v in c.items()})  # noqa
        if strip(got_notes) == strip(exp_notes):
            key = "unfolded-note-ids-wrong"
        elif sum(got_notes.values()) < sum(exp_notes.values()):
            key = "unfolded-note-missing"
        elif sum(got_notes.values()) > sum(exp_notes.values()):
            key = "unfolded-note-duplicated"
        else:
            key = "unfolded-note-changed"
        ctx.violation(key, f"expected-only {missing}; unfolded-only {extra}", w)
        return
    # ---- the copy of a segment stands under what was in force in the original segment: divisions, time and key
    # signature, and the clef of the note's staff at every copied note (the previous segment of the path may have
    # ended under other ones: after a jump back they have to be restated)
    from vmon.refmodels import sigmaps
    dP, dU = sigmaps.describe(P), sigmaps.describe(U)
    for o, st, en in rows:
        t0 = int(o.start.t)
        ctx.check(4)
        for what, fa, fb in (("divisions", sigmaps.div_at(dP, t0), sigmaps.div_at(dU, st)),
                             ("time-signature", sigmaps.ts_at(dP, t0), sigmaps.ts_at(dU, st)),
                             ("key-signature", sigmaps.ks_at(dP, t0), sigmaps.ks_at(dU, st)),
                             ("clef", sigmaps.clef_at(dP, o.staff or 1, t0), sigmaps.clef_at(dU, o.staff or 1, st))):
            if what == "divisions":
                differs, amb = fa != fb, False
            else:
                differs, amb = fa[0][:2 if what == "time-signature" else None] != fb[0][:2 if what == "time-signature" else None], fa[1] or fb[1]
                if what != "divisions" and (not dP[{"time-signature": "ts", "key-signature": "ks", "clef": "clefs"}[what]]):
                    differs = False      # nothing declared in the original: defaults on both sides
                if what == "time-signature" and dP["ts"] and t0 < dP["ts"][0][0]:
                    amb = True           # before the first signature: what counts there is C10's business
                if what == "key-signature" and dP["ks"] and t0 < dP["ks"][0][0]:
                    amb = True
                if what == "clef" and not any(c[1] == (o.staff or 1) and c[0] <= t0 for c in dP["clefs"]):
                    amb = True
            if amb:
                ctx.ambiguous()
            elif differs:
                ctx.violation(f"copied-segment-under-other-{what}", f"note {o.id} of the original (t={t0}) stands under {fa}; its copy at {st} under {fb}", w)
                return
    for k, v in got_other.items():
        if k[0] in ("TimeSignature", "KeySignature", "Clef"):
            continue                     # judged through what is in force at every copied note (above)
        if k[0] in JUMP_CLASSES:
            ctx.violation("jump-object-left-in-unfolded-part", f"{k[0]} at {k[1]} remains", w)
            return
        if exp_other[k] < v:
            if any(kk[0] == k[0] and kk[1] == k[1] and (kk[2] is None or k[0] in ("Slur", "Tuplet")) for kk in exp_other):
                continue                 # the copy of a slur/tuplet takes its end from its end note (setter); an unset end gets set
            if k[0] == "Fermata":
                ctx.ambiguous()          # documented special case: barline fermata at a segment end
                continue
            ctx.violation("unfolded-object-not-a-copy-of-a-visited-object", f"{k} x{v}, original provides x{exp_other[k]}", w)
            return
    # length
    ctx.check()
    first_u, last_u = int(U.first_point.t), int(U.last_point.t)
    if last_u > max(total, max_end) and first_u == 0 and any(
            type(o).__name__ in ("Slur", "Tuplet") and o.end is not None and int(o.end.t) > max(total, max_end) for o in u_objs):
        ctx.violation("unfolded-timeline-extended-by-overhanging-slur", f"unfolded timeline ends at {last_u}, visited segments sum to {total}: a "
                      "slur/tuplet copied from the last visited segment keeps its end beyond it", w)
        return
    if last_u != max(total, max_end) or first_u != 0:
        ctx.violation("unfolded-length-wrong", f"unfolded timeline [{first_u},{last_u}], visited segments sum to {total} (longest copied object ends {max_end})", w)
        return
    # ---- reference closure: nothing in the unfolded part may refer to an object (or time point) of the original
    originals = {id(o) for o in p_objs} | {id(tp) for tp in P._points}
    for tp in P._points:
        for objs in tp.ending_objects.values():
            originals.update(id(o) for o in objs)
    pts = list(U._points)
    pt_ids = {id(p) for p in pts}
    ctx.check()
    for i, p in enumerate(pts):
        if p.prev is not (pts[i - 1] if i else None) or p.next is not (pts[i + 1] if i + 1 < len(pts) else None):
            ctx.violation("unfolded-timepoint-links-leave-the-copy", f"point t={p.t} prev/next are not its neighbours in the unfolded part", w)
            return
    all_u = list(u_objs)
    for tp in pts:
        for objs in tp.ending_objects.values():
            all_u.extend(objs)
    for o in all_u:
        if id(o) in originals:
            ctx.violation("original-object-registered-in-unfolded-part", f"{type(o).__name__} of the original is listed in the unfolded part", w)
            return
        if (o.start is not None and id(o.start) not in pt_ids) or (o.end is not None and id(o.end) not in pt_ids):
            ctx.violation("unfolded-object-time-points-leave-the-copy", f"{type(o).__name__} start/end is not a point of the unfolded part", w)
            return
        for attr in list(getattr(o, "_ref_attrs", [])) + ["ref", "fermata", "beam"]:
            v = getattr(o, attr, None)
            if isinstance(v, (str, int, float)):
                continue
            for t in (v if isinstance(v, list) else [v]):
                if t is not None and id(t) in originals:
                    ctx.violation("unfolded-reference-leaves-the-copy", f"{type(o).__name__}.{attr} of the unfolded part refers to an object of the original part", w)
                    return
    # ---- ties and slurs of the unfolded part join neighbours of one copy: a tie is answered by the note it points to, which
    # begins where the tied note ends; a slur does not run backwards
    ctx.check()
    for o in all_u:
        if isinstance(o, S.GenericNote):
            for attr, back in (("tie_next", "tie_prev"), ("tie_prev", "tie_next")):
                t_ = getattr(o, attr, None)
                if t_ is None:
                    continue
                a_, b_ = (o, t_) if attr == "tie_next" else (t_, o)
                if getattr(t_, back, None) is not o or a_.end is None or b_.start is None or a_.end.t != b_.start.t:
                    ctx.violation("unfolded-tie-joins-notes-of-different-copies", f"{getattr(o, 'id', None)}.{attr} -> {getattr(t_, 'id', None)}: "
                                  f"[{o.start.t},{o.end.t if o.end else None}) and [{t_.start.t if t_.start else None},{t_.end.t if t_.end else None}), "
                                  f"answered: {getattr(t_, back, None) is o}", w)
                    return
        elif isinstance(o, S.Slur):
            sn, en = getattr(o, "start_note", None), getattr(o, "end_note", None)
            if sn is not None and en is not None and sn.start is not None and en.start is not None and sn.start.t > en.start.t:
                ctx.violation("unfolded-slur-runs-backwards", f"slur from the note at {sn.start.t} to the note at {en.start.t}", w)
                return


def install(ctx):
    global _installed
    core.set_current(ctx)
    if _installed:
        return
    _installed = True
    import partitura.score as S

    def post_npfp(ret, exc, token, a, k):
        if exc is not None:
            return
        path, part = a[0], a[1]
        update_ids = a[2] if len(a) > 2 else k.get("update_ids", True)
        seg_table = {sid: (int(seg.start.t), int(seg.end.t)) for sid, seg in path.segments.items()}
        check_unfolded(core.CURRENT, part, list(path.path), seg_table, ret, update_ids, "new_part_from_path")

    h = core.Hook(S, "new_part_from_path", post=post_npfp, ctx=ctx, label="new_part_from_path")
    core.rebind_everywhere(h.orig, h.wrapper)

    depth = {"n": 0}

    def mk_unmodified(fname):
        def pre(*a, **k):
            depth["n"] += 1
            if depth["n"] > 1:
                return None          # nested inside another observed entry point: the outer one judges the argument
            arg = a[0] if a else next(iter(k.values()))
            return (snapshot.snap(arg), snapshot.snap(arg, drop_classes=("Segment",)))

        def post(ret, exc, token, a, k):
            depth["n"] -= 1
            if exc is not None or token is None:
                return
            arg = a[0] if a else next(iter(k.values()))
            judge_unmodified(core.CURRENT, arg, token, fname)
        h2 = core.Hook(S, fname, pre=pre, post=post, ctx=ctx, label=fname)
        core.rebind_everywhere(h2.orig, h2.wrapper)

    for fname in ("unfold_part_maximal", "unfold_part_minimal", "get_paths", "make_score_variants"):
        mk_unmodified(fname)


def judge_unmodified(ctx, arg, token, fname):
    full0, nos0 = token
    ctx.check()
    full1 = snapshot.snap(arg)
    if full1 == full0:
        return True
    nos1 = snapshot.snap(arg, drop_classes=("Segment",))
    if nos1 == nos0:
        # only Segment objects were added / changed
        import collections as _c
        added = _c.Counter(r[0] for r in full1.records) - _c.Counter(r[0] for r in full0.records)
        had = not added.get("Segment")
        if had:
            ctx.violation("segment-destinations-rewritten-on-argument", f"{fname} changed Segment objects registered on the argument: "
                          f"{snapshot.diff(full0, full1)[:3]}", {"function": fname})
        else:
            ctx.violation("segments-registered-on-argument", f"{fname} registered Segment objects on its argument", {"function": fname})
        return False
    ctx.violation("original-part-modified", f"{fname} changed its argument: {snapshot.diff(nos0, nos1)[:3]}", {"function": fname})
    return False


def setup(ctx):
    install(ctx)


# ---------------------------------------------------------------- workload
def build(rng, nav_allowed=True):
    """Returns (part, meta). meta: structure string, expected max/min as lists of (start, end) pieces (or None),
    n_simple_repeats, only_simple, crossing references."""
    import partitura.score as S
    q = rng.choice([2, 4, 4, 12])
    part = S.Part("U", "unfold", quarter_duration=q)
    ts = rng.choice([(4, 4), (3, 4), (2, 4)])
    # the first time point of a part need not be 0 (a part cut out of a longer one, a part that enters later)
    T0 = rng.choice([1, 3, 4]) * q * 4 * ts[0] // ts[1] if rng.random() < 0.25 else 0
    part.add(S.TimeSignature(*ts), T0)
    part.add(S.KeySignature(rng.randint(-3, 3), "major"), T0)
    part.add(S.Clef(1, "G", 2, 0), T0)
    state = {"t": T0, "q": q, "ts": ts, "mno": 0, "notes": [], "nid": 0}

    def add_measures(n):
        start = state["t"]
        for _ in range(n):
            if rng.random() < 0.08 and state["t"] > T0:
                state["ts"] = rng.choice([x for x in [(4, 4), (3, 4), (2, 4)] if x != state["ts"]])   # a real change (redundant ones are elided by design)
                part.add(S.TimeSignature(*state["ts"]), state["t"])
            if rng.random() < 0.06 and state["t"] > T0:
                state["q"] = rng.choice([2, 4, 6, 12])
                part.set_quarter_duration(state["t"], state["q"])
            bar = state["q"] * 4 * state["ts"][0] // state["ts"][1]
            state["mno"] += 1
            part.add(S.Measure(number=state["mno"], name=str(state["mno"])), state["t"], state["t"] + bar)
            beat = state["q"]
            pos = state["t"]
            while pos < state["t"] + bar:
                d = min(beat * rng.choice([1, 1, 2]), state["t"] + bar - pos)
                if rng.random() < 0.85:
                    state["nid"] += 1
                    n_ = S.Note(rng.choice("CDEFGAB"), rng.choice([4, 5]), rng.choice([None, 1, -1]), id=f"n{state['nid']}", voice=1, staff=1)
                    part.add(n_, pos, pos + d)
                    state["notes"].append(n_)
                    if rng.random() < 0.06:
                        fm = S.Fermata(n_)
                        n_.fermata = fm
                        part.add(fm, pos)
                    if rng.random() < 0.08:
                        g = S.GraceNote("acciaccatura", "D", 5, id=f"g{state['nid']}", voice=1, staff=1)
                        part.add(g, pos, pos)
                        g.grace_next = n_
                else:
                    state["nid"] += 1
                    part.add(S.Rest(id=f"r{state['nid']}", voice=1, staff=1), pos, pos + d)
                pos += d
            state["t"] += bar
        return (start, state["t"])

    def add_volta():
        body = add_measures(rng.randint(1, 2))
        scheme = rng.choice([["1", "2"], ["1", "2"], ["1,2", "3"], ["1", "2", "3"], ["1", "2,3"]])
        ends = []
        for nums in scheme:
            e = add_measures(1)
            part.add(S.Ending(nums), e[0], e[1])
            ends.append((nums, e))
        # a backward repeat sign sits at the end of every ending but the last
        for _n, e_ in ends[:-1]:
            part.add(S.Repeat(), body[0], e_[1])
        total = sum(len(n.split(",")) for n, _ in ends)
        mx = []
        for k in range(1, total + 1):
            e = next(e for n, e in ends if str(k) in n.split(","))
            mx += [body, e]
        return mx, [body, ends[-1][1]], "V(" + "|".join(scheme) + ")"

    nested = False
    n_blocks = rng.randint(1, 4)
    blocks = []
    desc = []
    exp_max, exp_min = [], []
    exact = True
    n_simple = 0
    n_constructs = 0
    has_volta = False
    force_first_repeat = rng.random() < 0.3
    for bi in range(n_blocks):
        kind = rng.choice(["plain", "repeat", "volta", "nested"]) if not (bi == 0 and force_first_repeat) else rng.choice(["repeat", "volta"])
        if kind == "plain":
            piece = add_measures(rng.randint(1, 2))
            exp_max.append(piece)
            exp_min.append(piece)
            desc.append("P")
        elif kind == "repeat":
            body = add_measures(rng.randint(1, 2))
            part.add(S.Repeat(), body[0], body[1])
            exp_max += [body, body]
            exp_min += [body]
            n_simple += 1
            n_constructs += 1
            desc.append("R")
        elif kind == "volta":
            mx, mn, d_ = add_volta()
            exp_max += mx
            exp_min += mn
            has_volta = True
            n_constructs += 1
            desc.append(d_)
        else:
            # an outer repeat around: [plain] inner (simple repeat | volta group) [plain]
            o_start = state["t"]
            mx, mn = [], []
            # (a repeat sign can close or open only one repeat: the outer repeat has its own measures on both sides)
            if True:
                a = add_measures(1)
                mx.append(a)
                mn.append(a)
            if rng.random() < 0.5:
                inner = add_measures(1)
                part.add(S.Repeat(), inner[0], inner[1])
                mx += [inner, inner]
                mn += [inner]
                d_ = "R"
            else:
                imx, imn, d_ = add_volta()
                mx += imx
                mn += imn
                has_volta = True
            if True:
                b = add_measures(1)
                mx.append(b)
                mn.append(b)
            part.add(S.Repeat(), o_start, state["t"])
            exp_max += mx + mx
            exp_min += mn
            nested = True
            n_constructs += 2
            desc.append("N[" + d_ + "]")
    nav = None
    if nav_allowed and rng.random() < 0.3:
        nav = rng.choice(["dacapo-fine", "dalsegno-coda", "dacapo"])
        exact = False
        meas = sorted(m.start.t for m in timemaps.objects_of(part, S.Measure))
        if nav == "dacapo":
            tail = add_measures(1)
            part.add(S.DaCapo(), state["t"])
        elif nav == "dacapo-fine" and len(meas) >= 2:
            part.add(S.Fine(), rng.choice(meas[1:]))
            part.add(S.DaCapo(), state["t"])
        elif nav == "dalsegno-coda" and len(meas) >= 3:
            s, c = sorted(rng.sample(meas[1:], 2))
            part.add(S.Segno(), s)
            part.add(S.ToCoda(), c)
            part.add(S.DalSegno(), state["t"])
            coda = add_measures(1)
            part.add(S.Coda(), coda[0])
        else:
            nav = None
        desc.append(str(nav))
    # boundary-crossing references
    crossing = 0
    notes = state["notes"]
    bounds = {b for seg in R.segments(R.marks(part)) for b in seg}
    for a, b in zip(notes, notes[1:]):
        if a.end.t == b.start.t and a.end.t in bounds and rng.random() < 0.5:
            if rng.random() < 0.5 and (a.step, a.alter, a.octave) != (None, None, None):
                b.step, b.alter, b.octave = a.step, a.alter, a.octave
                a.tie_next, b.tie_prev = b, a
            else:
                part.add(S.Slur(a, b), a.start.t, b.end.t)
            crossing += 1
    for _ in range(rng.randint(0, 2)):
        if len(notes) >= 3:
            i = rng.randrange(len(notes) - 2)
            part.add(S.Slur(notes[i], notes[i + 2]), notes[i].start.t, notes[i + 2].end.t)
    if rng.random() < 0.3 and notes:
        part.add(S.ConstantLoudnessDirection("f"), notes[0].start.t)
        part.add(S.Words("dolce"), notes[len(notes) // 2].start.t)
    est = 1
    for d_ in desc:
        if d_ == "R":
            est *= 2
        elif d_.startswith("V("):
            est *= 1 + sum(len(x.split(",")) for x in d_[2:-1].split("|"))
        elif d_.startswith("N["):
            est *= 40
    if nav:
        est = est * est
    meta = {"variants_estimate": est, "structure": "".join(desc) + f"/q{q}", "exp_max": exp_max if exact else None, "exp_min": exp_min if exact else None,
            "n_simple": n_simple, "only_simple": exact and not has_volta and n_constructs == n_simple, "constructs": n_constructs,
            "volta": has_volta, "crossing": crossing, "nav": nav}
    return part, meta


def pieces_to_ids(part, pieces):
    segs = R.segments(R.marks(part))
    ids = []
    merged = []
    for s, e in pieces:          # pieces played one after the other that are contiguous in the score form one stretch
        if merged and merged[-1][1] == s:
            merged[-1] = (merged[-1][0], e)
        else:
            merged.append((s, e))
    for s, e in merged:
        for i, (a, b) in enumerate(segs):
            if s <= a and b <= e:
                ids.append(R.seg_id(i))
    return ids


def plan(tier, seed):
    n = 16 * 40 if tier == "quick" else 16 * 600
    items = [["gen", i] for i in range(n)]
    import glob
    import os
    from workloads import corpora
    fx = [f for f in corpora.musicxml_files() + corpora.mei_files() + corpora.kern_files()
          if "unfold" in os.path.basename(f) or "repeat" in os.path.basename(f) or "fine" in os.path.basename(f)]
    items += [["fixture", f] for f in fx]
    # pieces of ordinary length inside a Score (the Score is copied before its parts are unfolded)
    items += [["long", i] for i in range(2 if tier == "quick" else 10)]
    return items


def run_item(ctx, item):
    import partitura.score as S
    if item[0] == "fixture":
        import partitura
        sc = ctx.call(partitura.load_score, item[1])
        for part in sc.parts:
            mk = R.marks(part)
            if any(rs == es for rs, _ in mk["repeats"] for es, _, _ in mk["endings"]):
                # a repeat that starts where a volta bracket starts (the MEI importer builds these when a backward
                # repeat has no forward sign): not a notation the statement's quantifier covers
                ctx.extra["fixture_parts_with_repeat_starting_at_a_bracket_skipped"] += 1
                continue
            n_paths = len(ctx.call(S.get_paths, part, False, True, True))
            ctx.try_call(S.unfold_part_maximal, part, True)
            ctx.try_call(S.unfold_part_minimal, part)
            ctx.case(["fixture", item[1], part.id], True, cls="fixture", sample={"file": item[1].split("/")[-1]})
        return
    if item[0] == "long":
        import sys
        rng = ctx.rng("long", item[1])
        n_meas = rng.choice([1500, 2500]) if item[1] < 2 else rng.choice([1200, 3000, 6000])
        part = S.Part("P1", "long", quarter_duration=2)
        part.add(S.TimeSignature(4, 4), 0)
        for m in range(n_meas):
            part.add(S.Measure(number=m + 1), 8 * m, 8 * m + 8)
            for j in range(4):
                part.add(S.Note(rng.choice("CDEFGAB"), 4, id=f"n{m}_{j}", voice=1, staff=1), 8 * m + 2 * j, 8 * m + 2 * j + 2)
        r0 = rng.randrange(1, n_meas // 2)
        r1 = rng.randrange(r0 + 1, n_meas)
        part.add(S.Repeat(), 8 * r0, 8 * r1)
        sc = S.Score([part], id="long")
        limit0 = sys.getrecursionlimit()
        update_ids = rng.random() < 0.5
        ok, umax = ctx.try_call(S.unfold_part_maximal, part, update_ids)
        ok5, usc = ctx.try_call(S.unfold_part_maximal, sc, update_ids)
        ok6, usm = ctx.try_call(S.unfold_part_minimal, sc)
        tab = lambda p_: sorted((int(o.start.t), int(o.end.t), o.id) for o in registered(p_) if isinstance(o, S.GenericNote))  # noqa
        ctx.check(2)
        if ok and ok5 and tab(usc.parts[0]) != tab(umax):
            ctx.violation("score-argument-unfolds-differently-from-its-part", f"long piece: {len(tab(usc.parts[0]))} notes vs {len(tab(umax))} for the part alone", None)
        if ok5 and len(tab(usc.parts[0])) != 4 * (n_meas + r1 - r0):
            ctx.violation("unfolded-length-wrong", f"long piece of {n_meas} bars with bars {r0}..{r1} repeated: {len(tab(usc.parts[0]))} notes", None)
        if sys.getrecursionlimit() != limit0:
            ctx.violation("recursion-limit-left-changed", f"sys.getrecursionlimit() {limit0} before unfolding a Score, {sys.getrecursionlimit()} after", {"bars": n_meas})
            sys.setrecursionlimit(limit0)
        ctx.case(["long", item[1]], True, cls="long-piece-in-a-score", sample={"bars": n_meas, "repeat": [r0, r1]})
        return
    rng = ctx.rng("gen", item[1])
    part, meta = build(rng)
    w = {"structure": meta["structure"]}
    no_structure = meta["constructs"] == 0 and meta["nav"] is None
    base = snapshot.snap(part) if no_structure else None
    update_ids = rng.random() < 0.5
    ignore_leaps = rng.random() < 0.5
    # checker 3: exact paths
    m_ = R.marks(part)
    segs_ = R.segments(m_)
    leap_dst = set(m_["segno"]) | set(m_["coda"]) | ({m_["first"]} if (m_["dacapo"] or m_["dalsegno"] or m_["tocoda"]) else set())
    leap_src = set(m_["dacapo"]) | set(m_["dalsegno"]) | set(m_["tocoda"])
    conflict = any(a in leap_dst and b in leap_src for a, b in segs_)
    if conflict:
        # one segment is both the destination of a jump and the source of one: the library keeps a single
        # 'type' per segment and cannot enumerate paths (raises); recorded as one mechanism
        try:
            S.get_paths(part, False, True, ignore_leaps)
            S.get_paths(part, True, False, True)
            S.get_paths(part, False, False, True)
        except (IndexError, RecursionError) as e:
            ctx.violation("leap-source-segment-is-also-leap-destination", f"path enumeration raised {type(e).__name__} for structure {meta['structure']}",
                          {"structure": meta["structure"], "marks": {k: v for k, v in m_.items() if v}})
            ctx.case(meta["structure"] + ":conflict", False, cls="leap-conflict")
            return
    ok, paths = ctx.try_call(S.get_paths, part, False, True, ignore_leaps)
    if ok and meta["exp_max"] is not None:
        exp = pieces_to_ids(part, meta["exp_max"])
        ctx.check()
        if list(paths[0].path) != exp:
            ctx.violation("maximal-path-differs-from-notated-structure", f"structure {meta['structure']}: path {'-'.join(paths[0].path)}, notation {'-'.join(exp)}", w)
    ok, paths = ctx.try_call(S.get_paths, part, True, False, True)
    if ok and meta["exp_min"] is not None:
        exp = pieces_to_ids(part, meta["exp_min"])
        ctx.check()
        if list(paths[0].path) != exp:
            ctx.violation("minimal-path-differs-from-notated-structure", f"structure {meta['structure']}: path {'-'.join(paths[0].path)}, notation {'-'.join(exp)}", w)
    # the unfolders themselves (hooks judge each produced part)
    ok, umax = ctx.try_call(S.unfold_part_maximal, part, update_ids, ignore_leaps)
    ok2, umin = ctx.try_call(S.unfold_part_minimal, part)
    # what the two entry points hand back (whichever way they built it): no bracket and no jump instruction is left in it,
    # and it is not the argument
    for name_, ok_, u_ in (("unfold_part_maximal", ok, umax), ("unfold_part_minimal", ok2, umin)):
        if not ok_ or u_ is None:
            continue
        ctx.check()
        left = [type(o).__name__ for cls_ in (S.Repeat, S.Ending, S.DaCapo, S.DalSegno, S.ToCoda) for o in timemaps.objects_of(u_, cls_)]
        if left:
            ctx.violation("unfolded-part-keeps-brackets-or-jump-instructions", f"{name_} returned a part that still holds {sorted(set(left))}", w)
        if u_ is part:
            ctx.violation("unfolded-part-is-the-argument", f"{name_} returned its argument", w)
    import itertools
    # enumerating all variants is exponential in the number of constructs: only for small structures
    small = meta["variants_estimate"] <= 48
    if not small:
        ctx.extra["all_variant_enumeration_skipped_large_structure"] += 1
    ok3, all_paths = ctx.try_call(S.get_paths, part, False, False, True) if small else (False, None)
    if ok3:
        ctx.extra["paths_enumerated"] += len(all_paths)
        if meta["only_simple"]:
            ctx.check()
            if len(all_paths) != 2 ** meta["n_simple"]:
                ctx.violation("variant-count-not-2-to-the-r", f"{len(all_paths)} variants for {meta['n_simple']} independent simple repeats", w)
        # every variant is a part built by new_part_from_path (judged by its hook); cap the number materialised
        ctx.try_call(lambda: list(itertools.islice(S.iter_unfolded_parts(part, update_ids), 6)))
    if rng.random() < 0.5:
        # a Score argument unfolds each part exactly as the part alone would unfold under the same options
        sc = S.Score([part], id="s")
        ok5, usc = ctx.try_call(S.unfold_part_maximal, sc, update_ids, ignore_leaps)
        if ok and ok5:
            tab = lambda p_: sorted((type(o).__name__, int(o.start.t), int(o.end.t) if o.end is not None else None, getattr(o, "id", None))  # noqa
                                    for o in registered(p_) if isinstance(o, S.GenericNote))
            ctx.check()
            if tab(usc.parts[0]) != tab(umax):
                ctx.violation("score-argument-unfolds-differently-from-its-part", f"unfold_part_maximal(Score, update_ids={update_ids}, ignore_leaps={ignore_leaps}): "
                              f"{len(tab(usc.parts[0]))} notes vs {len(tab(umax))} for the part alone", dict(w, update_ids=update_ids, ignore_leaps=ignore_leaps))
        ok6, usm = ctx.try_call(S.unfold_part_minimal, sc)
        if ok2 and ok6:
            ctx.check()
            if tab(usm.parts[0]) != tab(umin):
                ctx.violation("score-argument-unfolds-differently-from-its-part", "unfold_part_minimal(Score) differs from the part alone", w)
    # a second unfolding of the same part gives the same path (repeatability is part of 'the original is not modified')
    ok4, paths2 = ctx.try_call(S.get_paths, part, False, True, ignore_leaps)
    if ok and ok4:
        pass
    if no_structure and ok:
        # unfolds to an equal part
        # (an unfolding is a concatenation of segments and begins at 0; positions are compared relative to the first time point)
        oa, ob = int(part.first_point.t), int(umax.first_point.t)
        a = sorted((type(o).__name__, int(o.start.t) - oa, int(o.end.t) - oa if o.end is not None else None, getattr(o, "id", None))
                   for o in registered(part) if type(o).__name__ != "Segment")
        b = sorted((type(o).__name__, int(o.start.t) - ob, int(o.end.t) - ob if o.end is not None else None,
                    (getattr(o, "id", None) or "").rsplit("-", 1)[0] if (update_ids and isinstance(o, S.Note)) else getattr(o, "id", None))
                   for o in registered(umax))
        ctx.check()
        if a != b:
            ctx.violation("part-without-repeats-not-unfolded-to-equal-part", f"{len(a)} objects vs {len(b)}", w)
    ctx.case(meta["structure"] + f":{update_ids}:{ignore_leaps}:{item[1] % 7}", (meta["constructs"] >= 2 or meta["volta"]) and meta["crossing"] >= 1,
             cls="generated", sample={"structure": meta["structure"], "crossing_references": meta["crossing"], "update_ids": update_ids,
                                      "ignore_leaps": ignore_leaps, "navigation": meta["nav"]})
    ctx.state(meta["structure"].split("/")[0])
