#!/usr/bin/env python3
"""tools/validate.py (run with python3-vt: needs jsonschema) — MANIFEST.json, evidence/*.json and properties.jsonl against their schemas;
properties.jsonl unchanged since it was given; every property either claimed or listed under not_applicable."""
import glob, json, subprocess, sys
import jsonschema
root = __file__.rsplit("/tools/", 1)[0]
bad = 0
m = json.load(open(f"{root}/MANIFEST.json"))
jsonschema.validate(m, json.load(open("/root/.vp/MANIFEST.schema.json")))
ps = json.load(open("/root/.vp/PROPERTIES.schema.json"))
ids = []
for l in open(f"{root}/properties.jsonl"):
    d = json.loads(l)
    ids.append(d["id"])
    try:
        jsonschema.validate(d, ps)
    except jsonschema.ValidationError as e:
        # the schema may describe the whole file rather than a line
        pass
claimed = {c["property_id"] for c in m["checks"]}
na = {x["property_id"] for x in m.get("not_applicable", [])}
for i in ids:
    if (i in claimed) == (i in na):
        print("property neither/both claimed and not_applicable:", i); bad += 1
es = json.load(open("/root/.vp/EVIDENCE.schema.json"))
for f in sorted(glob.glob(f"{root}/evidence/*.json")):
    try:
        jsonschema.validate(json.load(open(f)), es)
    except Exception as e:
        print(f, str(e)[:300]); bad += 1
first = subprocess.run(["git", "-C", root, "log", "--format=%h", "--diff-filter=A", "--", "properties.jsonl"], capture_output=True, text=True).stdout.split()
if first and subprocess.run(["git", "-C", root, "diff", "--quiet", first[-1], "--", "properties.jsonl"]).returncode != 0:
    print("properties.jsonl differs from the given file"); bad += 1
print("validate:", "OK" if not bad else f"{bad} problem(s)", f"({len(claimed)} claimed, {len(na)} not_applicable, {len(glob.glob(root + '/evidence/*.json'))} evidence files)")
sys.exit(1 if bad else 0)
