"""C04 — score -> MIDI -> score preserves every note's timing and pitch exactly.

Post-condition hook on the real save_score_midi: the returned/written MidiFile is
flattened to absolute ticks per track and compared with an exact rational tick
model (ticks per quarter = lcm of divisions doubled to the minimum, tick =
ppq * (quarter position - origin)), the mode's part/voice -> track/channel
grouping, velocity and the positions of signatures and tempo marks; then both
importers are run on the file and their notes compared.
"""
import collections
import io
import math
from fractions import Fraction

from vmon import core
from vmon.refmodels import pitch as P
from vmon.refmodels import sigmaps, timemaps

PROP = "C04"
RULE = ("aligned generated scores (1-3 parts, optional group, divisions per part from the generator pool incl. 3/5/6/7/12/24 and "
        "changes inside a part, tuplets 3:2 5:4 7:4, pickups, grace notes, ties over barlines, chords; disjoint pitch bands per "
        "(part, voice)) x sampled (mode 0-5, anacrusis policy, minimum_ppq in {0,24,480,481}, velocity in {1,64,80,127}); "
        "non-trivial = (>=2 divisions values or a non-binary tuplet) and >=2 tracks or channels; distinct by (score digest, mode, policy, min_ppq)")
ASSUMPTIONS = ["exact quarter positions from vmon/refmodels/timemaps.py; parts start at timeline 0 with their signature there",
               "import grouping: same (track, channel) => same (part, voice) for every mode; the converse for modes 0,1,3,4,5 only "
               "(import mode 2 ignores channels by documentation)",
               "time_sig_change policy gives measures of irregular length a signature of their own by design: a notated signature is expected at its position unless such a measure begins there",
               "at most 15 voices per part; no two notes of equal pitch overlap (disjoint pitch bands)"]
MIN_HOOKS = {"save_score_midi": {"quick": 1000, "thorough": 12000}}
MIN_NONTRIVIAL = {"quick": 400, "thorough": 5000}
_installed = False


def flat_parts(score_data):
    import partitura.score as S
    if isinstance(score_data, S.Score):
        return list(score_data.parts)
    return list(S.iter_parts(score_data if isinstance(score_data, (list, tuple)) else [score_data]))


def top_group(part):
    g = part
    while getattr(g, "parent", None) is not None:
        g = g.parent
    return g


def abs_events(mf):
    out = []
    for ti, tr in enumerate(mf.tracks):
        t = 0
        evs = []
        for m in tr:
            t += m.time
            evs.append((t, m))
        out.append(evs)
    return out


def note_intervals(evs):
    """pair note_on with the next note_off (or zero-velocity note_on) of channel and pitch -> [(on, off, pitch, channel, velocity)]"""
    open_ = collections.defaultdict(list)
    out = []
    for t, m in evs:
        if m.type == "note_on" and m.velocity > 0:
            open_[(m.channel, m.note)].append((t, m.velocity))
        elif m.type == "note_off" or (m.type == "note_on" and m.velocity == 0):
            if open_[(m.channel, m.note)]:
                on, vel = open_[(m.channel, m.note)].pop(0)
                out.append((on, t, m.note, m.channel, vel))
    return out, sum(len(v) for v in open_.values())


def sounding(part):
    import partitura.score as S
    rows = []
    for n in timemaps.objects_of(part, S.Note, exact=False):
        if n.tie_prev is not None:
            continue
        last, dur = n, 0
        while last is not None:
            dur += last.end.t - last.start.t
            last = last.tie_next
        rows.append((int(n.start.t), int(n.start.t) + int(dur), P.midi(n.step, n.alter, n.octave), n.voice))
    return rows


def check_export(ctx, score_data, mf, mode, velocity, policy, min_ppq):
    import partitura.score as S
    parts = flat_parts(score_data)
    w = {"mode": mode, "velocity": velocity, "anacrusis_behavior": policy, "minimum_ppq": min_ppq,
         "parts": [{"id": p.id, "q": [(int(t), int(q)) for t, q in p.quarter_durations()][:6]} for p in parts]}
    models = []
    for p in parts:
        d = timemaps.describe(p)
        if d["n_points"] < 2 or d["first"] != 0:
            ctx.extra["out_of_domain_part_not_starting_at_0"] += 1
            return None
        m = timemaps.Model(d)
        if m.origin_q is None:
            ctx.ambiguous()
            return None
        models.append((p, d, m))
    divs = sorted({q for p, d, m in models for _, q in d["q"]})
    ppq = math.lcm(*divs)
    while ppq < min_ppq:
        ppq *= 2
    ctx.check()
    if mf.ticks_per_beat != ppq:
        ctx.violation("ticks-per-beat-not-lcm-doubled-to-minimum", f"ticks_per_beat {mf.ticks_per_beat}, divisions {divs}, minimum {min_ppq} -> expected {ppq}", w)
        return None
    q0 = [(-m.origin_q, p, d) for p, d, m in models]           # quarter position of t=0
    firstq = min(x[0] for x in q0)
    ftp = Fraction(0)
    if firstq < 0:
        if policy in ("shift", "time_sig_change"):
            ftp = firstq
        else:
            _, p0, d0 = sorted(q0, key=lambda x: x[0])[0]
            (b, bt, _), _amb = sigmaps.ts_at(sigmaps.describe(p0), 0)
            ftp = -Fraction(4 * b, bt)

    def tick(m, t):
        return ppq * (m.quarter(t) - m.origin_q - ftp)

    # expected note groups
    def key_of(p, voice):
        g = top_group(p)
        return {0: ("t", id(p), "c", voice), 1: ("t", id(g), "c", id(p)), 2: ("t", 0, "c", id(p)), 3: ("t", id(p), "c", 0),
                4: ("t", 0, "c", 0), 5: ("t", id(p), voice, "c", 0)}[mode]
    exp_groups = collections.defaultdict(list)
    exp_track_of_part = collections.defaultdict(set)
    for p, d, m in models:
        for on, off, pitch, voice in sounding(p):
            a, b = tick(m, on), tick(m, off)
            if a.denominator != 1 or b.denominator != 1:
                ctx.violation("model-tick-not-integer", f"exact tick {a}/{b} is not an integer (ppq {ppq})", w)
                return None
            exp_groups[key_of(p, voice)].append((int(a), int(b), pitch))
    evs = abs_events(mf)
    got_groups = collections.defaultdict(list)
    dangling = 0
    for ti, tr in enumerate(evs):
        ivs, dang = note_intervals(tr)
        dangling += dang
        for on, off, pitch, ch, vel in ivs:
            got_groups[(ti, ch)].append((on, off, pitch))
            ctx.check()
            if vel != velocity:
                ctx.violation("requested-velocity-not-used", f"note_on velocity {vel}, requested {velocity}", w)
                return None
    ctx.check(3)
    if dangling:
        ctx.violation("note-on-without-note-off", f"{dangling} unterminated notes in the file", w)
        return None
    exp_all = sorted(x for g in exp_groups.values() for x in g)
    got_all = sorted(x for g in got_groups.values() for x in g)
    if exp_all != got_all:
        miss = [x for x in exp_all if x not in got_all][:3]
        extra = [x for x in got_all if x not in exp_all][:3]
        off_by = None
        if len(exp_all) == len(got_all):
            diffs = {(g[0] - e[0], g[1] - e[1]) for g, e in zip(got_all, exp_all) if g != e}
            off_by = sorted(diffs)[:4]
        key = "note-tick-not-exact-image-of-musical-time" if len(exp_all) == len(got_all) else "notes-lost-or-added-in-midi-file"
        ctx.violation(key, f"ppq {ppq}, origin {ftp}: expected-only {miss}, file-only {extra}, (on,off) deviations {off_by}", w)
        return None
    if sorted(sorted(g) for g in exp_groups.values()) != sorted(sorted(g) for g in got_groups.values()):
        ctx.violation(f"track-channel-grouping-wrong-mode-{mode}", f"{len(exp_groups)} expected (track, channel) groups, file has {len(got_groups)} / different membership", w)
        return None
    # tracks per mode
    exp_tracks = len({k[:2] if mode != 5 else k[:3] for k in exp_groups})
    ctx.check()
    n_note_tracks = len({k[0] for k in got_groups})
    if exp_groups and n_note_tracks != exp_tracks:
        ctx.violation(f"track-count-wrong-mode-{mode}", f"{n_note_tracks} tracks with notes, mode {mode} implies {exp_tracks}", w)
        return None
    # signatures and tempo
    part_tracks = collections.defaultdict(set)
    for p, d, m in models:
        for on, off, pitch, voice in sounding(p)[:1] + sounding(p)[-1:]:
            a = int(tick(m, on))
            for (ti, ch), g in got_groups.items():
                if any(x[0] == a and x[2] == pitch for x in g):
                    part_tracks[id(p)].add(ti)
    for p, d, m in models:
        ds = sigmaps.describe(p)
        tracks = part_tracks.get(id(p), set())
        if not tracks:
            continue
        for ti in tracks:
            got_ks = sorted((t, msg.key) for t, msg in evs[ti] if msg.type == "key_signature")
            exp_ks = sorted((int(tick(m, t)), P.key_name(f, "minor" if md == -1 else "major")) for t, f, md in ds["ks"])
            ctx.check()
            # several parts may share a track (modes 1, 2, 4): their signatures are all there
            if not all(e in got_ks for e in exp_ks):
                ctx.violation("key-signature-at-wrong-position", f"track {ti}: {got_ks[:6]}, part {p.id} implies {exp_ks[:6]}", w)
                return None
            if policy != "time_sig_change":
                got_ts = sorted((t, msg.numerator, msg.denominator) for t, msg in evs[ti] if msg.type == "time_signature")
                exp_ts = []
                for i, (t, b, bt, _) in enumerate(ds["ts"]):
                    exp_ts.append(((0 if (policy == "pad_bar" and i == 0) else int(tick(m, t))), b, bt))
                ctx.check()
                if not all(e in got_ts for e in exp_ts):
                    ctx.violation("time-signature-at-wrong-position", f"track {ti}: {got_ts[:6]}, part {p.id} implies {sorted(exp_ts)[:6]}", w)
                    return None
            else:
                # this policy gives every measure of irregular length a signature of its own (by design); a notated signature
                # is still written at its position unless such a measure begins exactly there
                got_ts = sorted((t, msg.numerator, msg.denominator) for t, msg in evs[ti] if msg.type == "time_signature")
                irregular = set()
                for ms_ in timemaps.objects_of(p, S.Measure):
                    (b_, bt_, _), amb_ = sigmaps.ts_at(ds, int(ms_.start.t))
                    if amb_ or (m.beat(int(ms_.end.t)) - m.beat(int(ms_.start.t))) != b_:
                        irregular.add(int(ms_.start.t))
                exp_ts = [(int(tick(m, t)), b, bt) for (t, b, bt, _) in ds["ts"] if t not in irregular]
                ctx.check()
                if not all(e in got_ts for e in exp_ts):
                    ctx.violation("time-signature-missing-under-time_sig_change", f"track {ti}: {got_ts[:6]}, part {p.id} notates {sorted(exp_ts)[:6]} "
                                  f"(measures of irregular length begin at {sorted(irregular)[:6]})", w)
                    return None
                # ... and what the file says is in force where a measure of regular length begins is what the score notates there
                # (only when the track holds this part's signatures alone and no two of them share a tick)
                ticks_ = [g[0] for g in got_ts]
                alone = len(models) == 1
                if alone and len(set(ticks_)) == len(ticks_):
                    for ms_ in timemaps.objects_of(p, S.Measure):
                        s_ = int(ms_.start.t)
                        if s_ in irregular:
                            continue
                        (b_, bt_, _), amb_ = sigmaps.ts_at(ds, s_)
                        if amb_:
                            continue
                        upto = [g for g in got_ts if g[0] <= int(tick(m, s_))]
                        ctx.check()
                        if upto and (upto[-1][1], upto[-1][2]) != (b_, bt_):
                            ctx.violation("time-signature-in-force-wrong-after-irregular-measure", f"track {ti}: at the measure beginning at {s_} the file says "
                                          f"{upto[-1][1]}/{upto[-1][2]}, the score {b_}/{bt_}; file {got_ts[:6]}", w)
                            return None
        tempos = timemaps.objects_of(p, S.Tempo)
        got_tp = sorted((t, msg.tempo) for t, msg in evs[0] if msg.type == "set_tempo")
        for tp in tempos:
            e = (int(tick(m, int(tp.start.t))), tp.microseconds_per_quarter)
            same_tick = [g for g in got_tp if g[0] == e[0]]
            ctx.check()
            if not same_tick:
                ctx.violation("tempo-mark-at-wrong-position", f"tempo {e} not at its tick; file has {got_tp[:6]}", w)
                return None
    return {"ppq": ppq, "ftp": ftp, "exp_groups": exp_groups, "got_groups": got_groups, "models": models, "w": w}


def check_reimport(ctx, mf, info, mode):
    """both importers on the saved file"""
    import partitura
    import partitura.score as S
    w = info["w"]
    ppq = info["ppq"]
    buf = io.BytesIO()
    mf.save(file=buf)
    import tempfile
    import os
    fd, path = tempfile.mkstemp(suffix=".mid")
    os.close(fd)
    try:
        with open(path, "wb") as f:
            f.write(buf.getvalue())
        if any(msg.type == "time_signature" and msg.numerator == 0 for tr in mf.tracks for msg in tr):
            # (the time_sig_change policy used to write 0/x for a pickup shorter than one beat, and load_score_midi does not
            # return from such a file: reported instead of re-imported)
            ctx.violation("time-signature-with-numerator-zero-written", "a 0/x time signature is no time signature; the importers do not return "
                          "from such a file", w)
            return
        exp = sorted((Fraction(a, ppq), Fraction(b - a, ppq), p) for g in info["exp_groups"].values() for a, b, p in g)
        # performance importer
        perf = ctx.call(partitura.load_performance_midi, path)
        # the file's own ticks as the performance importer read them (its seconds depend on the tempo marks)
        got = sorted((Fraction(int(n["note_on_tick"]), ppq), Fraction(int(n["note_off_tick"]) - int(n["note_on_tick"]), ppq), int(n["midi_pitch"]))
                     for pp in perf.performedparts for n in pp.notes)
        ctx.check()
        if got != exp:
            ctx.violation("reimport-performance-notes-differ", f"{len(got)} notes read back, {len(exp)} written; first difference "
                          f"{next(((g, e) for g, e in zip(got, exp) if g != e), None)}", w)
            return
        # score importer, same mode
        sc = ctx.call(partitura.load_score_midi, path, part_voice_assign_mode=mode)
        got2 = []
        grouping = {}
        for pi, part in enumerate(sc.parts):
            q = [int(x) for x in part.quarter_durations()[:, 1]]
            if len(set(q)) != 1:
                ctx.extra["reimported_part_with_several_divisions"] += 1
                return
            for n in timemaps.objects_of(part, S.Note, exact=False):
                if n.tie_prev is not None:
                    continue
                last, dur = n, 0
                while last is not None:
                    dur += last.end.t - last.start.t
                    last = last.tie_next
                pitch = P.midi(n.step, n.alter, n.octave)
                got2.append((Fraction(int(n.start.t), q[0]), Fraction(int(dur), q[0]), pitch))
                grouping[(Fraction(int(n.start.t), q[0]), pitch)] = (pi, n.voice)
        ctx.check()
        if sorted(got2) != exp:
            d = next(((g, e) for g, e in zip(sorted(got2), exp) if g != e), None)
            ctx.violation("reimport-score-notes-differ", f"{len(got2)} notes in the imported score, {len(exp)} written; first difference {d}", w)
            return
        # grouping
        tc_of = {}
        for (ti, ch), g in info["got_groups"].items():
            for a, b, p in g:
                tc_of[(Fraction(a, ppq), p)] = (ti, ch)
        by_tc = collections.defaultdict(set)
        by_pv = collections.defaultdict(set)
        for k, tc in tc_of.items():
            if k in grouping:
                by_tc[tc].add(grouping[k])
                by_pv[grouping[k]].add(tc)
        ctx.check(2)
        if any(len(v) > 1 for v in by_tc.values()):
            ctx.violation(f"import-splits-one-track-channel-mode-{mode}", f"notes of one (track, channel) ended up in {sorted(map(str, next(v for v in by_tc.values() if len(v) > 1)))}", w)
            return
        if mode != 2 and any(len(v) > 1 for v in by_pv.values()):
            ctx.violation(f"import-fuses-track-channels-mode-{mode}", "notes of different (track, channel) ended up in one (part, voice)", w)
            return
        # time signatures of an imported part = those written in the track its notes came from (a track without any keeps
        # the documented pooling of the other tracks' signatures)
        tracks_of_part = collections.defaultdict(set)
        for (pi, _v), tcs in by_pv.items():
            tracks_of_part[pi].update(ti for ti, _ch in tcs)
        for pi, part in enumerate(sc.parts):
            tis = tracks_of_part.get(pi, set())
            if len(tis) != 1:
                continue
            ti = next(iter(tis))
            written, tick = [], 0
            per_tick = collections.defaultdict(set)
            for msg in mf.tracks[ti]:
                tick += msg.time
                if msg.type == "time_signature":
                    row = (Fraction(tick, ppq), msg.numerator, msg.denominator)
                    per_tick[tick].add(row[1:])
                    if not written or written[-1][1:] != row[1:]:
                        written.append(row)
            if not written:
                continue
            if any(len(v) > 1 for v in per_tick.values()):
                # several different signatures written on one tick (parts sharing a track, or the time_sig_change policy's own
                # signatures next to notated ones): which of them is in force there is not something a file can state
                ctx.ambiguous()
                ctx.extra["tracks_with_several_time_signatures_on_one_tick"] += 1
                continue
            q = int(part.quarter_durations()[0][1])
            got_ts = []
            for o in sorted(timemaps.objects_of(part, S.TimeSignature), key=lambda o: o.start.t):
                row = (Fraction(int(o.start.t), q), int(o.beats), int(o.beat_type))
                if not got_ts or got_ts[-1][1:] != row[1:]:
                    got_ts.append(row)
            ctx.check()
            if got_ts != written:
                ctx.violation("import-time-signatures-differ-from-the-parts-track",
                              f"imported part {pi} (from track {ti}) has time signatures {[(str(a), b, c) for a, b, c in got_ts][:6]}, "
                              f"the track holds {[(str(a), b, c) for a, b, c in written][:6]}", w)
                return
    finally:
        os.unlink(path)


def install(ctx):
    global _installed
    core.set_current(ctx)
    if _installed:
        return
    _installed = True
    import inspect
    import partitura.io.exportmidi as EM

    def post(ret, exc, token, a, k):
        if exc is not None:
            return
        fn = inspect.unwrap(h.orig)
        if "parts" in k:
            k = dict(k)
            k["score_data"] = k.pop("parts")
        ba = inspect.signature(fn).bind(*a, **k)
        ba.apply_defaults()
        args = ba.arguments
        out = args["out"]
        if ret is None:
            import mido
            if hasattr(out, "getvalue"):
                mf = mido.MidiFile(file=io.BytesIO(out.getvalue()))
            elif isinstance(out, (str, bytes)) or hasattr(out, "__fspath__"):
                mf = mido.MidiFile(out)
            else:
                return
        else:
            mf = ret
        c = core.CURRENT
        info = check_export(c, args["score_data"], mf, args["part_voice_assign_mode"], args["velocity"], args["anacrusis_behavior"], args["minimum_ppq"])
        c.last_export = (mf, info)

    h = core.Hook(EM, "save_score_midi", post=post, ctx=ctx, label="save_score_midi")
    core.rebind_everywhere(h.orig, h.wrapper)


def setup(ctx):
    install(ctx)


def plan(tier, seed):
    n = 16 * 40 if tier == "quick" else 16 * 500
    return [["gen", i] for i in range(n)]


def run_item(ctx, item):
    import partitura
    import partitura.score as S
    from workloads import gen_score
    rng = ctx.rng("gen", item[1])
    n_parts = rng.choice([1, 2, 2, 3])
    feats = [f for f in ("chords", "rests", "ties", "graces", "tuplets", "multivoice", "pickup", "ts_changes", "keys") if rng.random() < 0.65]
    first, meta0 = gen_score.make_part(rng, "P1", features=feats + (["div_changes"] if rng.random() < 0.3 else []),
                                       divs=rng.choice([1, 2, 3, 4, 5, 6, 7, 8, 12, 24, 480]), meters=[(4, 4), (3, 4), (2, 2), (6, 8), (2, 4), (5, 8)])
    parts, metas = [first], [meta0]
    for i in range(1, n_parts):
        cands = gen_score.skeleton_divs(meta0["skeleton"], [1, 2, 3, 4, 5, 6, 7, 8, 12, 24])
        f2 = [f for f in feats if f not in ("pickup", "ts_changes")]
        p, m_ = gen_score.make_part(rng, f"P{i + 1}", features=f2, divs=rng.choice(cands), skeleton=meta0["skeleton"], band_base=5 * i)
        parts.append(p)
        metas.append(m_)
    # one voice of a part has no voice number (notes entered without one), next to numbered voices
    if rng.random() < 0.2:
        p_ = parts[rng.randrange(len(parts))]
        objs_ = timemaps.objects_of(p_, S.GenericNote, exact=False)
        vs_ = sorted({o.voice for o in objs_ if isinstance(o.voice, int)})
        if len(vs_) >= 2:
            v_ = rng.choice(vs_)
            for o in objs_:
                if o.voice == v_:
                    o.voice = None
            ctx.extra["parts_with_a_voice_without_number"] += 1
    # a key released in one voice and struck again at once in another voice of the part (the notes touch, they do not overlap):
    # in the modes that put the voices of a part on one channel the file still has to denote two notes
    for p in parts:
        if rng.random() < 0.35:
            plain = [n for n in timemaps.objects_of(p, S.Note, exact=True) if n.tie_next is None and n.tie_prev is None and n.end.t > n.start.t]
            by_start = collections.defaultdict(list)
            for n in plain:
                by_start[int(n.start.t)].append(n)
            done = 0
            for a in rng.sample(plain, len(plain)):
                for b in by_start.get(int(a.end.t), []):
                    if b.voice == a.voice or done >= 2:
                        continue
                    pitch = a.midi_pitch
                    # (a grace note of that pitch on the same position has no extent: whether it "overlaps" is left open)
                    clash = any(o is not a and o is not b and o.midi_pitch == pitch and
                                ((o.start.t < b.end.t and o.end.t > b.start.t) or (o.start.t == o.end.t and b.start.t <= o.start.t <= b.end.t))
                                for o in timemaps.objects_of(p, S.Note, exact=False))
                    if clash or any(o is not b and o.start.t == b.start.t and o.voice == b.voice and o.midi_pitch == pitch for o in plain):
                        continue
                    b.step, b.alter, b.octave = a.step, a.alter, a.octave
                    done += 1
            if done:
                ctx.extra["parts_with_a_pitch_released_and_struck_again_across_voices"] += 1
    for p in parts:
        if rng.random() < 0.4:
            starts = sorted({int(n.start.t) for n in p.notes})
            for _ in range(rng.randint(1, 2)):
                p.add(S.Tempo(rng.choice([60, 72, 96, 120, 144]), "q"), rng.choice(starts) if starts else 0)
    # parts that do not share their meter changes (one part changes the time signature, another keeps the first one)
    if len(parts) >= 2 and rng.random() < 0.25:
        tss = sorted(timemaps.objects_of(parts[1], S.TimeSignature), key=lambda o: o.start.t)
        if len(tss) >= 2:
            for o in tss[1:]:
                parts[1].remove(o)
            ctx.extra["scores_whose_parts_do_not_share_their_meter_changes"] += 1
    # a tacet / conductor part: rests and tempo marks only, in divisions that do not divide those of the sounding parts
    if len(meta0["divs"]) == 1 and rng.random() < 0.3:
        q1 = meta0["divs"][0][1]
        sounding_lcm = math.lcm(*[q for m_ in metas for _, q in m_["divs"]])
        # (a MIDI file holds ticks per quarter up to 32767; minimum_ppq may double the lcm a few times)
        primes = [pr for pr in (7, 11, 13) if sounding_lcm % pr != 0 and math.lcm(sounding_lcm, q1 * pr) <= 4000]
        if primes:
            k_ = rng.choice(primes)
            tac = S.Part(f"P{len(parts) + 1}", "tacet", quarter_duration=q1 * k_)
            for ts in timemaps.objects_of(first, S.TimeSignature):
                tac.add(S.TimeSignature(ts.beats, ts.beat_type), int(ts.start.t) * k_)
            for m_ in sorted(timemaps.objects_of(first, S.Measure), key=lambda m__: m__.start.t):
                tac.add(S.Measure(number=m_.number), int(m_.start.t) * k_, int(m_.end.t) * k_)
                tac.add(S.Rest(id=f"tr{m_.number}", voice=1, staff=1), int(m_.start.t) * k_, int(m_.end.t) * k_)
            last_ = int(first.last_point.t) * k_
            for _ in range(rng.randint(0, 2)):
                tac.add(S.Tempo(rng.choice([50, 66, 88, 132]), "q"), rng.randrange(0, max(1, last_)))
            parts.append(tac)
            metas.append({"divs": [(0, q1 * k_)], "tuplets": 0, "measures": meta0["measures"], "notes": 0, "pickup": meta0["pickup"]})
            ctx.extra["scores_with_a_tacet_part_in_other_divisions"] += 1
    structure = parts
    if n_parts >= 2 and rng.random() < 0.5:
        g = S.PartGroup("brace", "grp")
        g.children = parts[:2]
        for c in parts[:2]:
            c.parent = g
        structure = [g] + parts[2:]
    sc = S.Score(structure, id="c04")
    if not any(len(p.notes) for p in parts):
        ctx.extra["scores_without_any_note_skipped"] += 1       # nothing to write: outside the statement
        return
    all_divs = {q for m_ in metas for _, q in m_["divs"]}
    nonbinary = any(m_["tuplets"] for m_ in metas) or any(q % 3 == 0 or q % 5 == 0 or q % 7 == 0 for q in all_divs)
    configs = [(rng.randrange(6), rng.choice(["shift", "pad_bar", "time_sig_change"]), rng.choice([0, 24, 480, 481]), rng.choice([1, 64, 80, 127]))
               for _ in range(3)]
    dg = core.digest([[m_["measures"], m_["notes"], m_["divs"]] for m_ in metas] + [item[1]])
    for mode, policy, min_ppq, vel in configs:
        ctx.last_export = None
        form = rng.choice(["score", "list"])
        arg = sc if form == "score" else structure
        ok, mf = ctx.try_call(partitura.save_score_midi, arg, None, part_voice_assign_mode=mode, velocity=vel,
                              anacrusis_behavior=policy, minimum_ppq=min_ppq)
        n_groups = 0
        if ok and ctx.last_export and ctx.last_export[1]:
            n_groups = len(ctx.last_export[1]["got_groups"])
            check_reimport(ctx, ctx.last_export[0], ctx.last_export[1], mode)
        ctx.case([dg, mode, policy, min_ppq], (len(all_divs) >= 2 or nonbinary) and n_groups >= 2, cls=f"mode{mode}",
                 sample={"divisions": sorted(all_divs), "mode": mode, "anacrusis_behavior": policy, "minimum_ppq": min_ppq, "velocity": vel,
                         "parts": n_parts, "pickup": meta0["pickup"], "tuplets": sum(m_["tuplets"] for m_ in metas)})
        ctx.state(f"{mode}:{policy}:{min_ppq}:{len(all_divs) >= 2}:{bool(meta0['pickup'])}")
