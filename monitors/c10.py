"""C10 — signature, clef and measure maps return what is in force at the queried time.

Contract on the six real property getters (time_signature_map, key_signature_map,
clef_map, measure_map, measure_number_map, metrical_position_map): each obtained
map is evaluated at every integer position (scalar and vector) and compared
with the brute-force 'latest element starting at or before t' model.
"""
import numpy as np

from vmon import core
from vmon.refmodels import sigmaps

PROP = "C10"
RULE = ("generated parts with 0-5 time signatures, key signatures (all fifths, modes incl. None), clefs on 1-3 staves (incl. a "
        "staff without clef), regular and irregular measures, pickups, gaps before the first element, elements off note onsets; "
        "plus gen_score parts and the fixture corpus; non-trivial = >=2 changes of >=2 kinds; distinct by element-table digest")
ASSUMPTIONS = ["positions in measure gaps, at/after the end of the last measure, and parts without measures are don't-care for the measure maps",
               "several elements of one kind at the same time with different values: don't-care",
               "pickup convention judged only when divisions and signature are constant through the first measure"]
MIN_HOOKS = {"Part.time_signature_map": 200, "Part.key_signature_map": 200, "Part.clef_map": 200, "Part.measure_map": 200,
             "Part.measure_number_map": 200, "Part.metrical_position_map": 200}
MIN_NONTRIVIAL = {"quick": 300, "thorough": 4000}
KINDS = ("time_signature_map", "key_signature_map", "clef_map", "measure_map", "measure_number_map", "metrical_position_map")
_installed = False


def positions(d):
    first, last = d["first"], d["last"]
    if last - first <= 300:
        return list(range(first, last + 1))
    pos = {first, last}
    for key in ("ts", "ks", "clefs", "measures", "q"):
        for row in d[key]:
            pos.update((row[0] - 1, row[0], row[0] + 1))
    for m in d["measures"]:
        pos.update((m[1] - 1, m[1]))
    import random
    r = random.Random(first * 7919 + last)
    pos.update(r.randint(first, last) for _ in range(200))
    return sorted(p for p in pos if first <= p <= last)


def rows(v, n):
    """Normalise a vector-call result to n rows."""
    a = np.asarray(v)
    return a.reshape(n, -1) if a.ndim >= 1 and a.shape[0] == n else None


def check_map(ctx, part, kind, fn):
    d = sigmaps.describe(part)
    if len(part._points) == 0:
        return
    pos = positions(d)
    w = {"map": kind, "ts": d["ts"][:8], "ks": d["ks"][:8], "clefs": d["clefs"][:8], "measures": d["measures"][:8],
         "q": d["q"][:6], "first": d["first"], "last": d["last"], "staves": d["n_staves"],
         "musical": bool(getattr(part, "_use_musical_beat", False))}
    n = len(pos)
    vec_arg = np.asarray(pos)

    def scalar_samples():
        return pos[:: max(1, n // 6)]

    # a vector of one position is a vector: its answer is that of a longer vector cut down to one position
    if n >= 1:
        t_one = pos[len(pos) // 2]
        try:
            a2 = np.asarray(fn(np.asarray([t_one, t_one])))
        except Exception:  # noqa  (judged below, with the array form)
            a2 = None
        if a2 is not None and a2.ndim >= 1:
            ctx.check()
            try:
                a1 = np.asarray(fn(np.asarray([t_one])))
                ok_ = a1.ndim == a2.ndim and all(d1 == d2 or (d1 == 1 and d2 == 2) for d1, d2 in zip(a1.shape, a2.shape))
                if ok_:
                    ax = [i_ for i_, (d1, d2) in enumerate(zip(a1.shape, a2.shape)) if d1 == 1 and d2 == 2]
                    ok_ = len(ax) >= 1 and bool(np.all(np.take(a2, [0], axis=ax[0]) == a1))
                if not ok_:
                    ctx.violation(f"{kind}-one-element-vector-answered-differently", f"one position as a vector: shape {a1.shape}; the same position twice: "
                                  f"shape {a2.shape}", dict(w, position=int(t_one)))
                    return
            except Exception as e:  # noqa
                ctx.violation(f"{kind}-one-element-vector-answered-differently", f"one position as a vector: {type(e).__name__}: {e}", dict(w, position=int(t_one)))
                return
    # "scalar and array queries agree": a plain list of positions is an array query too (the maps document lists/arrays)
    if n >= 2:
        some = pos[:: max(1, n // 5)][:6]
        if len(some) >= 2:
            try:
                as_arr = np.asarray(fn(np.asarray(some)))
            except Exception:  # noqa  (judged below, with the array form)
                as_arr = None
            if as_arr is not None:
                ctx.check()
                try:
                    as_list = np.asarray(fn(list(some)))
                    same = as_arr.shape == as_list.shape and bool(np.all((as_arr == as_list) | ((as_arr != as_arr) & (as_list != as_list))))
                    if not same:
                        ctx.violation(f"{kind}-list-and-array-queries-disagree", f"{len(some)} positions as an array: shape {as_arr.shape}, as a list: "
                                      f"shape {as_list.shape}", dict(w, positions=[int(x) for x in some]))
                        return
                except Exception as e:  # noqa
                    ctx.violation(f"{kind}-list-and-array-queries-disagree", f"{len(some)} positions as a list: {type(e).__name__}: {e}", dict(w, positions=[int(x) for x in some]))
                    return

    if kind in ("time_signature_map", "key_signature_map"):
        at = sigmaps.ts_at if kind == "time_signature_map" else sigmaps.ks_at
        vec = rows(fn(vec_arg), n)
        ctx.check(n)
        if vec is None:
            ctx.violation(f"{kind}-vector-shape", f"shape {np.asarray(fn(vec_arg)).shape} for {n} positions", w)
            return
        for i, t in enumerate(pos):
            exp, amb = at(d, t)
            if amb:
                ctx.ambiguous()
                continue
            got = tuple(float(x) for x in vec[i])
            if got != tuple(float(e) for e in exp):
                where = "before-first-element" if (d["ts" if kind[0] == "t" else "ks"] and t < d["ts" if kind[0] == "t" else "ks"][0][0]) else "in-force"
                ctx.violation(f"{kind}-wrong-{where}", f"{kind}({t}) = {got}, expected {tuple(exp)}", w)
                return
        for t in scalar_samples():
            exp, amb = at(d, t)
            if not amb:
                got = tuple(float(x) for x in np.asarray(fn(t)).ravel())
                ctx.check()
                if got != tuple(float(e) for e in exp):
                    ctx.violation(f"{kind}-scalar-vector-disagree", f"scalar {kind}({t}) = {got}, expected {tuple(exp)}", w)
                    return
    elif kind == "clef_map":
        S = d["n_staves"]
        for t in scalar_samples() + [x[0] for x in d["clefs"][:6] if d["first"] <= x[0] <= d["last"]]:
            got = np.asarray(fn(t))
            ctx.check(S)
            if got.shape != (S, 4):
                ctx.violation("clef_map-shape", f"clef_map({t}) shape {got.shape}, expected ({S}, 4)", w)
                return
            for s in range(1, S + 1):
                exp, amb = sigmaps.clef_at(d, s, t)
                if amb:
                    ctx.ambiguous()
                    continue
                if tuple(int(x) for x in got[s - 1]) != tuple(exp):
                    has = any(c[1] == s for c in d["clefs"])
                    ctx.violation("clef_map-wrong" + ("" if has else "-staff-without-clef"),
                                  f"clef_map({t})[staff {s}] = {got[s - 1].tolist()}, expected {list(exp)}", w)
                    return
        vec = np.asarray(fn(vec_arg))
        ctx.check(n)
        if vec.shape != (S, n, 4):
            ctx.violation("clef_map-vector-shape", f"shape {vec.shape}, expected ({S}, {n}, 4)", w)
            return
        for s in range(1, S + 1):
            for i, t in enumerate(pos):
                exp, amb = sigmaps.clef_at(d, s, t)
                if not amb and tuple(int(x) for x in vec[s - 1, i]) != tuple(exp):
                    ctx.violation("clef_map-scalar-vector-disagree", f"vector clef_map at t={t} staff {s}: {vec[s - 1, i].tolist()} expected {list(exp)}", w)
                    return
    else:
        if not d["measures"] and not d["measures_open"]:
            # no measure at all: the documented defaults (the maps' own warnings state them) - one measure spanning the timeline,
            # number 1, metrical position 0 everywhere
            exp_row = {"measure_map": [d["first"], d["last"]], "measure_number_map": [1], "metrical_position_map": [0, 0]}[kind]
            some = pos[:: max(1, n // 8)][:10]
            ctx.check(len(some))
            try:
                vec = np.asarray(fn(np.asarray(some))).reshape(len(some), -1).astype(int).tolist()
                sca = [[int(x) for x in np.asarray(fn(t_)).ravel()] for t_ in some[:3]]
            except Exception as e:  # noqa
                ctx.violation(f"{kind}-raises-for-a-part-without-measures", f"{type(e).__name__}: {e}", w)
                return
            if any(r != exp_row for r in vec) or any(r != exp_row for r in sca):
                ctx.violation(f"{kind}-wrong-for-a-part-without-measures", f"{kind} gives {vec[:3]} / scalar {sca[:2]}, documented default {exp_row}", w)
            ctx.extra["measure_maps_of_parts_without_measures_judged"] += 1
            return
        if not d["measures"] or d["measures_open"]:
            ctx.extra["measure_map_without_measures_not_judged"] += 1
            return
        pstart, certain = sigmaps.pickup_start(d)
        first_m = d["measures"][0]
        judged = []
        for t in pos:
            m = sigmaps.measure_at(d, t)
            if m is None:
                ctx.ambiguous()
                continue
            start, end, number, idx = m
            if idx == 0:
                # the first measure is judged only where the pickup convention is well defined
                if not certain or pstart.denominator != 1:
                    ctx.ambiguous()
                    continue
                start = int(pstart)
            judged.append((t, start, end, number))
        if not judged:
            return
        ts_ = [j[0] for j in judged]
        vec = np.asarray(fn(np.asarray(ts_)))
        ctx.check(len(judged))
        pick = "-pickup" if pstart != first_m[0] else ""
        mus = "-musical-beat" if w["musical"] else ""
        if kind == "measure_map":
            exp = [[s, e] for _, s, e, _ in judged]
            got = vec.reshape(len(judged), -1).astype(int).tolist() if vec.size == 2 * len(judged) else None
            if got != exp:
                i = next((i for i, (g, e) in enumerate(zip(got or [], exp)) if g != e), 0)
                ctx.violation(f"measure_map-wrong{pick if judged[i][0] < first_m[1] else ''}{mus}", f"measure_map({ts_[i]}) = {got[i] if got else vec.shape}, expected {exp[i]}", w)
                return
            for t, s, e, _ in judged[:: max(1, len(judged) // 5)]:
                g = [int(x) for x in np.asarray(fn(t)).ravel()]
                ctx.check()
                if g != [s, e]:
                    ctx.violation("measure_map-scalar-vector-disagree", f"scalar measure_map({t}) = {g}, expected {[s, e]}", w)
                    return
        elif kind == "measure_number_map":
            exp = [nr for *_, nr in judged]
            got = vec.ravel().astype(int).tolist()
            if got != exp:
                i = next((i for i, (g, e) in enumerate(zip(got, exp)) if g != e), 0)
                ctx.violation("measure_number_map-wrong", f"measure_number_map({ts_[i]}) = {got[i] if i < len(got) else None}, expected {exp[i]}", w)
                return
            for t, _, _, nr in judged[:: max(1, len(judged) // 5)]:
                ctx.check()
                if int(fn(t)) != nr:
                    ctx.violation("measure_number_map-scalar-vector-disagree", f"scalar measure_number_map({t}) = {int(fn(t))}, expected {nr}", w)
                    return
        else:
            exp = [[t - s, e - s] for t, s, e, _ in judged]
            got = vec.reshape(len(judged), -1).astype(int).tolist() if vec.size == 2 * len(judged) else None
            if got != exp:
                i = next((i for i, (g, e) in enumerate(zip(got or [], exp)) if g != e), 0)
                single = "-single-measure" if len(d["measures"]) < 2 else ""
                ctx.violation(f"metrical_position_map-wrong{single}{pick if judged[i][0] < first_m[1] else ''}{mus}",
                              f"metrical_position_map({ts_[i]}) = {got[i] if got else vec.shape}, expected {exp[i]}", w)
                return
            for (t, s, e, _) in judged[:: max(1, len(judged) // 5)]:
                g = [int(x) for x in np.asarray(fn(t)).ravel()]
                ctx.check()
                if g != [t - s, e - s]:
                    ctx.violation("metrical_position_map-scalar-vector-disagree", f"scalar metrical_position_map({t}) = {g}, expected {[t - s, e - s]}", w)
                    return


def install(ctx, kinds=KINDS):
    global _installed
    core.set_current(ctx)
    if _installed:
        return
    _installed = True
    import partitura.score as S

    def mk(kind):
        def post(ret, exc, token, a, k):
            if exc is None:
                check_map(core.CURRENT, a[0], kind, ret)
        core.Hook(S.Part, kind, post=post, ctx=ctx, label=f"Part.{kind}")
    for kind in kinds:
        mk(kind)


def setup(ctx):
    install(ctx)


# ---------------------------------------------------------------- workload
def build_sig_part(rng):
    import partitura.score as S
    q = rng.choice([1, 2, 4, 6, 12, 480])
    part = S.Part("S", quarter_duration=q)
    meters = [(b, bt) for b, bt in [(4, 4), (3, 4), (2, 4), (6, 8), (9, 8), (5, 8), (7, 8), (3, 2), (2, 2), (12, 8)]
              if (4 * q * b) % bt == 0]
    n_meas = rng.randint(1, 7)
    ts = rng.choice(meters)
    t = 0
    first_ts_late = rng.random() < 0.15
    meta = {"pickup": False, "irregular": 0, "gaps": 0}
    pending_ts = ts
    no_measures = rng.random() < 0.08          # a part without any Measure object (the maps document a default for it)
    for i in range(n_meas):
        if i > 0 and rng.random() < 0.3:
            pending_ts = ts = rng.choice(meters)
        bar = 4 * q * ts[0] // ts[1]
        if pending_ts is not None and not (i == 0 and first_ts_late):
            part.add(S.TimeSignature(*pending_ts), t)
            pending_ts = None
        r = rng.random()
        if i == 0 and r < 0.35 and bar > 1:
            length = rng.randint(1, bar - 1)
            meta["pickup"] = True
        elif i == 0 and r < 0.45:
            length = bar + rng.randint(1, bar)          # a first measure longer than a bar (no pickup: it starts where it starts)
            meta["irregular"] += 1
        elif r < 0.15:
            length = rng.randint(1, 2 * bar)
            meta["irregular"] += length != bar
        else:
            length = bar
        if not no_measures:
            part.add(S.Measure(number=i + 1, name=str(i + 1)), t, t + length)
        t += length
    end = t
    n_staves = rng.choice([1, 1, 2, 3])
    # notes give the timeline its extent and the staves their numbers
    for s in range(1, n_staves + 1):
        a = rng.randint(0, max(0, end - 1))
        part.add(S.Note("C", 4, id=f"s{s}", voice=s, staff=s), a, rng.randint(a + 1, max(a + 1, end)))
    part.add(S.Rest(id="r0", voice=1, staff=1), 0, end)
    for _ in range(rng.randint(0, 5)):
        tt = rng.randint(0, end) if rng.random() < 0.8 else 0
        part.add(S.KeySignature(rng.randint(-7, 7), rng.choice(["major", "minor", None])), tt)
    for s in range(1, n_staves + 1):
        if rng.random() < 0.25:
            continue                            # a staff without any clef
        for _ in range(rng.randint(1, 3)):
            tt = 0 if rng.random() < 0.5 else rng.randint(0, end)
            # (percussion, TAB and "none" clefs are usually written without a line: the importer stores None)
            sign, line = rng.choice([("G", 2), ("F", 4), ("C", 3), ("C", 4), ("percussion", 2), ("TAB", 5), ("percussion", None), ("TAB", None),
                                     ("none", None)])
            part.add(S.Clef(staff=s, sign=sign, line=line, octave_change=rng.choice([None, 0, 1, -1])), tt)
    for _ in range(rng.randint(0, 2)):
        tt = rng.randint(0, end)                # signature off the barlines
        part.add(S.TimeSignature(*rng.choice(meters)), tt)
    return part, meta


def get_all(ctx, part):
    for kind in KINDS:
        ctx.call(lambda: getattr(part, kind))


def plan(tier, seed):
    n = 16 * 50 if tier == "quick" else 16 * 900
    items = [["sig", i] for i in range(n)] + [["gen", i] for i in range(n // 4)]
    from workloads import corpora
    items += [["fixture", p] for p in corpora.score_files(limit=20 if tier == "quick" else None)]
    return items


def run_item(ctx, item):
    from workloads import gen_score
    kind = item[0]
    if kind == "sig":
        rng = ctx.rng("sig", item[1])
        part, meta = build_sig_part(rng)
        musical = rng.random() < 0.2
        if musical:
            part.use_musical_beat()
        get_all(ctx, part)
        d = sigmaps.describe(part)
        kinds_changed = sum(len({r[1:] for r in d[k]}) >= 2 for k in ("ts", "ks", "clefs"))
        ctx.case([d["ts"], d["ks"], d["clefs"], d["measures"], d["q"], musical], kinds_changed >= 2, cls="sig",
                 sample={"ts": d["ts"], "ks": d["ks"], "clefs": d["clefs"], "measures": d["measures"], "staves": d["n_staves"]})
        ctx.state(f"{min(len(d['ts']), 3)}:{min(len(d['ks']), 3)}:{min(len(d['clefs']), 3)}:{meta['pickup']}:{meta['irregular'] > 0}:{meta['gaps'] > 0}:{musical}")
    elif kind == "gen":
        rng = ctx.rng("gen", item[1])
        part, meta = gen_score.make_part(rng, "P1", profile="full")
        if rng.random() < 0.3:
            # the timeline goes on after the last barline: a final note (or a text mark) rings over it
            import partitura.score as S
            ms_ = [m for m in part.iter_all(S.Measure) if m.end is not None]
            if ms_:
                last_m = max(ms_, key=lambda m: m.end.t)
                over = last_m.end.t + rng.randint(1, max(1, last_m.end.t - last_m.start.t))
                if rng.random() < 0.6:
                    part.add(S.Note("C", 2, id="ringing", voice=1, staff=1), rng.randint(last_m.start.t, last_m.end.t - 1), over)
                else:
                    part.add(S.Words("fine", staff=1), over)
                ctx.extra["parts_whose_timeline_outlasts_the_last_measure"] += 1
        get_all(ctx, part)
        d = sigmaps.describe(part)
        kinds_changed = sum(len({r[1:] for r in d[k]}) >= 2 for k in ("ts", "ks", "clefs"))
        ctx.case(["gen", d["ts"], d["ks"], d["clefs"], d["measures"]], kinds_changed >= 2, cls="gen_score")
    else:
        import partitura
        sc = ctx.call(partitura.load_score, item[1])
        for part in sc.parts:
            get_all(ctx, part)
            d = sigmaps.describe(part)
            ctx.case(["fixture", item[1], part.id], len(d["ts"]) + len(d["ks"]) + len(d["clefs"]) > 3, cls="fixture")
