"""C18 workload: a single-part score, a performance aligned to it and the alignment.

gen_case(rng, size, ...) -> dict
    part        partitura Part built through the public API (workloads.gen_score) plus, optionally, unison doublings
                in an extra voice and grace notes of the same pitch as the note they precede
    rows        reference score table: one dict per sounding note (no tie continuation):
                id, onset_div, end_div (end of the tie chain), pitch, grace
    pnotes      list of performed-note dicts (id, midi_pitch, note_on, note_off, velocity, track, channel) in shuffled order
    alignment   list of alignment dicts (match / insertion / deletion / ornament), shuffled
    truth       {score id: (performance id, note_on, duration, velocity)} for the matches whose ids exist on both sides
    info        counters for the case signature

The performance is "note for note": every onset group of the score gets a time T_i with T_{i+1} - T_i > 0 (three
tempo modes), every note of the group an onset T_i + asynchrony with |asynchrony| <= 0.3 * min(neighbouring IOIs),
so that the mean of any non-empty subset of a group is strictly increasing with the score onset.  Durations are
>= 0.005 s (the codec used to raise every duration below 60/200*0.25 = 0.075 s to that value: repaired), velocities 1..127.
"""
import math
from fractions import Fraction

from workloads import gen_score

NORMALIZATIONS = ["beat_period", "beat_period_log", "beat_period_ratio", "beat_period_ratio_log", "beat_period_standardized"]
METHODS = ["average", "derivative"]
MIN_IOI = 0.006
MIN_DUR = 0.005
FEATURES = ["chords", "multivoice", "graces", "pickup", "ties", "tuplets", "rests", "ts_changes", "multistaff"]


def score_rows(part):
    """Sounding notes of the part read from the time points (not from note_array)."""
    import partitura.score as S
    rows = []
    for tp in part._points:
        for cls, objs in tp.starting_objects.items():
            if not issubclass(cls, S.Note):
                continue
            for n in objs:
                if n.tie_prev is not None:
                    continue
                last, guard = n, 0
                while last.tie_next is not None and guard < 1000:
                    last = last.tie_next
                    guard += 1
                end = int(last.end.t) if last.end is not None else int(n.start.t)
                rows.append({"id": n.id, "onset_div": int(n.start.t), "end_div": end, "pitch": int(n.midi_pitch),
                             "grace": isinstance(n, S.GraceNote), "voice": n.voice})
    rows.sort(key=lambda r: (r["onset_div"], r["pitch"], r["id"]))
    return rows


def add_unisons(rng, part, rows, k):
    """Double k plain notes in a new voice: same onset and pitch, different length (two voices meeting on a unison)."""
    import partitura.score as S
    plain = [r for r in rows if not r["grace"]]
    notes = {}
    for tp in part._points:
        for cls, objs in tp.starting_objects.items():
            if issubclass(cls, S.Note):
                for n in objs:
                    notes[n.id] = n
    last_t = int(part._points[-1].t)
    voice = max([r["voice"] or 1 for r in rows] + [1]) + 1
    added = 0
    for r in rng.sample(plain, min(k, len(plain))):
        n = notes[r["id"]]
        if n.tie_next is not None or n.tie_prev is not None:
            continue
        d = int(n.end.t) - int(n.start.t)
        cands = [x for x in (d * 2, d * 3, d // 2, d * 4) if x > 0 and x != d and int(n.start.t) + x <= last_t]
        if not cands:
            continue
        d2 = rng.choice(cands)
        u = S.Note(step=n.step, octave=n.octave, alter=n.alter, id=f"{n.id}u", voice=voice, staff=n.staff)
        part.add(u, int(n.start.t), int(n.start.t) + d2)
        added += 1
    return added


def add_same_pitch_graces(rng, part, rows, k):
    """A grace note repeating the pitch of the note it precedes (repeated-note ornament)."""
    import partitura.score as S
    plain = [r for r in rows if not r["grace"]]
    notes = {}
    for tp in part._points:
        for cls, objs in tp.starting_objects.items():
            if issubclass(cls, S.Note):
                for n in objs:
                    notes[n.id] = n
    added = 0
    for r in rng.sample(plain, min(k, len(plain))):
        n = notes[r["id"]]
        if n.tie_prev is not None:
            continue
        g = S.GraceNote("acciaccatura", n.step, n.octave, n.alter, id=f"{n.id}g", voice=n.voice, staff=n.staff,
                        symbolic_duration={"type": "eighth", "dots": 0})
        part.add(g, int(n.start.t), int(n.start.t))
        g.grace_next = n
        added += 1
    return added


def gen_part(rng, size, feats=None, divs=None, unison=0, same_pitch_grace=0, n_measures=None):
    feats = list(feats) if feats is not None else [f for f in FEATURES if rng.random() < 0.55]
    nm = n_measures or max(1, int(round(rng.choice([1, 2, 2, 3, 4]) * size)))
    kw = {}
    if divs is not None:
        kw["divs"] = divs
    part, meta = gen_score.make_part(rng, "P1", features=feats, n_measures=nm, **kw)
    rows = score_rows(part)
    nu = ng = 0
    if unison and rows:
        nu = add_unisons(rng, part, rows, unison)
    if same_pitch_grace and rows:
        ng = add_same_pitch_graces(rng, part, rows, same_pitch_grace)
    if nu or ng:
        rows = score_rows(part)
    return part, rows, meta, feats, nu, ng


def quarters(part, t):
    """Exact position in quarters of a time in divisions (integrating the divisions table)."""
    q = [(int(a), int(b)) for a, b in part.quarter_durations()]
    acc = Fraction(0)
    for i, (t0, d) in enumerate(q):
        t1 = q[i + 1][0] if i + 1 < len(q) else None
        hi = t if t1 is None else min(t, t1)
        if hi > t0:
            acc += Fraction(hi - t0, d)
        if t1 is None or t <= t1:
            break
    return acc


def gen_times(rng, part, rows, mode, t0):
    """{onset_div: (T, amplitude of asynchrony)} for every onset group of the score."""
    onsets = sorted({r["onset_div"] for r in rows})
    qpos = [quarters(part, o) for o in onsets]
    iois = []
    if mode == "deadpan":
        c = rng.choice([Fraction(1), Fraction(3, 4), Fraction(1, 2), Fraction(2)])
        for a, b in zip(qpos, qpos[1:]):
            iois.append(float((b - a) * c))
    elif mode == "jumpy":
        for _ in qpos[1:]:
            iois.append(math.exp(rng.uniform(math.log(MIN_IOI), math.log(2.5))))
    else:  # rubato
        lbp = rng.uniform(math.log(0.2), math.log(1.5))
        step = rng.choice([0.05, 0.2, 0.6])
        for a, b in zip(qpos, qpos[1:]):
            lbp = min(max(lbp + rng.gauss(0, step), math.log(0.1)), math.log(3.0))
            iois.append(max(MIN_IOI, float(b - a) * math.exp(lbp)))
    T = [t0]
    for x in iois:
        T.append(T[-1] + x)
    out = {}
    for i, o in enumerate(onsets):
        nb = [x for x in (iois[i - 1] if i > 0 else None, iois[i] if i < len(iois) else None) if x is not None]
        amp = 0.0 if mode == "deadpan" else 0.3 * (min(nb) if nb else 0.05)
        out[o] = (T[i], amp)
    return out, (c if mode == "deadpan" else None)


def gen_case(rng, size=1.0, mode=None, feats=None, divs=None, unison=0, same_pitch_grace=0, extras=None,
             dangling=None, late_start=False, n_measures=None):
    """extras: None or dict(insert=p, delete=p, ornament=p); dangling: None | 'score' | 'performance' | 'both'."""
    mode = mode or rng.choice(["rubato", "rubato", "jumpy", "deadpan"])
    if mode == "deadpan":
        # exact constant tempo: keep everything dyadic (no tuplets), no grace notes (they have no notated length)
        feats = [f for f in (feats if feats is not None else [f for f in FEATURES if rng.random() < 0.55])
                 if f not in ("tuplets", "graces")]
        divs = divs if divs is not None else rng.choice([1, 2, 4, 8, 16])
        same_pitch_grace = 0
    part, rows, meta, feats, nu, ng = gen_part(rng, size, feats, divs, unison, same_pitch_grace, n_measures)
    t0 = rng.uniform(50, 400) if late_start else rng.choice([0.0, rng.uniform(0, 3)])
    if mode == "deadpan":
        t0 = float(rng.choice([0, 1, 2, 0.5]))
    times, c = gen_times(rng, part, rows, mode, t0)
    extras = extras or {}
    p_del = extras.get("delete", 0.0)
    p_ins = extras.get("insert", 0.0)
    p_orn = extras.get("ornament", 0.0)
    pnotes, alignment, truth = [], [], {}
    k = 0
    wrong_notes = rng.random() < 0.3
    n_wrong = [0]
    for r in rows:
        T, amp = times[r["onset_div"]]
        if rng.random() < p_del and len(rows) > 2:
            alignment.append({"label": "deletion", "score_id": r["id"]})
            continue
        on = T + (rng.uniform(-amp, amp) if not r["grace"] else -amp * rng.uniform(0.2, 1.0))
        on = max(on, 0.0)
        if mode == "deadpan":
            sd = quarters(part, r["end_div"]) - quarters(part, r["onset_div"])
            dur = float(sd * c) if sd > 0 else 0.125
            dur = max(dur, 0.125)
        else:
            dur = math.exp(rng.uniform(math.log(MIN_DUR), math.log(3.0)))
        vel = rng.randint(1, 127)
        pid = f"p{k}"
        k += 1
        # (a matched note may have been played on a neighbouring key: the match stands, the performed pitch differs)
        played = r["pitch"]
        if wrong_notes and rng.random() < 0.2:
            played = min(127, max(0, r["pitch"] + rng.choice([-7, -4, -3, -2, -1, 1, 2, 3, 4, 7])))
            n_wrong[0] += 1
        pnotes.append({"id": pid, "midi_pitch": played, "note_on": on, "note_off": on + dur, "velocity": vel,
                       "track": 0, "channel": 0})
        alignment.append({"label": "match", "score_id": r["id"], "performance_id": pid})
        truth[r["id"]] = (pid, on, dur, vel)
        if rng.random() < p_orn:
            oid = f"p{k}"
            k += 1
            o_on = max(0.0, on + rng.uniform(0.0, 0.05))
            pnotes.append({"id": oid, "midi_pitch": min(127, r["pitch"] + 1), "note_on": o_on, "note_off": o_on + 0.09,
                           "velocity": rng.randint(1, 127), "track": 0, "channel": 0})
            alignment.append({"label": "ornament", "score_id": r["id"], "performance_id": oid})
    all_t = [p["note_on"] for p in pnotes] or [0.0]
    for _ in range(int(round(p_ins * len(rows)))):
        iid = f"p{k}"
        k += 1
        o_on = rng.uniform(min(all_t), max(all_t) + 0.5)
        pnotes.append({"id": iid, "midi_pitch": rng.randint(21, 108), "note_on": o_on, "note_off": o_on + rng.uniform(0.08, 1.0),
                       "velocity": rng.randint(1, 127), "track": 0, "channel": 0})
        alignment.append({"label": "insertion", "performance_id": iid})
    n_dangling = 0
    if dangling in ("score", "both"):
        # a match whose score id is not in the score (e.g. the alignment refers to an unfolded repeat); its
        # performed note exists
        for j in range(rng.randint(1, 2)):
            did = f"p{k}"
            k += 1
            o_on = rng.uniform(min(all_t), max(all_t) + 0.5)
            pnotes.append({"id": did, "midi_pitch": 60, "note_on": o_on, "note_off": o_on + 0.3, "velocity": 64, "track": 0, "channel": 0})
            alignment.append({"label": "match", "score_id": f"ghost{j}-2", "performance_id": did})
            n_dangling += 1
    if dangling in ("performance", "both"):
        # a match whose performed note is not in the performance: the score note exists and is otherwise unmatched
        victims = [a for a in alignment if a["label"] == "deletion"][:2]
        for j, a in enumerate(victims):
            a["label"] = "match"
            a["performance_id"] = f"absent{j}"
            n_dangling += 1
        if not victims and len(truth) > 3:
            sid = rng.choice(sorted(truth))
            pid = truth.pop(sid)[0]
            pnotes[:] = [p for p in pnotes if p["id"] != pid]
            n_dangling += 1
    rng.shuffle(pnotes)
    rng.shuffle(alignment)
    groups = {}
    for r in rows:
        if r["id"] in truth:
            groups.setdefault(r["onset_div"], []).append(r)
    tie_keys = {}
    for r in rows:
        if r["id"] in truth:
            tie_keys.setdefault((r["onset_div"], r["pitch"]), []).append(r["id"])
    info = {"mode": mode, "notes": len(rows), "matched": len(truth), "onsets": len(groups),
            "chords": sum(1 for g in groups.values() if len(g) > 1), "graces": sum(1 for r in rows if r["grace"] and r["id"] in truth),
            "equal_key_groups": sum(1 for v in tie_keys.values() if len(v) > 1), "unison_added": nu, "same_pitch_grace_added": ng,
            "matched_notes_played_on_another_key": n_wrong[0],
            "pickup": int(bool(meta.get("pickup"))), "features": feats, "divs": [d for _, d in meta["divs"]],
            "deleted": sum(1 for a in alignment if a["label"] == "deletion"),
            "inserted": sum(1 for a in alignment if a["label"] == "insertion"),
            "ornaments": sum(1 for a in alignment if a["label"] == "ornament"), "dangling": n_dangling,
            "deadpan_spb": str(c) if c is not None else None}
    return {"part": part, "rows": rows, "pnotes": pnotes, "alignment": alignment, "truth": truth, "info": info}


def compact_witness(case, limit=40):
    """A JSON-serialisable description from which the case can be rebuilt by hand."""
    rows = case["rows"]
    w = {"score_notes": [[r["id"], r["onset_div"], r["end_div"] - r["onset_div"], r["pitch"], int(r["grace"])] for r in rows[:limit]],
         "divs": case["info"]["divs"],
         "performed": [[p["id"], p["midi_pitch"], round(p["note_on"], 6), round(p["note_off"] - p["note_on"], 6), p["velocity"]]
                       for p in case["pnotes"][:limit]],
         "alignment": [[a["label"], a.get("score_id"), a.get("performance_id")] for a in case["alignment"][:2 * limit]],
         "truncated": len(rows) > limit}
    return w
