"""What a piece of common-practice notation *denotes* (C19 reference model).

An abstract score A (JSON-like; produced by workloads/gen_notation.py) is the
thing both writers (mei_writer, kern_writer) render and the thing `denote`
interprets.  Nothing here is imported from partitura; time is `Fraction`
quarter notes.

A = {"meter": [num, den], "key": [fifths, mode|None],
     "staves": [{"n": 1, "clef": [sign, line]}, ...]          (top staff first)
     "measures": [{"name": "1"|None, "meter": None|[n, d], "key": None|[f, mode],
                   "clef": {staff n(str): [sign, line]},       (change at this barline)
                   "left": None|"rptstart", "right": None|"rptend"|"end", "ending": None|int,
                   "staves": {staff n(str): [layer, ...]}}]}
layer = {"n": voice number, "ev": [event, ...]}
event = {"k": "n" note | "c" chord | "r" rest | "m" measure rest | "s" space | "g" grace note,
         "t": note value name, "d": dots, "tu": None|[actual, normal], "ts"/"te": first/last of its tuplet group,
         "p": [[step, alter, octave, tie_to_next(bool)], ...], "id": str}

Semantics (from the property statement): a value lasts TYPE * (2 - 2^-dots) *
normal/actual quarters; events of a layer follow each other from the barline;
a grace note takes no time; a measure rest lasts the nominal measure; a
measure ends where its layers end; a tie joins a note to the next note of the
same pitch in the same layer.
"""
from fractions import Fraction as F

from . import pitch as P


def value(ev):
    v = P.TYPES[ev["t"]] * P.dots_factor(ev.get("d", 0))
    if ev.get("tu"):
        a, n = ev["tu"]
        v = v * F(n, a)
    return v


def rhythm_class(ev):
    """Name of the rhythmic notation used by an event (for mechanism keys)."""
    if ev["k"] == "g":
        return "grace"
    if ev["k"] == "m":
        return "measure-rest"
    d = ev.get("d", 0)
    dots = {0: "", 1: "dotted", 2: "double-dotted"}.get(d, "multi-dotted")
    if ev.get("tu"):
        return "tuplet-" + dots if dots else "tuplet"
    return dots or "plain"


KIND = {"n": "note", "c": "chord", "r": "rest", "m": "measure-rest", "s": "space", "g": "grace"}


def denote(A):
    """-> {staff n: {"notes": [...], "rests": [...], "measures": [(start, end, name)],
                     "meters": [(t, n, d)], "keys": [(t, fifths, mode)], "clefs": [(t, sign, line)],
                     "durations": set of Fractions}}"""
    out = {}
    for st in A["staves"]:
        out[st["n"]] = {"notes": [], "rests": [], "measures": [], "meters": [(F(0), *A["meter"])],
                        "keys": [(F(0), *A["key"])], "clefs": [(F(0), *st["clef"])], "durations": set(),
                        "events": []}
    meter = tuple(A["meter"])
    pos = F(0)
    pending = {}            # (staff, voice) -> {pitch: note dict}
    for mi, M in enumerate(A["measures"]):
        if M.get("meter"):
            meter = tuple(M["meter"])
            for st in out.values():
                st["meters"].append((pos, *meter))
        if M.get("key"):
            for st in out.values():
                st["keys"].append((pos, *M["key"]))
        for sn, c in (M.get("clef") or {}).items():
            out[int(sn)]["clefs"].append((pos, *c))
        nominal = F(4 * meter[0], meter[1])
        ends = []
        for st in A["staves"]:
            sn = st["n"]
            layers = M["staves"][str(sn)]
            seen_voices = set()
            for li, layer in enumerate(layers):
                v = layer["n"]
                seen_voices.add(v)
                t = pos
                prev_kind = "barline"
                for ei, ev in enumerate(layer["ev"]):
                    k = ev["k"]
                    dur = F(0) if k == "g" else (nominal if k == "m" else value(ev))
                    ctxinfo = {"measure": mi, "staff": sn, "voice": v, "layer_index": li, "index": ei, "kind": KIND[k],
                               "rhythm": rhythm_class(ev), "after": prev_kind, "id": ev["id"], "onset": t, "dur": dur,
                               "two_layers": len(layers) > 1}
                    out[sn]["events"].append(ctxinfo)
                    if k in ("n", "c", "g"):
                        carried = pending.pop((sn, v), {}) if k != "g" else {}
                        new_pending = {}
                        for pi, p in enumerate(ev["p"]):
                            step, alter, octave, tie = p[0], p[1], p[2], bool(p[3]) if len(p) > 3 else False
                            note = {"id": ev["id"] if k != "c" else f"{ev['id']}n{pi}", "on": t, "dur": dur,
                                    "step": step, "alter": alter, "oct": octave, "voice": v, "staff": dict(map(tuple, ev.get("xs", []))).get(pi, sn),
                                    "grace": k == "g", "tie_prev": None, "tie_next": None, "info": ctxinfo,
                                    "chord": k == "c"}
                            key = (step, alter or 0, octave)
                            if key in carried:
                                a = carried.pop(key)
                                a["tie_next"] = note["id"]
                                note["tie_prev"] = a["id"]
                            if tie:
                                new_pending[key] = note
                            out[sn]["notes"].append(note)
                        if new_pending:
                            pending[(sn, v)] = new_pending
                    elif k in ("r", "m"):
                        out[sn]["rests"].append({"id": ev["id"], "on": t, "dur": dur, "voice": v, "staff": sn,
                                                 "info": ctxinfo})
                        pending.pop((sn, v), None)
                    if k != "g":
                        out[sn]["durations"].add(dur)
                    t += dur
                    prev_kind = KIND[k]
                ends.append(t)
            for key in [key for key in pending if key[0] == sn and key[1] not in seen_voices]:
                pending.pop(key)
        end = max(ends) if ends else pos
        for st in out.values():
            st["measures"].append((pos, end, M.get("name")))
        pos = end
    return out


def sounding(notes):
    """Multiset (as sorted list) of (onset, total duration along the tie chain, midi pitch) of chain heads."""
    by_id = {n["id"]: n for n in notes}
    res = []
    for n in notes:
        if n["tie_prev"] is not None:
            continue
        d = n["dur"]
        m = n
        guard = 0
        while m["tie_next"] is not None and guard < 10000:
            m = by_id[m["tie_next"]]
            d += m["dur"]
            guard += 1
        res.append((n["on"], d, P.midi(n["step"], n["alter"], n["oct"])))
    return sorted(res)


def in_force(table, t):
    """Last entry of a [(t0, ...)] change table with t0 <= t."""
    cur = table[0]
    for e in table:
        if e[0] <= t:
            cur = e
    return cur[1:]


def min_divisions(durations):
    """Smallest integer q such that every duration * q is an integer."""
    q = 1
    for d in durations:
        d = F(d)
        den = (d * q).denominator
        q *= den
    return q
