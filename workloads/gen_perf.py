"""Workload generators for C06: performances (as JSON-like specs) and raw MIDI files.

Everything is produced as a plain JSON-serialisable *spec* first (so that the
spec itself is the witness of a failing case) and turned into partitura /
mido objects by `build_performance` / `build_midifile`.

Domain kept by construction (statement of C06):
* times >= 0, velocities 1..127, channels 0..15, controller numbers/values 0..127;
* inside one written track (inside the whole file when tracks are merged on
  either side) no two notes of the same channel and pitch overlap; notes of one
  (track, channel, pitch) group appear in chronological list order, so touching
  notes (offset == next onset, possibly only after tick rounding) are written
  off-before-on.  `shuffle=True` (hostile class) shuffles the note lists.
"""
import copy
from fractions import Fraction

PPQS = [96, 480, 960, 1000]
MPQS = [250000, 500000, 612244]
HALF_EPS = [0.0, 0.0, 1e-9, -1e-9, 1e-7, -1e-7, 1e-5, -1e-5]
TEXT_METAS = ["text", "marker", "lyrics", "cue_marker", "copyright", "track_name", "instrument_name", "device_name"]
WORDS = ["a", "Pno.", "verse 1", "x-y_z", "Allegro ma non troppo", "", "take 2 (live)", "0123456789"]


# ------------------------------------------------------------------ time helpers
class Clock:
    """Positions are kept in (real-valued) tick units and converted to float seconds."""

    def __init__(self, rng, ppq, mpq):
        self.rng, self.ppq, self.mpq = rng, ppq, mpq

    def seconds(self, u):
        if isinstance(u, (int, Fraction)):
            return float(Fraction(u) * self.mpq / (10**6 * self.ppq))
        return u * self.mpq / (1e6 * self.ppq)

    def draw(self, lo, span):
        """A position >= lo (tick units) in one of the time modes; returns (u, seconds)."""
        r = self.rng.random()
        if r < 0.45:                                  # free float
            u = lo + self.rng.random() * span
            t = self.seconds(u)
            return u, t
        k = int(lo) + 1 + self.rng.randrange(int(span) + 1)
        if r < 0.70:                                  # exactly on a tick
            return k, self.seconds(k)
        u = Fraction(2 * k + 1, 2)                    # on / next to a half tick
        t = self.seconds(u) + self.rng.choice(HALF_EPS) * self.mpq / (1e6 * self.ppq)
        t = max(t, 0.0)
        return float(u) + 1e-4, t                     # cursor just above (monotone in seconds)


def _group_notes(rng, clock, n, start_u, span, touching_p, zero_p):
    """n consecutive non-overlapping (on, off) pairs in seconds, chronological."""
    out = []
    cur_u, cur_t = start_u, None
    for _ in range(n):
        if cur_t is not None and rng.random() < touching_p:
            on_u, on_t = cur_u, cur_t                 # touching the previous note
        else:
            on_u, on_t = clock.draw(cur_u, span)
            if cur_t is not None and on_t < cur_t:
                on_u, on_t = cur_u, cur_t
        if rng.random() < zero_p:
            off_u, off_t = on_u, on_t                 # zero-length note
        else:
            off_u, off_t = clock.draw(on_u, span)
            if off_t < on_t:
                off_u, off_t = on_u, on_t
        out.append((on_t, off_t))
        cur_u, cur_t = off_u, off_t
    return out


def _meta(rng):
    r = rng.random()
    if r < 0.6:
        return {"type": rng.choice(TEXT_METAS), "text": rng.choice(WORDS)}
    if r < 0.7:
        return {"type": "midi_port", "port": rng.randrange(128)}
    if r < 0.8:
        return {"type": "channel_prefix", "channel": rng.randrange(16)}
    if r < 0.88:
        return {"type": "sequence_number", "number": rng.randrange(65536)}
    if r < 0.93:
        return {"type": "sequencer_specific", "data": [rng.randrange(128) for _ in range(rng.randrange(1, 5))]}
    if r < 0.97:
        # a meta event of a type mido has no name for (it reads and writes it as 'unknown_meta')
        return {"type": "unknown_meta", "type_byte": rng.choice([0x0A, 0x0B, 0x10, 0x4A, 0x60, 0x7E]),
                "data": [rng.randrange(256) for _ in range(rng.randrange(0, 5))]}
    return {"type": "smpte_offset", "frame_rate": rng.choice([24, 25, 30]), "hours": rng.randrange(24),
            "minutes": rng.randrange(60), "seconds": rng.randrange(60), "frames": rng.randrange(24),
            "sub_frames": rng.randrange(100)}


def _fix_meta(m):
    # mido names the payload of track_name/instrument_name/device_name 'name'
    if m["type"] in ("track_name", "instrument_name", "device_name") and "text" in m:
        m = dict(m)
        m["name"] = m.pop("text")
    return m


# ------------------------------------------------------------------ performances
def make_perf_spec(rng, size=1.0, kind=None, hostile=None):
    """size in (0, 1]: scales the number of events. hostile in {None, 'shuffle', 'gaps', 'shared'}."""
    kind = kind or rng.choice(["performance", "performance", "part", "list"])
    if hostile == "shared":
        kind = "list"
    if hostile == "gaps":
        kind = "part"
    if hostile == "conductor":
        kind = rng.choice(["performance", "list"])
    ppq = rng.choice(PPQS + [480, rng.randrange(24, 2001)])
    mpq = rng.choice(MPQS + [500000, rng.randrange(100000, 1500001)])
    np_ppq = rng.random() < 0.1       # the resolution is handed over as a 32-bit numpy integer (as read from an array)
    if np_ppq and rng.random() < 0.7:
        ppq = rng.choice([2400, 4800, 9600, 15360])
    merge_save = rng.random() < 0.25
    merge_load = rng.random() < 0.25
    merged = merge_save or merge_load
    nparts = 1 if kind == "part" else rng.choice([1, 2, 2, 3, 4])
    if hostile == "untracked":
        nparts = 1
    clock = Clock(rng, ppq, mpq)
    span = rng.choice([3, 40, 400, 4000])             # tick units between events
    max_notes = max(1, int(rng.choice([2, 6, 20, 60]) * size))

    # tracks: a permutation of 0..T-1 spread over the parts
    per_part = [rng.choice([1, 1, 2]) if kind != "part" else rng.choice([1, 2, 3]) for _ in range(nparts)]
    if hostile == "untracked":
        per_part = [1]
    T = sum(per_part)
    numbers = list(range(T))
    rng.shuffle(numbers)
    if hostile == "gaps":
        numbers = sorted(rng.sample(range(0, 9), T))
        if numbers == list(range(T)):
            numbers[-1] += 2
    if hostile == "shared":
        numbers = [0] * T if rng.random() < 0.5 else [rng.randrange(2) for _ in range(T)]
    used = set()            # (scope, channel, pitch) groups already taken
    parts = []
    pos = 0
    for pi in range(nparts):
        tracks = numbers[pos:pos + per_part[pi]]
        pos += per_part[pi]
        tracks = sorted(set(tracks))
        notes = []
        n_notes = rng.randrange(0, max_notes + 1)
        n_groups = max(1, min(n_notes, rng.choice([1, 2, 3, 8])))
        groups = []
        channels = rng.sample(range(16), rng.choice([1, 1, 2, 4]))
        for _ in range(n_groups * 3):
            if len(groups) >= n_groups:
                break
            tr, ch, pitch = rng.choice(tracks), rng.choice(channels), rng.choice([0, 127, 60, 60, 61] + [rng.randrange(128)] * 4)
            key = ("*" if merged else tr, ch, pitch)
            if key in used:
                continue
            used.add(key)
            groups.append((tr, ch, pitch))
        share = [0] * len(groups)
        for _ in range(n_notes if groups else 0):
            share[rng.randrange(len(groups))] += 1
        for (tr, ch, pitch), cnt in zip(groups, share):
            if not cnt:
                continue
            start = rng.choice([0, 0, rng.randrange(0, 5000)])
            for on, off in _group_notes(rng, clock, cnt, start, span, 0.3, 0.06):
                notes.append({"midi_pitch": pitch, "note_on": on, "note_off": off,
                              "velocity": rng.choice([1, 127, rng.randrange(1, 128), rng.randrange(1, 128)]),
                              "channel": ch, "track": tr})
        # interleave the groups but keep each group chronological
        order = list(range(len(notes)))
        if rng.random() < 0.7:
            keyed = sorted(order, key=lambda i: (notes[i]["note_on"], rng.random()))
            # a stable re-interleaving: sort by onset keeps every group's internal order
            # (onsets inside a group are non-decreasing; ties keep their relative order below)
            by_group = {}
            for i in order:
                g = (notes[i]["track"], notes[i]["channel"], notes[i]["midi_pitch"])
                by_group.setdefault(g, []).append(i)
            taken = {g: 0 for g in by_group}
            new = []
            for i in keyed:
                g = (notes[i]["track"], notes[i]["channel"], notes[i]["midi_pitch"])
                new.append(by_group[g][taken[g]])
                taken[g] += 1
            notes = [notes[i] for i in new]
        if hostile == "shuffle":
            rng.shuffle(notes)

        controls = []
        n_ctrl = rng.choice([0, 1, 2, 5, int(20 * size) + 1])
        for _ in range(n_ctrl):
            _, t = clock.draw(0, span * 10)
            controls.append({"time": t, "number": rng.choice([64, 64, 67, 7, 0, 127, rng.randrange(128)]),
                             "value": rng.choice([0, 127, 64, rng.randrange(128)]),
                             "channel": rng.choice(channels), "track": rng.choice(tracks)})
            if rng.random() < 0.2:          # a second control at the very same time
                controls.append(dict(controls[-1], number=rng.randrange(128), value=rng.randrange(128)))
        # every track of the part must carry a note or a control (else a reader may drop the track)
        have = {n["track"] for n in notes} | {c["track"] for c in controls}
        for tr in tracks:
            if tr not in have:
                _, t = clock.draw(0, span * 10)
                controls.append({"time": t, "number": 64, "value": rng.randrange(128),
                                 "channel": rng.choice(channels), "track": tr})
        programs = []
        if rng.random() < 0.5:
            for _ in range(rng.choice([1, 1, 2, 3])):
                t = 0.0 if rng.random() < 0.6 else clock.draw(0, span * 10)[1]
                programs.append({"time": t, "program": rng.choice([0, 127, rng.randrange(128)]),
                                 "channel": rng.choice(channels), "track": rng.choice(tracks)})
        keys, tsigs, metas = [], [], []
        for _ in range(rng.choice([0, 0, 1, 2])):
            t = 0.0 if rng.random() < 0.5 else clock.draw(0, span * 10)[1]
            keys.append({"time": t, "fifths": rng.randrange(-7, 8), "mode": rng.choice(["major", "minor"]),
                         "track": rng.choice(tracks)})
        for _ in range(rng.choice([0, 0, 1, 2])):
            t = 0.0 if rng.random() < 0.5 else clock.draw(0, span * 10)[1]
            tsigs.append({"time": t, "beats": rng.choice([1, 2, 3, 4, 5, 6, 7, 9, 12, 17, 255]),
                          "beat_type": rng.choice([1, 2, 4, 4, 8, 8, 16, 32]), "track": rng.choice(tracks)})
        for _ in range(rng.choice([0, 0, 1, 3])):
            t = 0.0 if rng.random() < 0.4 else clock.draw(0, span * 10)[1]
            m = _fix_meta(_meta(rng))
            if m["type"] == "unknown_meta":
                t = 0.0            # (see make_midi_spec: only a delta time of zero survives mido's reader)
            m.update(time=t, track=rng.choice(tracks))
            metas.append(m)
        parts.append({"notes": notes, "controls": controls, "programs": programs, "key_signatures": keys,
                      "time_signatures": tsigs, "meta_other": metas})
    if hostile == "conductor":
        # a part that holds signatures and other meta events only, on a track of its own (the usual conductor track)
        tr = max(numbers) + 1
        keys = [{"time": 0.0, "fifths": rng.randrange(-7, 8), "mode": rng.choice(["major", "minor"]), "track": tr}]
        tsigs = [{"time": 0.0 if rng.random() < 0.5 else clock.draw(0, span * 10)[1], "beats": rng.choice([2, 3, 4, 6]), "beat_type": rng.choice([2, 4, 8]), "track": tr}]
        metas = []
        if rng.random() < 0.5:
            metas.append(dict(_fix_meta({"type": "text", "text": rng.choice(WORDS)}), time=0.0, track=tr))
        parts.insert(rng.randrange(len(parts) + 1), {"notes": [], "controls": [], "programs": [], "key_signatures": keys,
                                                     "time_signatures": tsigs, "meta_other": metas})
    return {"kind": kind, "hostile": hostile, "ensure_unique_tracks": rng.random() < 0.6, "np_ppq": np_ppq,
            "as_tuple": rng.random() < 0.2, "ppq": ppq, "mpq": mpq, "merge_save": merge_save, "merge_load": merge_load,
            "out": rng.choice(["none", "path", "path", "bytes"]), "loader": rng.choice(["midi", "midi", "dispatch"]),
            "np_times": rng.choice([False] * 8 + ["f8", "f4"]), "parts": parts}


def build_performance(spec):
    """-> the object handed to save_performance_midi (Performance, PerformedPart, list/tuple)."""
    import numpy as np
    from partitura.performance import PerformedPart, Performance
    pps = []
    parts = copy.deepcopy(spec["parts"])
    for pi, p in enumerate(parts):
        if spec.get("np_times"):
            # numpy scalars as times (single precision is what PerformedPart.from_note_array produces)
            ty = np.float32 if spec["np_times"] == "f4" else np.float64
            for n in p["notes"]:
                n["note_on"], n["note_off"] = ty(n["note_on"]), ty(n["note_off"])
                if n["note_off"] < n["note_on"]:
                    n["note_off"] = n["note_on"]
            if ty is np.float32:
                for c_ in p["controls"]:
                    c_["time"] = ty(c_["time"])
        for m in p["meta_other"]:
            if "data" in m:
                m["data"] = tuple(m["data"])
        if spec.get("hostile") == "untracked":
            # events given without a track number belong to track 0, like notes given without one
            for lst in (p["controls"], p["programs"], p["key_signatures"], p["time_signatures"], p["meta_other"]):
                for e in lst:
                    e.pop("track", None)
            for n in p["notes"]:
                n["track"] = 0
        pps.append(PerformedPart(p["notes"], id=f"P{pi}", controls=p["controls"], programs=p["programs"],
                                 key_signatures=p["key_signatures"], time_signatures=p["time_signatures"],
                                 meta_other=p["meta_other"], ppq=spec["ppq"], mpq=spec["mpq"]))
    if spec["kind"] == "part":
        return pps[0]
    if spec["kind"] == "list":
        return tuple(pps) if spec.get("as_tuple") else pps
    before = [[(o.get("track", 0)) for o in p["notes"] + p["controls"] + p["programs"]] for p in spec["parts"]]
    perf = Performance(pps, id="perf", ensure_unique_tracks=spec["ensure_unique_tracks"])
    if spec.get("hostile") == "untracked":
        return perf          # (nothing to re-map: the events have no track number)
    # Performance() may renumber the tracks of notes/controls/programs; signatures and other
    # meta events follow their track ("the Performance object as it is when saved")
    for pp, old in zip(perf.performedparts, before):
        new = [o["track"] for o in list(pp.notes) + pp.controls + pp.programs]
        mp = dict(zip(old, new))
        for lst in (pp.key_signatures, pp.time_signatures, pp.meta_other):
            for e in lst:
                e["track"] = mp.get(e["track"], e["track"])
    return perf


# ------------------------------------------------------------------ raw MIDI files
def make_midi_spec(rng, size=1.0):
    ftype = rng.choice([0, 1, 1, 1])
    ntracks = 1 if ftype == 0 else rng.choice([1, 2, 2, 3, 4, 5])
    ppq = rng.choice([24, 96, 120, 384, 480, 480, 960, 1000, rng.randrange(1, 5000)])
    merge = rng.random() < 0.3
    span = rng.choice([1, 10, 100, 1000])
    horizon = 1
    tracks_abs = []
    used = set()
    max_notes = max(1, int(rng.choice([2, 6, 20, 50]) * size))
    chan_pool = list(range(16))
    rng.shuffle(chan_pool)
    dirty = rng.random() < 0.06        # stray offs / unterminated / overlapping notes (flagged, not judged)
    for ti in range(ntracks):
        evs = []     # (tick, seq, kind, params)
        seq = 0
        if merge and rng.random() < 0.85:
            lo = (ti * 16) // ntracks
            channels = chan_pool[lo:max(lo + 1, ((ti + 1) * 16) // ntracks)]
        else:
            channels = rng.sample(range(16), rng.choice([1, 2, 4]))
        n_notes = rng.randrange(0, max_notes + 1)
        n_groups = max(1, min(n_notes, rng.choice([1, 2, 4, 8])))
        groups = []
        for _ in range(3 * n_groups):
            if len(groups) >= n_groups:
                break
            g = (rng.choice(channels), rng.choice([60, 60, 0, 127, rng.randrange(128), rng.randrange(128)]))
            if (ti, g) in used:
                continue
            used.add((ti, g))
            groups.append(g)
        share = [0] * len(groups)
        for _ in range(n_notes):
            share[rng.randrange(len(groups))] += 1
        for (ch, pitch), cnt in zip(groups, share):
            cur = rng.choice([0, 0, rng.randrange(0, 2000)])
            # sometimes the same notes sound on a second channel as well (ids then differ by channel only)
            twin = None
            if rng.random() < 0.15:
                cands = [c for c in channels if c != ch and (ti, (c, pitch)) not in used]
                if cands:
                    twin = rng.choice(cands)
                    used.add((ti, (twin, pitch)))
            for i in range(cnt):
                on = cur + (0 if (i and rng.random() < 0.3) else rng.randrange(0, span + 1))
                off = on + (0 if rng.random() < 0.06 else rng.randrange(1, span * 2 + 2))
                evs.append((on, seq, "note_on", {"channel": ch, "note": pitch, "velocity": rng.randrange(1, 128)})); seq += 1
                if rng.random() < 0.4:
                    evs.append((off, seq, "note_on", {"channel": ch, "note": pitch, "velocity": 0}))
                else:
                    evs.append((off, seq, "note_off", {"channel": ch, "note": pitch, "velocity": rng.choice([0, 64, rng.randrange(128)])}))
                seq += 1
                if twin is not None:
                    evs.append((on, seq, "note_on", {"channel": twin, "note": pitch, "velocity": rng.randrange(1, 128)})); seq += 1
                    evs.append((off, seq, "note_off", {"channel": twin, "note": pitch, "velocity": 0})); seq += 1
                cur = off
                if dirty and rng.random() < 0.2:
                    evs.append((cur, seq, rng.choice(["note_off", "note_on"]),
                                {"channel": ch, "note": pitch, "velocity": rng.choice([0, 0, 50])})); seq += 1
            horizon = max(horizon, cur)
        for _ in range(rng.choice([0, 1, 3, int(12 * size) + 1])):
            evs.append((rng.randrange(0, horizon + span + 1), seq, "control_change",
                        {"channel": rng.choice(channels), "control": rng.choice([64, 64, 67, rng.randrange(128)]),
                         "value": rng.randrange(128)})); seq += 1
        for _ in range(rng.choice([0, 0, 1, 2])):
            evs.append((rng.choice([0, rng.randrange(0, horizon + 1)]), seq, "program_change",
                        {"channel": rng.choice(channels), "program": rng.randrange(128)})); seq += 1
        for _ in range(rng.choice([0, 0, 2, 5])):
            kind = rng.choice(["pitchwheel", "aftertouch", "polytouch", "sysex"])
            prm = {"pitchwheel": {"channel": rng.choice(channels), "pitch": rng.randrange(-8192, 8192)},
                   "aftertouch": {"channel": rng.choice(channels), "value": rng.randrange(128)},
                   "polytouch": {"channel": rng.choice(channels), "note": rng.randrange(128), "value": rng.randrange(128)},
                   "sysex": {"data": [rng.randrange(128) for _ in range(rng.randrange(0, 4))]}}[kind]
            evs.append((rng.randrange(0, horizon + span + 1), seq, kind, prm)); seq += 1
        for _ in range(rng.choice([0, 0, 1, 3])):
            r = rng.random()
            t = rng.choice([0, rng.randrange(0, horizon + span + 1)])
            if r < 0.3:
                evs.append((t, seq, "key_signature", {"key": rng.choice(["C", "Am", "F#", "Ebm", "Cb", "A#m", "G", "Dm"])}))
            elif r < 0.6:
                evs.append((t, seq, "time_signature", {"numerator": rng.choice([2, 3, 4, 6, 7, 12]),
                                                       "denominator": rng.choice([2, 4, 8, 16])}))
            else:
                m = _fix_meta(_meta(rng))
                ty = m.pop("type")
                if ty == "unknown_meta":
                    t = 0          # mido drops the delta time of a meta event it has no name for when it reads a file
                evs.append((t, seq, ty, m))
            seq += 1
        tracks_abs.append(evs)
    # tempo events
    mode = rng.choice(["none", "first", "first", "last", "spread", "spread", "spread"])
    n_tempo = 0 if mode == "none" else rng.choice([1, 1, 2, 3, 5, 8])
    pool = [rng.choice([250000, 500000, 612244, 1000000, 333333, rng.randrange(1, 2000000), rng.randrange(1, 16777216)])
            for _ in range(3)]
    for j in range(n_tempo):
        ti = {"first": 0, "last": ntracks - 1}.get(mode, rng.randrange(ntracks))
        t = 0 if (j == 0 and rng.random() < 0.5) else rng.randrange(0, horizon + span + 1)
        mpq = rng.choice(pool + [rng.randrange(50000, 2000000)])
        tracks_abs[ti].append((t, 10**6 + j, "set_tempo", {"tempo": mpq}))
        if rng.random() < 0.15:        # repeated equal tempo later on
            tracks_abs[ti].append((t + rng.randrange(0, span + 1), 10**6 + 100 + j, "set_tempo", {"tempo": mpq}))
    tracks = []
    for evs in tracks_abs:
        evs.sort(key=lambda e: (e[0], e[1]))
        prev = 0
        out = []
        for t, _, kind, prm in evs:
            out.append([t - prev, kind, prm])
            prev = t
        if rng.random() < 0.7:
            out.append([rng.choice([0, 0, 17]), "end_of_track", {}])
        tracks.append(out)
    return {"type": ftype, "ppq": ppq, "merge": merge, "default_bpm": rng.choice([120, 120, 120, 60, 100, 150]),
            "via": rng.choice(["path", "object"]), "dirty": dirty, "tempo_mode": mode,
            "rt": {"ppq": rng.choice(PPQS + [ppq]), "mpq": rng.choice(MPQS + [500000]), "merge_save": rng.random() < 0.2,
                   "merge_load": rng.random() < 0.2},
            "tracks": tracks}


META_TYPES = set(TEXT_METAS) | {"midi_port", "channel_prefix", "sequence_number", "sequencer_specific", "smpte_offset",
                                "key_signature", "time_signature", "set_tempo", "end_of_track", "unknown_meta"}


def build_midifile(spec):
    import mido
    mf = mido.MidiFile(type=spec["type"], ticks_per_beat=spec["ppq"])
    for evs in spec["tracks"]:
        tr = mido.MidiTrack()
        for delta, kind, prm in evs:
            prm = dict(prm)
            if "data" in prm:
                prm["data"] = tuple(prm["data"])
            if kind == "unknown_meta":
                from mido.midifiles.meta import UnknownMetaMessage
                tr.append(UnknownMetaMessage(prm["type_byte"], data=prm.get("data", ()), time=delta))
            elif kind in META_TYPES:
                tr.append(mido.MetaMessage(kind, time=delta, **prm))
            else:
                tr.append(mido.Message(kind, time=delta, **prm))
        mf.tracks.append(tr)
    return mf
