"""C02 — quarter and beat maps are exact, monotone and mutually inverse.

Contract on the real property getters Part.quarter_map / beat_map /
inv_quarter_map / inv_beat_map / quarter_duration_map: whenever any workload
obtains a map, it is evaluated at every integer position of the timeline (one
vector call + sampled scalar calls) and compared with the exact Fraction model.
"""
import math
from fractions import Fraction

import numpy as np

from vmon import core
from vmon.refmodels import timemaps

ODD_METERS = [(2, 6), (5, 12), (7, 10), (3, 3), (4, 6), (5, 6)]

PROP = "C02"
RULE = ("generated single parts with 0-6 division changes and 0-6 time-signature changes (on and off barlines), pickups of "
        "every length incl. none/full, notated and musical beat mode (default and user-supplied beats per signature), plus all "
        "parts of the MusicXML/MEI/kern/MIDI fixture corpus; non-trivial = (>=1 division change and >=1 signature change after "
        "the first point) or a pickup; distinct by (division table, signature table, first-measure extent, beat mode)")
ASSUMPTIONS = ["exact model vmon/refmodels/timemaps.py; float results compared with rel. tol. 1e-9",
               "positions outside [first, last] are not judged; absolute origin judged only where the statement fixes it "
               "(first measure with its signature at the first point and no signature change inside it, or no measure at the first point)",
               "before the first time signature the beat equals the quarter (documented 4/4 default)"]
MIN_HOOKS = {"Part.quarter_map": 300, "Part.beat_map": 300, "Part.inv_quarter_map": 300, "Part.inv_beat_map": 300,
             "Part.quarter_duration_map": 300}
MIN_NONTRIVIAL = {"quick": 300, "thorough": 5000}

_installed = False
TOL = 1e-9


def close(x, exact, tol=TOL):
    return abs(x - float(exact)) <= tol * max(1.0, abs(float(exact)))


def positions(d, rng=None):
    first, last = d["first"], d["last"]
    if last - first <= 400:
        return list(range(first, last + 1))
    pos = {first, last}
    for t, _ in d["q"]:
        pos.update((t - 1, t, t + 1))
    for t, *_ in d["ts"]:
        pos.update((t - 1, t, t + 1))
    for m0, m1 in d["first_measures"]:
        pos.update((m0, m1 or m0))
    r = rng or __import__("random").Random(0)
    pos.update(r.randint(first, last) for _ in range(250))
    return sorted(p for p in pos if first <= p <= last)


def check_map(ctx, part, kind, fn):
    """kind in quarter_map, beat_map, inv_quarter_map, inv_beat_map, quarter_duration_map"""
    d = timemaps.describe(part)
    if d["n_points"] == 0:
        return
    musical = bool(getattr(part, "_use_musical_beat", False))
    w = {"map": kind, "q": d["q"][:12], "ts": d["ts"][:12], "first_measures": d["first_measures"], "first": d["first"],
         "last": d["last"], "musical": musical}
    model = timemaps.Model(d, musical=musical)
    pos = positions(d)
    if kind == "quarter_duration_map":
        ctx.check(len(pos))
        got = np.asarray(fn(np.asarray(pos + [d["last"] + 1, d["last"] + 100]))).tolist()
        exp = [model.divisions(t) for t in pos + [d["last"] + 1, d["last"] + 100]]
        if [int(g) for g in got] != exp:
            i = next(i for i, (g, e) in enumerate(zip(got, exp)) if int(g) != e)
            ctx.violation("quarter_duration_map-wrong", f"at t={(pos + [d['last'] + 1, d['last'] + 100])[i]}: {got[i]} expected {exp[i]}", w)
        return
    if d["n_points"] < 2:
        # one-point part: the single position maps to zero, scalar and vector alike
        ctx.extra["one_point_parts"] += 1
        for arg, form in ((np.array([float(d["first"])]), "vector"), (0.0 if kind.startswith("inv") else d["first"], "scalar")):
            try:
                v = fn(arg)
                ctx.check()
                if float(np.asarray(v).ravel()[0]) != (float(d["first"]) if kind.startswith("inv") else 0.0):
                    ctx.violation(f"one-point-part-map-not-zero", f"{kind}({form}) -> {v}", w)
            except Exception as e:  # noqa
                ctx.violation(f"one-point-part-{form}-call-raises", f"{kind}({form} argument) raised {type(e).__name__}: {e}", w)
        return
    is_q = "quarter" in kind
    oq, ob = model.origin_q, model.origin_b
    origin = oq if is_q else ob
    exact = [(model.quarter(t) if is_q else model.beat(t)) for t in pos]
    if kind in ("quarter_map", "beat_map"):
        vec = np.asarray(fn(np.asarray(pos, dtype=float)), dtype=float)
        ctx.check(len(pos))
        if vec.shape != (len(pos),) or not np.all(np.isfinite(vec)):
            ctx.violation(f"{kind}-not-finite-inside-timeline", f"shape {vec.shape}, nan at {[p for p, v in zip(pos, vec) if not math.isfinite(v)][:5]}", w)
            return
        if origin is None:
            ctx.ambiguous()
            shift = exact[0] - Fraction(float(vec[0])).limit_denominator(10**9)     # judge differences only
            ctx.extra["origin_not_fixed_by_statement"] += 1
        else:
            shift = origin
        bad = [(t, float(v), float(e - shift)) for t, v, e in zip(pos, vec.tolist(), exact) if not close(v, e - shift, 1e-8 if origin is None else TOL)]
        if bad:
            t, v, e = bad[0]
            # classify: constant offset (origin) or slope
            offs = {round(b[1] - b[2], 6) for b in bad}
            if len(bad) == len(pos) and len(offs) == 1:
                if d["first"] > 0 and close(next(iter(offs)), Fraction(d["first"]) * (model.quarter(d["first"] + 1) if is_q else model.beat(d["first"] + 1)), 1e-6):
                    key = f"{kind}-zero-at-timeline-0-not-at-first-point"
                elif oq == 0 and d["first_measures"]:
                    key = f"{kind}-origin-wrong-full-first-bar-taken-for-pickup"
                elif oq != 0:
                    key = f"{kind}-origin-wrong-pickup-not-recognised"
                else:
                    key = f"{kind}-origin-wrong"
            else:
                key = f"{kind}-wrong-value"
            ctx.violation(key, f"{kind}({t}) = {v}, exact {e}; {len(bad)}/{len(pos)} positions differ", w)
            return
        if any(b <= a for a, b in zip(vec.tolist(), vec.tolist()[1:])):
            ctx.violation(f"{kind}-not-increasing", "map not strictly increasing over integer positions", w)
        # scalar == vector (sampled)
        for i in range(0, len(pos), max(1, len(pos) // 7)):
            s = fn(pos[i])
            ctx.check()
            if not close(float(s), float(vec[i]), 1e-12):
                ctx.violation(f"{kind}-scalar-vector-disagree", f"t={pos[i]}: scalar {float(s)} vector {float(vec[i])}", w)
                break
    else:
        # inverse maps undo the forward maps at every position of the timeline: inv(fwd(t)) == t, with
        # fwd the part's own forward map (itself judged against the exact model whenever it is obtained)
        fwd = part.quarter_map if is_q else part.beat_map
        args = np.asarray(fwd(np.asarray(pos, dtype=float)), dtype=float)
        if not np.all(np.isfinite(args)):
            return          # reported by the forward-map contract
        back = np.asarray(fn(args), dtype=float)
        ctx.check(len(pos))
        bad = [(t, float(b)) for t, b in zip(pos, back.tolist()) if not (abs(b - t) <= 1e-6 * max(1.0, t))]
        if bad:
            ctx.violation(f"{kind}-does-not-undo-forward-map", f"inv(fwd({bad[0][0]})) = {bad[0][1]}; {len(bad)}/{len(pos)} positions", w)


def install(ctx, kinds=("quarter_map", "beat_map", "inv_quarter_map", "inv_beat_map", "quarter_duration_map")):
    global _installed
    core.set_current(ctx)
    if _installed:
        return
    _installed = True
    import partitura.score as S

    def mk(kind):
        def post(ret, exc, token, a, k):
            if exc is None:
                check_map(core.CURRENT, a[0], kind, ret)
        core.Hook(S.Part, kind, post=post, ctx=ctx, label=f"Part.{kind}")
    for kind in kinds:
        mk(kind)


def setup(ctx):
    install(ctx)


# ---------------------------------------------------------------- workload
def plan(tier, seed):
    n = 16 * 60 if tier == "quick" else 16 * 1200
    items = [["gen", i] for i in range(n)]
    items += [["edge", i] for i in range(100 if tier == "quick" else 2000)]
    from workloads import corpora
    items += [["fixture", p] for p in corpora.score_files(limit=24 if tier == "quick" else None)]
    return items


def get_all_maps(ctx, part):
    for kind in ("quarter_map", "beat_map", "inv_quarter_map", "inv_beat_map", "quarter_duration_map"):
        ctx.call(lambda: getattr(part, kind))


def run_item(ctx, item):
    import partitura.score as S
    from workloads import gen_score
    kind = item[0]
    if kind == "gen":
        rng = ctx.rng("gen", item[1])
        feats = [f for f in ("pickup", "ts_changes", "div_changes", "rests", "ties") if rng.random() < 0.7]
        part, meta = gen_score.make_part(rng, "P1", features=feats, n_measures=rng.randint(1, 8),
                                         divs=rng.choice(gen_score.DIVS_POOL))
        hostile = rng.random()
        last = part.last_point.t
        if hostile < 0.35:                      # division changes off the barlines, in any order, some of them redundant
            from vmon.refmodels.timeline import TimelineModel
            tab0 = [(int(t), int(q)) for t, q in part.quarter_durations()]
            hist = TimelineModel(tab0[0][1])
            hist.qcands = [dict(tab0)]
            for _ in range(rng.randint(1, 4)):
                t_ = rng.randint(0, last)
                in_force = TimelineModel.q_of(hist.qcands[0], t_)
                q_ = in_force if rng.random() < 0.3 else rng.choice([1, 2, 3, 4, 6, 7, 8, 12, 24, 480])
                part.set_quarter_duration(t_, q_)
                hist.set_quarter(t_, q_)
            # what was set is what is in force: the table the maps are built from must denote one of the step functions the
            # call history admits (a redundant call may or may not leave an entry; later calls then differ)
            got = {int(t): int(q) for t, q in part.quarter_durations()}
            probe = sorted(set(range(0, last + 2)) if last <= 400 else {x + dx for tabc in hist.qcands + [got] for x in tabc for dx in (-1, 0, 1) if x + dx >= 0})
            ctx.check()
            if not hist.q_ambiguous and not any(all(TimelineModel.q_of(tabc, x) == TimelineModel.q_of(got, x) for x in probe) for tabc in hist.qcands):
                bad = next(x for x in probe if all(TimelineModel.q_of(tabc, x) != TimelineModel.q_of(got, x) for tabc in hist.qcands[:1]))
                ctx.violation("quarter-duration-table-differs-from-what-was-set",
                              f"after the calls the part holds {sorted(got.items())[:12]}; the history admits {[sorted(c.items())[:12] for c in hist.qcands[:3]]} (e.g. at t={bad})",
                              {"table_before": tab0, "table_after": sorted(got.items())})
        if 0.25 < hostile < 0.55:               # signature changes off the barlines
            used = {ts.start.t for ts in timemaps.objects_of(part, S.TimeSignature)}
            for _ in range(rng.randint(1, 2)):
                t = rng.randint(1, max(1, last - 1))
                if t not in used:
                    used.add(t)
                    # beat types that are not a power of two are rare but the statement's formula covers them: beat_type/4
                    odd = rng.random() < 0.4
                    part.add(S.TimeSignature(*rng.choice(ODD_METERS if odd else gen_score.METERS)), t)
                    ctx.extra["signatures_with_a_beat_type_that_is_no_power_of_two"] += int(odd)
        d = timemaps.describe(part)
        get_all_maps(ctx, part)
        mode = "notated"
        if rng.random() < 0.6:
            mb = {}
            if rng.random() < 0.5:
                for t, b, bt, _ in d["ts"]:
                    if rng.random() < 0.6:
                        mb[f"{b}/{bt}"] = rng.choice([1, 2, 3, b])
            ctx.call(part.use_musical_beat, mb)
            mode = "musical" + ("-custom" if mb else "")
            get_all_maps(ctx, part)
            if rng.random() < 0.35:
                # a signature restated later (same numerator and denominator as the one in force) that is counted in another
                # number of beats: the count belongs to the signature object, so the beat map changes slope there
                used = {ts.start.t for ts in timemaps.objects_of(part, S.TimeSignature)}
                cands = [x for x in range(d["first"] + 1, last) if x not in used]
                if cands and d["ts"]:
                    t_new = rng.choice(cands)
                    in_force = [row for row in d["ts"] if row[0] <= t_new] or [d["ts"][0]]
                    b_, bt_ = in_force[-1][1], in_force[-1][2]
                    ts_new = S.TimeSignature(b_, bt_)
                    part.add(ts_new, t_new)
                    if rng.random() < 0.6:
                        ts_new.musical_beats = rng.choice([x for x in (1, 2, 3, b_) if x != in_force[-1][3]] or [b_])
                    mode += "-restated"
                    ctx.extra["restated_signatures_counted_differently"] += 1
                    get_all_maps(ctx, part)
                    d = timemaps.describe(part)
            # histories: the beats per signature are changed again while the maps have been read before (no timeline edit between)
            for _h in range(rng.randint(0, 2)):
                mb2 = {}
                for t, b, bt, _ in d["ts"]:
                    if rng.random() < 0.7:
                        mb2[f"{b}/{bt}"] = rng.choice([1, 2, 3, b])
                ctx.call(part.set_musical_beat_per_ts, mb2)
                get_all_maps(ctx, part)
                mode += "-reset"
            if rng.random() < 0.5:
                ctx.call(part.use_notated_beat)
                get_all_maps(ctx, part)
                mode += "-back"
                if rng.random() < 0.5:
                    mb3 = {f"{b}/{bt}": rng.choice([1, 2, 3, b]) for t, b, bt, _ in d["ts"] if rng.random() < 0.7}
                    ctx.call(part.use_musical_beat, mb3)
                    get_all_maps(ctx, part)
                    mode += "-again"
        nt = (len(d["q"]) > 1 and any(t > d["first"] for t, *_ in d["ts"])) or bool(meta["pickup"])
        ctx.case([d["q"], d["ts"], d["first_measures"], mode], nt, cls="generated",
                 sample={"divisions": d["q"], "time_signatures": d["ts"], "first_measure": d["first_measures"], "mode": mode,
                         "last": d["last"]})
        ctx.state(f"{min(len(d['q']), 4)}:{min(len(d['ts']), 4)}:{bool(meta['pickup'])}:{mode}")
    elif kind == "edge":
        rng = ctx.rng("edge", item[1])
        q = rng.choice([1, 2, 3, 6, 12, 480])
        part = S.Part("E", quarter_duration=q)
        which = item[1] % 6
        if which == 0:                          # one-point part
            part.add(S.TimeSignature(4, 4), 0)
        elif which == 1:                        # no measure, no signature
            part.add(S.Note("C", 4, id="a", voice=1), rng.randint(0, 3), rng.randint(4, 40))
        elif which == 2:                        # full first bar at every divisions value, compound meters
            b, bt = rng.choice([(6, 8), (9, 8), (12, 8), (3, 8), (5, 8), (7, 8)])
            q = rng.choice([2, 4, 6, 12, 24])
            part = S.Part("E", quarter_duration=q)
            bar = 4 * q * b // bt
            part.add(S.TimeSignature(b, bt), 0)
            for i in range(rng.randint(1, 4)):
                part.add(S.Measure(number=i + 1), i * bar, (i + 1) * bar)
            part.add(S.Note("C", 4, id="a", voice=1), 0, bar)
        elif which == 5:                        # fine divisions: a pickup that is a few divisions short of a full bar
            b, bt = rng.choice([(4, 4), (3, 4), (6, 8), (2, 2), (12, 8)])
            q = rng.choice([960, 30000, 44100, 10 ** 6, 2 ** 20 * 15])
            part = S.Part("E", quarter_duration=q)
            bar = 4 * q * b // bt
            short = rng.choice([1, 1, 2, 7])
            part.add(S.TimeSignature(b, bt), 0)
            part.add(S.Measure(number=1), 0, bar - short)
            part.add(S.Measure(number=2), bar - short, 2 * bar - short)
            part.add(S.Note("C", 4, id="a", voice=1), 0, bar - short)
            part.add(S.Note("D", 4, id="b", voice=1), bar - short, 2 * bar - short)
        elif which == 4:                        # a FULL first bar made of stretches with different divisions
            from fractions import Fraction as F
            b, bt = rng.choice([(6, 8), (9, 8), (12, 8), (3, 4), (4, 4), (5, 8), (7, 8), (2, 4)])
            full = F(4 * b, bt)
            qs = [rng.choice([3, 5, 6, 7, 9, 12, 24]) for _ in range(rng.randint(2, 3))]
            # split the bar at fractions representable in the stretch's own divisions
            cuts, acc = [], F(0)
            for q in qs[:-1]:
                k = rng.randint(1, max(1, int((full - acc) * q) - 1))
                if F(k, q) >= full - acc:
                    break
                cuts.append((q, k))
                acc += F(k, q)
            rest = full - acc
            ql = next((q for q in [qs[-1], 3, 5, 6, 7, 9, 12, 24, 48, 96, 35 * 9 * 16] if (rest * q).denominator == 1), None)
            part = S.Part("E", quarter_duration=(cuts[0][0] if cuts else ql))
            t = 0
            for i, (q, k) in enumerate(cuts):
                if i > 0:
                    part.set_quarter_duration(t, q)
                t += k
            if cuts:
                part.set_quarter_duration(t, ql)
            t += int(rest * ql)
            part.add(S.TimeSignature(b, bt), 0)
            part.add(S.Measure(number=1), 0, t)
            part.add(S.Measure(number=2), t, t + int(full * ql))
            part.add(S.Note("C", 4, id="a", voice=1), 0, t)
        else:                                   # timeline starting after 0
            t0 = rng.randint(1, 9)
            part.add(S.TimeSignature(3, 4), t0)
            part.add(S.Measure(number=1), t0, t0 + 3 * q)
            part.add(S.Note("C", 4, id="a", voice=1), t0, t0 + 3 * q)
        get_all_maps(ctx, part)
        if which in (2, 4, 5):
            ctx.call(part.use_musical_beat)
            get_all_maps(ctx, part)
        d = timemaps.describe(part)
        ctx.case(["edge", which, d.get("q"), d.get("ts"), d.get("first_measures")], which in (2, 3, 4, 5), cls=f"edge{which}")
    elif kind == "fixture":
        import partitura
        sc = ctx.call(partitura.load_score, item[1])
        for part in sc.parts:
            get_all_maps(ctx, part)
            d = timemaps.describe(part)
            ctx.case(["fixture", item[1], part.id], len(d.get("q", [])) > 1 or len(d.get("ts", [])) > 1, cls="fixture")
