"""Thorough-tier item: the repository's own tests executed under one property's monitors."""
import json
import os
import subprocess
import tempfile

from . import core


def run(ctx, monitor, timeout=900, select=None):
    here = os.path.dirname(os.path.dirname(os.path.abspath(__file__)))
    repo = os.environ.get("VERIF_REPO", "/repo")
    fd, out = tempfile.mkstemp(suffix=".json")
    os.close(fd)
    env = dict(os.environ)
    env.update(VMON_PYTEST_MONITOR=monitor, VMON_PYTEST_OUT=out, PYTHONDONTWRITEBYTECODE="1",
               PYTHONPATH=os.pathsep.join([here, repo, os.path.join(here, ".deps")]))
    cmd = ["/venv/bin/python", "-m", "pytest", "-q", "-x" if False else "-q", "-p", "no:cacheprovider", "-p", "workloads.pytest_plugin",
           "--continue-on-collection-errors", "--timeout=600"] + (select or ["tests"])
    try:
        subprocess.run(cmd, cwd=repo, env=env, stdout=subprocess.DEVNULL, stderr=subprocess.DEVNULL, timeout=timeout)
        with open(out) as f:
            res = json.load(f)
    except (subprocess.TimeoutExpired, ValueError, FileNotFoundError) as e:
        ctx.monitor_errors.append({"item": ["pytest", monitor], "traceback": f"pytest tier did not complete: {e!r}"})
        return
    finally:
        try:
            os.unlink(out)
        except OSError:
            pass
    for h, n in res["hooks"].items():
        ctx.hooks["pytest:" + h] += n
    ctx.oracle_checks += res["oracle_checks"]
    ctx.n_ambiguous += res["ambiguous"]
    for v in res["violations"]:
        ctx.violation(v["key"], "[under the repository's tests] " + v["what"], dict(witness=v["witness"], test=v["item"]))
    ctx.extra["pytest_tier_hook_evaluations"] += sum(res["hooks"].values())
    ctx.extra["pytest_tier_monitor_errors"] += res["n_monitor_errors"]
    ctx.case(["pytest-tier", monitor], sum(res["hooks"].values()) > 0, cls="pytest-tier",
             sample={"pytest_tier": monitor, "hook_evaluations": sum(res["hooks"].values()), "violations": len(res["violations"])})
