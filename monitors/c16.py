"""C16 — transposition moves every note by the interval and leaves the input alone.

Post-condition hook on the real `partitura.utils.music.transpose` (and on
`transpose_note`): argument snapshot before/after, result compared note by
note with from-scratch diatonic arithmetic, everything but step/alter/octave
compared structurally with the argument.
"""
import itertools

from vmon import core, snapshot
from vmon.refmodels import pitch as P

PROP = "C16"
EXHAUSTIVE = True
RULE = ("exhaustive table: steps x alter -2..2 x octave 0..8 x 39 interval classes x {up,down}, each through a part "
        "(note + tied continuation + grace note + rest) and through a one-part score; chord-root arithmetic transpose_note "
        "over steps x alter x 39 classes (up); sampled generated scores with ties, chords and grace notes. A case is "
        "non-trivial when the interval is not P1 and the expected alteration is within +-2 (in domain); distinct by "
        "(note, interval, direction, argument kind)")
ASSUMPTIONS = ["reference diatonic arithmetic in vmon/refmodels/pitch.py",
               "in-domain = expected |alter| <= 2 for every note of the argument"]
MIN_HOOKS = {"transpose": {"quick": 5000, "thorough": 40000}, "transpose_note": 500}
MIN_NONTRIVIAL = {"quick": 4000, "thorough": 30000}

_hooks = []


def pitched(part_or_score):
    import partitura.score as S
    parts = part_or_score.parts if isinstance(part_or_score, S.Score) else [part_or_score]
    out = []
    for p in parts:
        for tp in p._points:
            for cls, objs in tp.starting_objects.items():
                if issubclass(cls, S.Note):
                    out.extend(objs)
    return out


def check_transpose(ctx, before, arg, result, interval, label):
    """before = (snapshot(arg), masked snapshot(arg), [(step, alter, octave)])"""
    import partitura.score as S
    snap0, masked0, pitches0 = before
    ctx.check()
    after = snapshot.snap(arg)
    if after != snap0:
        ctx.violation("argument-modified", f"{label}: transpose changed its argument: {snapshot.diff(snap0, after)[:3]}",
                      {"interval": str(interval), "direction": interval.direction, "pitches": pitches0[:4]})
    if result is arg:
        ctx.violation("result-is-argument", f"{label}: transpose returned its argument", None)
        return
    if type(result) is not type(arg):
        ctx.violation("result-type", f"{label}: {type(arg).__name__} -> {type(result).__name__}", None)
        return
    exp = [P.transpose(s, a, o, interval.number, interval.quality, interval.direction) for s, a, o in pitches0]
    # a note whose own transposition stays within double accidentals is judged whatever the other notes of the argument
    # need (the library moves every note by itself); the others are don't-care
    judged = [abs(e[1]) <= 2 and abs(a or 0) <= 2 for e, (_, a, _) in zip(exp, pitches0)]
    in_domain = all(judged)
    if not in_domain:
        ctx.extra["out_of_domain"] += 1
        if not any(judged):
            return False
    for kind_ in getattr(ctx, "c16_unusual", ()):
        ctx.extra["judged_with:" + kind_] += 1
    got_notes = pitched(result)
    got = [(n.step, n.alter or 0, n.octave) for n in got_notes]
    ctx.check(len(exp))
    if len(got) != len(exp):
        ctx.violation("note-count-changed", f"{label}: {len(exp)} -> {len(got)} pitched notes", None)
        return True
    for i, (g, e, orig) in enumerate(zip(got, exp, pitches0)):
        if not judged[i]:
            ctx.ambiguous()
            continue
        if g != e:
            n = got_notes[i]
            if g == (orig[0], orig[1] or 0, orig[2]):
                if n.tie_prev is not None:
                    key = "tie-continuation-not-transposed"
                elif isinstance(n, S.GraceNote):
                    key = "grace-note-not-transposed"
                else:
                    key = "note-not-transposed"
            elif g[0] != e[0]:
                key = f"wrong-step-{interval.direction}"
            elif g[2] != e[2]:
                key = f"wrong-octave-{interval.direction}"
            else:
                key = f"wrong-alter-{interval.direction}"
            ctx.violation(key, f"{label}: {orig} {interval.direction} {interval.quality}{interval.number} -> {g}, expected {e}",
                          {"note": list(orig), "interval": f"{interval.quality}{interval.number}", "direction": interval.direction,
                           "got": list(g), "expected": list(e), "note_index": i})
            break
    m = snapshot.snap(result, mask=("step", "alter", "octave"))
    ctx.check()
    if not m.same_structure(masked0):
        ctx.violation("other-elements-changed", f"{label}: result differs from argument beyond pitch: {snapshot.diff(masked0, m)[:3]}", None)
    return True


def install(ctx):
    import partitura.utils.music as M
    core.set_current(ctx)
    if _hooks:
        return

    def pre(score, interval):
        return (snapshot.snap(score), snapshot.snap(score, mask=("step", "alter", "octave")),
                [(n.step, n.alter, n.octave) for n in pitched(score)])

    def post(ret, exc, token, a, k):
        if exc is None:
            score = a[0] if a else k["score"]
            interval = a[1] if len(a) > 1 else k["interval"]
            check_transpose(core.CURRENT, token, score, ret, interval, type(score).__name__)

    h = core.Hook(M, "transpose", pre=pre, post=post, ctx=ctx, label="transpose")
    core.rebind_everywhere(h.orig, h.wrapper)
    _hooks.append(h)

    def post_tn(ret, exc, token, a, k):
        if exc is not None:
            return
        step, alter, interval = a
        c = core.CURRENT
        e = P.transpose(step, alter, 4, interval.number, interval.quality, "up")
        c.check()
        if (ret[0], ret[1]) != (e[0], e[1]):
            c.violation("transpose_note-wrong", f"{step}{alter} up {interval.quality}{interval.number} -> {ret}, expected {e[:2]}",
                        {"args": [step, alter, f"{interval.quality}{interval.number}"]})

    h2 = core.Hook(M, "transpose_note", post=post_tn, ctx=ctx, label="transpose_note")
    core.rebind_everywhere(h2.orig, h2.wrapper)
    _hooks.append(h2)


def setup(ctx):
    install(ctx)


def build_part(step, alter, octave):
    import partitura.score as S
    p = S.Part("P1", "piano", quarter_duration=4)
    p.add(S.TimeSignature(3, 4), 0)
    p.add(S.Measure(number=1, name="1"), 0, 12)
    n1 = S.Note(step, octave, alter, id="n1", voice=1, staff=1)
    n2 = S.Note(step, octave, alter, id="n2", voice=1, staff=1)
    p.add(n1, 0, 4)
    p.add(n2, 4, 8)
    n1.tie_next = n2
    n2.tie_prev = n1
    g = S.GraceNote("acciaccatura", step, octave, alter, id="g1", voice=1, staff=1)
    p.add(g, 8, 8)
    p.add(S.Rest(id="r1", voice=1, staff=1), 8, 12)
    return p


ENHARMONIC = {("G", 1): ("A", -1), ("A", -1): ("G", 1), ("C", 1): ("D", -1), ("D", -1): ("C", 1), ("F", 1): ("G", -1),
              ("G", -1): ("F", 1), ("D", 1): ("E", -1), ("E", -1): ("D", 1), ("A", 1): ("B", -1), ("B", -1): ("A", 1),
              ("E", 0): ("F", -1), ("F", 0): ("E", 1)}


def unusual_ties(ctx, rng, sc):
    """valid but uncommon ties: a tie into the enharmonic respelling of the same key (G sharp tied to A flat), and a grace
    note tied to its main note.  Every note of a chain still has to move by the interval, each from its own spelling."""
    import partitura.score as S
    for part in sc.parts:
        notes = pitched(part)
        if rng.random() < 0.3:
            conts = [n for n in notes if n.tie_prev is not None and (n.step, n.alter or 0) in ENHARMONIC]
            if conts:
                n = rng.choice(conts)
                m = n
                while m is not None:            # the rest of the chain is respelled with it (one respelling per chain)
                    m.step, m.alter = ENHARMONIC[(n.step, n.alter or 0)] if m is n else (n.step, n.alter)
                    m = m.tie_next
                ctx.extra["enharmonic_ties"] += 1
                ctx.c16_unusual = getattr(ctx, "c16_unusual", set()) | {"enharmonic-tie"}
        if rng.random() < 0.3:
            graces = [g for g in notes if isinstance(g, S.GraceNote) and g.tie_next is None and g.tie_prev is None]
            rng.shuffle(graces)
            for g in graces:
                main = g.main_note
                if main is None or not isinstance(main, S.Note) or main.tie_prev is not None or g.grace_next is not main:
                    continue
                g.step, g.alter, g.octave = main.step, main.alter, main.octave
                g.tie_next = main
                main.tie_prev = g
                ctx.extra["grace_notes_tied_to_their_main_note"] += 1
                ctx.c16_unusual = getattr(ctx, "c16_unusual", set()) | {"grace-tied-to-main"}
                break


def plan(tier, seed):
    items = [["table", s, a] for s in "CDEFGAB" for a in range(-2, 3)]
    items += [["chordroots"]]
    items += [["gen", i] for i in range(160 if tier == "quick" else 1600)]
    # pieces of ordinary length (the copy the transposition works on goes once around the whole timeline)
    items += [["long", i] for i in range(2 if tier == "quick" else 12)]
    return items


def run_item(ctx, item):
    import partitura.score as S
    import partitura.utils.music as M
    kind = item[0]
    if kind == "table":
        step, alter = item[1], item[2]
        for octave, (number, q), direction in itertools.product(range(0, 9), P.interval_classes(), ("up", "down")):
            iv = S.Interval(number, q, direction)
            exp = P.transpose(step, alter, octave, number, q, direction)
            dom = abs(exp[1]) <= 2
            for kind_ in ("part", "score"):
                part = build_part(step, alter, octave)
                arg = part if kind_ == "part" else S.Score([part], id="s")
                ok, res = ctx.try_call(M.transpose, arg, iv)
                ctx.case(["t", step, alter, octave, number, q, direction, kind_], dom and (number, q) != (1, "P"),
                         sample={"note": [step, alter, octave], "interval": f"{q}{number}", "direction": direction,
                                 "arg": kind_, "expected": list(exp)} if (octave, number, q, direction, kind_) == (4, 3, "M", "up", "part") else None)
                ctx.state(f"{kind_}:{direction}:{number}:{'wrap' if exp[2] != octave else 'same'}:{exp[1]}")
                if ok and dom and kind_ == "score" and res is not None and res is not arg:
                    # up then down (or down then up) restores the original spelling
                    back_iv = S.Interval(number, q, "down" if direction == "up" else "up")
                    ok2, back = ctx.try_call(M.transpose, res, back_iv)
                    if ok2 and back is not None:
                        got = [(n.step, n.alter or 0, n.octave) for n in pitched(back)]
                        want = [(n.step, n.alter or 0, n.octave) for n in pitched(arg)]
                        mid = [(n.step, n.alter or 0, n.octave) for n in pitched(res)]
                        ctx.check()
                        if got != want and all(m == exp for m in mid):
                            ctx.violation("up-down-not-identity", f"{want[0]} {direction} {q}{number} then back -> {got[0]}",
                                          {"note": [step, alter, octave], "interval": f"{q}{number}", "direction": direction})
    elif kind == "chordroots":
        for step, alter, (number, q) in itertools.product("CDEFGAB", range(-2, 3), P.interval_classes()):
            e = P.transpose(step, alter, 4, number, q, "up")
            iv = S.Interval(number, q)
            if abs(e[1]) <= 2:
                ctx.call(M.transpose_note, step, alter, iv)
                ctx.case(["tn", step, alter, number, q], (number, q) != (1, "P"))
            else:
                try:
                    r = M.transpose_note(step, alter, iv)
                    ctx.extra["transpose_note_out_of_domain_returned"] += 1
                except AssertionError:
                    ctx.extra["transpose_note_out_of_domain_rejected"] += 1
        # intervals whose quality was adjusted in place (as the harmony code does for altered degrees: bVII, #iv)
        classes = set(P.interval_classes())
        for step, alter, (number, q), num in itertools.product("CDEFGAB", range(-2, 3), P.interval_classes(), (-2, -1, 1, 2)):
            iv = S.Interval(number, q)
            try:
                iv.change_quality(num)
            except ValueError:
                continue
            if (iv.number, iv.quality) not in classes:
                continue
            ctx.check()
            if iv.semitones != P.interval_semitones(iv.number, iv.quality):
                ctx.violation("interval-semitones-stale-after-change_quality",
                              f"Interval({number},{q}).change_quality({num}) is {iv.quality}{iv.number} but reports {iv.semitones} semitones",
                              {"interval": f"{q}{number}", "change": num})
            e = P.transpose(step, alter, 4, iv.number, iv.quality, "up")
            if abs(e[1]) <= 2:
                ctx.call(M.transpose_note, step, alter, iv)
                ctx.case(["tn-adjusted", step, alter, number, q, num], True, cls="chord-root-adjusted-interval")
    elif kind == "long":
        import sys
        rng = ctx.rng("long", item[1])
        n_notes = rng.choice([900, 1500, 2500]) if item[1] < 2 else rng.choice([1000, 4000, 8000, 12000])
        part = S.Part("P1", "long", quarter_duration=4)
        part.add(S.TimeSignature(4, 4), 0)
        prev = None
        for i in range(n_notes):
            step = rng.choice("CDEFGAB")
            alter = rng.choice([None, 0, 1, -1])
            if prev is not None and rng.random() < 0.1:
                n = S.Note(prev.step, prev.octave, prev.alter, id=f"n{i}", voice=1, staff=1)
                prev.tie_next = n
                n.tie_prev = prev
            else:
                n = S.Note(step, rng.randint(2, 6), alter, id=f"n{i}", voice=1, staff=1)
            part.add(n, 4 * i, 4 * i + 4)
            prev = n
        number, q = rng.choice([ic for ic in P.interval_classes() if ic[1] in ("P", "M", "m")])
        iv = S.Interval(number, q, rng.choice(["up", "down"]))
        arg = part if rng.random() < 0.5 else S.Score([part], id="long")
        limit0 = sys.getrecursionlimit()
        ctx.try_call(M.transpose, arg, iv)
        ctx.check()
        if sys.getrecursionlimit() != limit0:
            ctx.violation("recursion-limit-left-changed", f"sys.getrecursionlimit() {limit0} before transpose, {sys.getrecursionlimit()} after", {"notes": n_notes})
            sys.setrecursionlimit(limit0)
        ctx.case(["long", item[1]], True, cls="long-piece", sample={"notes": n_notes, "interval": f"{q}{number}", "arg": type(arg).__name__})
    elif kind == "gen":
        from workloads import gen_score
        rng = ctx.rng("gen", item[1])
        sc = gen_score.make_score(rng, profile="pitchy")
        ctx.c16_unusual = set()
        unusual_ties(ctx, rng, sc)
        number, q = rng.choice(P.interval_classes()) if rng.random() < 0.5 else rng.choice(
            [ic for ic in P.interval_classes() if ic[1] in ("P", "M", "m")])          # (the common intervals stay inside the domain)
        direction = rng.choice(["up", "down"])
        iv = S.Interval(number, q, direction)
        edited = False
        if rng.random() < 0.2:
            # a score whose list of parts was edited after it was built (item assignment / append are public): what is
            # transposed is what score.parts holds now
            other, _ = gen_score.make_part(rng, "PX", profile="pitchy")
            if rng.random() < 0.5:
                sc[rng.randrange(len(sc.parts))] = other
            else:
                sc.parts.append(other)
            edited = True
            ctx.extra["scores_with_parts_replaced_after_construction"] += 1
        arg = sc if (edited or rng.random() < 0.5) else sc.parts[rng.randrange(len(sc.parts))]
        notes = pitched(arg)
        exp = [P.transpose(n.step, n.alter, n.octave, number, q, direction) for n in notes]
        dom = all(abs(e[1]) <= 2 for e in exp)
        ctx.try_call(M.transpose, arg, iv)
        ties = sum(1 for n in notes if n.tie_prev is not None)
        ctx.case(["g", item[1]], dom and ties > 0 and len(notes) > 5, cls="generated",
                 sample={"notes": len(notes), "ties": ties, "interval": f"{q}{number}", "direction": direction,
                         "arg": type(arg).__name__})
