"""C19 — MEI and Humdrum **kern files load to the notes their notation denotes.

Post-condition hooks on the real `load_mei`, `load_kern`, `load_score`,
`save_mei`, `save_kern`.  The workload writes documents with two independent
writers (vmon/refmodels/mei_writer.py, kern_writer.py) from abstract scores
(workloads/gen_notation.py) and registers the abstract score under the file
name; the reader hooks look the file up and compare the returned Score with
what the notation denotes (vmon/refmodels/notation.py, exact Fractions).  The
writer hooks snapshot the argument's notes, load the written file back and
compare onset, duration, pitch and staff.
"""
import collections
import os
import shutil
import tempfile
from fractions import Fraction as F

from vmon import core
from vmon.refmodels import notation as N
from vmon.refmodels import pitch as P

PROP = "C19"
RULE = ("abstract scores (1-4 staves/spines, 1-2 layers per staff, 1-10 measures, 13 meters, pickups, meter/key/clef "
        "changes at barlines, values breve..64th x 0-2 dots, 1-3 tuplet ratios per document out of 3:2 5:4 6:4 7:4 2:3 7:8 "
        "9:8 with merged and dotted members, chords, rests, measure rests, spaces, grace notes, ties incl. chains and chord "
        "members; smallest exact divisions <= 5040) rendered by independent MEI and kern writers under random encoding "
        "options (MEI: meter/key/clef as staffDef or scoreDef attributes or children, @ppq / @dur.ppq / both / neither, "
        "beams in and around tuplets, accid / accid.ges / <accid>, <tie> placement, nested staffGrp before or after a "
        "staffDef, nested sections, endings, well-formed repeats; kern: *staff / first barline / closing barline / "
        "naturals / key designation / reference records on or off, integer and rational reciprocals, spine splits); "
        "generated parts (gen_score: chords rests ties graces tuplets multivoice multistaff pickup meter/key/clef changes) "
        "exported by save_mei / save_kern and re-loaded; the 33 fixture files as smoke input; extension dispatch through "
        "load_score for .mei .MEI .krn .kern .KRN. A document case is non-trivial when it has >= 2 voices or spines, >= 1 "
        "dotted or tuplet value and >= 1 tie; an export case when the part has >= 2 voices or staves and a dotted or tuplet "
        "value; distinct by document digest")
ASSUMPTIONS = ["reference semantics of notation in vmon/refmodels/notation.py; independent writers mei_writer.py / kern_writer.py",
               "alter None == 0; for kern the part order, the zero-length measure after a closing barline, voice numbers "
               "(only the partition into voices is judged), the staff number of spines without *staff and the key mode "
               "are not judged; a kern document without any barline has no judged measures (counted as ambiguous)",
               "per document only the earliest disagreement in time/pitch is reported (later ones follow from it); "
               "voices, staves, ties, grace class, measures and signatures are judged on parts whose events all agree",
               "export round trip judged on the multiset (onset, duration, MIDI pitch, staff) of all notes of the part",
               "fixture files are outside the quantifier: a reader that rejects one is counted, not judged",
               "float32 note-array columns compared with relative tolerance 1e-6, up to the constant pickup shift"]
MIN_HOOKS = {"load_mei": {"quick": 1400, "thorough": 20000}, "load_kern": {"quick": 1400, "thorough": 20000},
             "load_score": {"quick": 40, "thorough": 200}, "save_mei": {"quick": 200, "thorough": 3000},
             "save_kern": {"quick": 200, "thorough": 3000}}
MIN_NONTRIVIAL = {"quick": 700, "thorough": 10000}

FIXTURE_DIR = os.path.join(core.REPO, "tests", "data")
EXPECT = {}            # absolute file name -> expectation registered by the workload
_hooks = []
_reader_calls = []     # labels of reader hooks entered (for the dispatch check)
DOC_LIMIT = 6000


# ---------------------------------------------------------------- reading a loaded score
def _num(t):
    if hasattr(t, "item"):
        t = t.item()
    return F(t)


class Timeline:
    """Exact quarter position of a timeline time from the part's divisions table."""

    def __init__(self, part):
        tab = [(_num(t), _num(q)) for t, q in part.quarter_durations()]
        self.table = tab or [(F(0), F(1))]

    def q(self, t):
        t = _num(t)
        tab = self.table
        pos = F(0)
        for i, (t0, q) in enumerate(tab):
            t0 = F(0) if i == 0 else t0
            t1 = tab[i + 1][0] if i + 1 < len(tab) else None
            if t <= t0 and i > 0:
                break
            end = t if (t1 is None or t <= t1) else t1
            pos += (end - t0) / q
            if t1 is None or t <= t1:
                break
        return pos

    def divisions(self):
        return sorted({q for _, q in self.table})


def part_events(part):
    """Notes and rests of a loaded part as plain dicts (exact quarter times)."""
    import partitura.score as S
    tl = Timeline(part)
    notes, rests = [], []
    for n in part.notes:
        on, off = tl.q(n.start.t), tl.q(n.end.t)
        notes.append({"id": n.id, "on": on, "dur": off - on, "step": n.step, "alter": n.alter or 0, "oct": n.octave,
                      "voice": n.voice, "staff": n.staff, "grace": isinstance(n, S.GraceNote),
                      "tie_next": n.tie_next, "tie_prev": n.tie_prev, "obj": n,
                      "integral": _num(n.start.t).denominator == 1 and _num(n.end.t).denominator == 1})
    for r in part.rests:
        on, off = tl.q(r.start.t), tl.q(r.end.t)
        rests.append({"id": r.id, "on": on, "dur": off - on, "voice": r.voice, "staff": r.staff, "obj": r,
                      "integral": _num(r.start.t).denominator == 1 and _num(r.end.t).denominator == 1})
    return tl, notes, rests


def fq(x):
    return str(x)


def _doc(exp):
    t = exp["text"]
    return t if len(t) <= DOC_LIMIT else t[:DOC_LIMIT] + "\n...[truncated]"


def _witness(exp, **kw):
    w = {"format": exp["fmt"], "options": exp["o"], "document": _doc(exp)}
    w.update(kw)
    return w


def report(ctx, key, what, witness):
    """ctx.violation, but the few witnesses kept per mechanism are the smallest documents seen."""
    size = len((witness or {}).get("document") or (witness or {}).get("written") or "")
    witness = dict(witness or {}, document_chars=size)
    n_before = len(ctx.violations)
    ctx.violation(key, what, witness)
    if len(ctx.violations) == n_before:          # quota for this key is used up: replace a larger witness
        kept = [v for v in ctx.violations if v["key"] == key and isinstance(v.get("witness"), dict)]
        if kept:
            worst = max(kept, key=lambda v: v["witness"].get("document_chars", 0))
            if worst["witness"].get("document_chars", 0) > size:
                worst.update(what=what, item=ctx.item, witness=witness)


def _rhythm(info, exp):
    r = info["rhythm"]
    if exp["fmt"] == "kern" and info.get("rational"):
        r = "rational-recip" + ("-dotted" if "dotted" in r else "")
    return r


# ---------------------------------------------------------------- the oracle for loaded documents
def check_loaded(ctx, exp, score):
    fmt, A, o = exp["fmt"], exp["A"], exp["o"]
    den = exp["den"]
    parts = list(score.parts)
    ctx.check()
    staves = [st["n"] for st in A["staves"]]
    for p in parts:
        qs = [_num(q) for _, q in p.quarter_durations()]
        if any(q <= 0 for q in qs):
            report(ctx, f"{fmt}-divisions-not-positive" + (":document-with-breve" if exp.get("has_breve") else ""), f"part {p.id}: divisions per quarter {[fq(q) for q in qs]} "
                   f"(the smallest exact divisions of this document are {o.get('min_divisions')})", _witness(exp))
            return False
    # ---- parts as encoded
    if fmt == "mei":
        by_id = {p.id: p for p in parts}
        want = [f"sd{n}" for n in staves]
        if sorted(by_id) != sorted(want) or len(parts) != len(want):
            report(ctx, "mei-parts-not-one-per-staffdef", f"staffDefs {want} -> parts {[p.id for p in parts]}", _witness(exp))
            return
        pairing = [(n, by_id[f"sd{n}"]) for n in staves]
        # every encoded note / rest belongs to the part made from the staffDef with its staff's @n
        ctx.check()
        owner = {}
        for p in parts:
            for x in list(p.notes) + list(p.rests):
                owner.setdefault(x.id, p.id)
        for n in staves:
            for ev in den[n]["notes"] + den[n]["rests"]:
                got_owner = owner.get(ev["id"])
                if got_owner is not None and got_owner != f"sd{n}":
                    order = {None: "flat-staffGrp", "tail": "staffDef-then-nested-staffGrp",
                             "head": "nested-staffGrp-then-staffDef"}[o.get("nest")]
                    report(ctx, f"mei-staff-content-in-wrong-part:{order}",
                           f"{ev['info']['kind']} {ev['id']} of <staff n={n}> is in the part made from staffDef {got_owner!r}, "
                           f"not in 'sd{n}'", _witness(exp, event=ev["id"]))
                    return False
    else:
        if len(parts) != len(staves):
            report(ctx, "kern-parts-not-one-per-spine", f"{len(staves)} spines -> {len(parts)} parts", _witness(exp))
            return
        pairing = pair_kern_parts(den, staves, parts)
    # phase A of every part first: only the earliest disagreement of the document is reported (later ones, also in
    # other staves, follow from it because all staves share the barlines)
    gens = []
    for sn, part in pairing:
        g = check_part(ctx, exp, sn, den[sn], part)
        gens.append((g, next(g)))
    probs = [p for _, p in gens if p is not None]
    if probs:
        min(probs, key=lambda p: p[0])[1]()
    clean_all = not probs
    for g, _ in gens:
        try:
            g.send(not probs)
        except StopIteration as stop:
            clean_all = bool(stop.value) and clean_all
    return clean_all


def pair_kern_parts(den, staves, parts):
    """Part order is not judged: pair spines with parts by best agreement of (onset, pitch) sets."""
    import itertools
    sigs, staffs = [], []
    for p in parts:
        tl = Timeline(p)
        c = collections.Counter((tl.q(n.start.t), n.step, n.alter or 0, n.octave) for n in p.notes)
        c.update((tl.q(r.start.t), "rest", tl.q(r.end.t)) for r in p.rests)
        sigs.append(c)
        staffs.append({x.staff for x in list(p.notes) + list(p.rests)})
    want = []
    for sn in staves:
        c = collections.Counter((n["on"], n["step"], n["alter"] or 0, n["oct"]) for n in den[sn]["notes"])
        c.update((r["on"], "rest", r["on"] + r["dur"]) for r in den[sn]["rests"])
        want.append(c)
    best, best_score = None, None
    for perm in itertools.permutations(range(len(parts))):
        s = (sum(sum((want[i] & sigs[j]).values()) for i, j in enumerate(perm)),
             sum(1 for i, j in enumerate(perm) if staffs[j] == {staves[i]}))
        if best_score is None or s > best_score:
            best, best_score = perm, s
    return [(sn, parts[best[i]]) for i, sn in enumerate(staves)]


def check_part(ctx, exp, sn, d, part):
    """d = denotation of staff sn. Returns True when nothing was reported."""
    import partitura.score as S
    fmt, A, o = exp["fmt"], exp["A"], exp["o"]
    tl, gnotes, grests = part_events(part)
    clean = True

    def V(key, what, **kw):
        nonlocal clean
        clean = False
        report(ctx, key, what, _witness(exp, staff=sn, **kw))

    # ---- divisions represent every duration exactly
    ctx.check()
    divs = tl.divisions()
    bad = [(dur, q) for dur in sorted(d["durations"]) for q in divs if (dur * q).denominator != 1]
    if bad:
        dur, q = bad[0]
        cls = sorted({e["rhythm"] for e in d["events"] if e["dur"] == dur})
        cause = "document-with-breve" if (fmt == "kern" and exp.get("has_breve")) else (cls[0] if cls else "value")
        V(f"{fmt}-divisions-inexact:{cause}",
          f"divisions {fq(q)} per quarter cannot represent the encoded duration {fq(dur)} quarters",
          divisions=[fq(x) for x in divs], duration=fq(dur))
    if any(not e["integral"] for e in gnotes + grests):
        V(f"{fmt}-non-integral-timeline", "a note starts or ends at a non-integral timeline position")

    # ---- group A: every encoded note / rest: onset, duration, spelling
    exp_events = [dict(n, kind="note") for n in d["notes"]] + [dict(r, kind="rest", step=None, alter=None, oct=None,
                                                                    grace=False) for r in d["rests"]]
    exp_events.sort(key=lambda e: (e["on"], e["info"]["measure"], e["info"]["voice"], e["info"]["index"]))
    got_events = [dict(g, kind="note") for g in gnotes] + [dict(g, kind="rest", step=None, alter=0, oct=None, grace=False)
                                                           for g in grests]
    ctx.check(len(exp_events))
    matched = {}        # index in exp_events -> got event
    problem = None
    if fmt == "mei":
        gid = {}
        for g in got_events:
            gid.setdefault(g["id"], []).append(g)
        for i, e in enumerate(exp_events):
            c = gid.get(e["id"], [])
            if len(c) == 1:
                matched[i] = c[0]
        for i, e in enumerate(exp_events):
            g = matched.get(i)
            if g is None:
                problem = ("missing", e, None)
            elif g["on"] == e["on"] and g["dur"] != e["dur"]:
                problem = ("duration", e, g)
            elif g["on"] != e["on"]:
                problem = ("onset", e, g)
            elif e["kind"] == "note" and (g["step"], g["alter"], g["oct"]) != (e["step"], e["alter"] or 0, e["oct"]):
                problem = ("pitch", e, g)
            if problem:
                break
        if problem is None and len(got_events) != len(exp_events):
            problem = ("extra", None, None)
    else:
        pool = collections.defaultdict(list)
        for g in got_events:
            pool[(g["on"], g["kind"], g["step"], g["alter"] if g["kind"] == "note" else None, g["oct"])].append(g)
        for i, e in enumerate(exp_events):
            key = (e["on"], e["kind"], e["step"], (e["alter"] or 0) if e["kind"] == "note" else None, e["oct"])
            c = pool.get(key, [])
            pick = next((g for g in c if g["dur"] == e["dur"] and g["grace"] == e["grace"]), None) \
                or next((g for g in c if g["dur"] == e["dur"]), None)
            if pick is not None:
                c.remove(pick)
                matched[i] = pick
        for i, e in enumerate(exp_events):
            if i in matched:
                continue
            key = (e["on"], e["kind"], e["step"], (e["alter"] or 0) if e["kind"] == "note" else None, e["oct"])
            c = pool.get(key, [])
            if c:
                problem = ("duration", e, c[0])
            else:
                same_time = [g for g in got_events if g["on"] == e["on"] and g["kind"] == e["kind"]
                             and g["dur"] == e["dur"] and id(g) not in {id(m) for m in matched.values()}]
                if e["kind"] == "note" and same_time:
                    problem = ("pitch", e, same_time[0])
                else:
                    moved = [g for g in got_events if g["kind"] == e["kind"] and g["step"] == e["step"]
                             and g["oct"] == e["oct"] and id(g) not in {id(m) for m in matched.values()}]
                    problem = ("onset", e, moved[0]) if moved else ("missing", e, None)
            break
        if problem is None and len(got_events) != len(exp_events):
            problem = ("extra", None, None)

    def brief(x):
        if x is None:
            return None
        return {"id": x.get("id"), "onset": fq(x["on"]), "duration": fq(x["dur"]),
                "pitch": [x.get("step"), x.get("alter"), x.get("oct")], "voice": x.get("voice"), "staff": x.get("staff")}

    found = None
    if problem:
        what, e, g = problem
        if what == "extra":
            found = ((F(10 ** 9), 9), lambda: V(f"{fmt}-extra-or-duplicate-events",
                                               f"{len(exp_events)} notes+rests encoded, {len(got_events)} loaded",
                                               loaded=[brief(x) for x in got_events][:12]))
        else:
            info = e["info"]
            info = dict(info, rational=exp.get("rational", {}).get(info["id"]))
            kind = info["kind"]
            if (fmt == "mei" and what in ("duration", "onset") and o.get("ppq_style") == "durppq"
                    and divs != [F(o["unit"])]):
                first = next((ev for M in A["measures"] for st in A["staves"] for ly in M["staves"][str(st["n"])]
                              for ev in ly["ev"] if ev["k"] not in ("g", "m")), None)
                key = "mei-quarter-length-misread-from-dur.ppq"
                msg = (f"first element with dur.ppq is {N.rhythm_class(first) if first else None}; dur.ppq values say {o['unit']} ppq per quarter (no @ppq declared), the part uses {[fq(x) for x in divs]}: "
                       f"{kind} {e['id']} lasts {fq(g['dur'])} quarters, notation denotes {fq(e['dur'])}")
            elif what == "duration":
                key = f"{fmt}-duration-wrong:{_rhythm(info, exp)}"
                msg = f"{kind} {e['id']} ({_rhythm(info, exp)}) lasts {fq(g['dur'])} quarters, notation denotes {fq(e['dur'])}"
            elif what == "onset":
                prev = info.get("after_info")
                prev_txt = f"{info['after']}:{_rhythm(prev, exp)}" if prev else info["after"]
                key = f"{fmt}-onset-wrong:after-{prev_txt}"
                msg = f"{kind} {e['id']} starts at {fq(g['on'])}, notation denotes {fq(e['on'])} (previous in layer: {prev_txt})"
            elif what == "pitch":
                ge, ee = (g["step"], g["alter"], g["oct"]), (e["step"], e["alter"] or 0, e["oct"])
                part_ = "step" if ge[0] != ee[0] else "octave" if ge[2] != ee[2] else f"alter({ee[1]}->{ge[1]})"
                key = f"{fmt}-pitch-wrong:{part_}"
                msg = f"{kind} {e['id']} loaded as {ge}, notation denotes {ee}"
            else:
                key = f"{fmt}-event-missing:{kind}:{_rhythm(info, exp)}"
                msg = f"{kind} {e['id']} at {fq(e['on'])} ({e['step']}{e['alter']}{e['oct']}) is not in the loaded part"
            rank = (e["on"], {"duration": 0, "missing": 1, "pitch": 2, "onset": 3}[what])
            found = (rank, lambda: V(key, msg, expected=brief(e), got=brief(g), measure=info["measure"], voice=info["voice"]))
    if bad and found is not None:
        # wrong times follow from the inexact divisions already reported
        found = ((F(-1), 0), lambda: None)
    doc_clean = yield found
    if problem:
        return False

    # ---- group D: grace notes
    ctx.check()
    for i, e in enumerate(exp_events):
        g = matched[i]
        if e["kind"] == "note" and e["grace"] and not g["grace"]:
            V(f"{fmt}-grace-note-not-a-GraceNote", f"grace note {e['id']} loaded as {type(g['obj']).__name__}",
              expected=brief(e))
            break
        if e["kind"] == "note" and not e["grace"] and g["grace"]:
            V(f"{fmt}-plain-note-loaded-as-grace", f"note {e['id']} loaded as GraceNote", expected=brief(e))
            break

    # ---- group B: layers / spines -> voices, staves
    ctx.check()
    staff_encoded = fmt == "mei" or o.get("staff", True)      # a kern spine without *staff encodes no staff number
    want_staff = sn if staff_encoded else None
    for i, e in enumerate(exp_events):
        g = matched[i]
        e_staff = e.get("staff", want_staff) if fmt == "mei" else want_staff      # (MEI: a note may carry its own @staff)
        if staff_encoded and g["staff"] != e_staff:
            V(f"{fmt}-staff-wrong:{e['kind']}" + (":cross-staff" if e_staff != want_staff or g["staff"] != want_staff else ""),
              f"{e['kind']} {e['id']} of staff {e_staff} (layer on staff {want_staff}) loaded with staff {g['staff']}",
              expected=brief(e), got=brief(g))
            break
    if fmt == "mei":
        for i, e in enumerate(exp_events):
            g = matched[i]
            if g["voice"] != e["voice"]:
                V(f"mei-voice-wrong:{'layer-n' if o.get('layer_n') else 'layer-order'}",
                  f"{e['kind']} {e['id']} in layer {e['voice']} loaded with voice {g['voice']}", expected=brief(e), got=brief(g))
                break
    else:
        # partition only: the unsplit spine and its left sub-spine are one voice, a right sub-spine is another,
        # constant within one split region
        main = {matched[i]["voice"] for i, e in enumerate(exp_events) if e["voice"] == 1}
        if len(main) > 1:
            V("kern-voice-wrong:one-spine-several-voices", f"events of one unsplit spine carry voices {sorted(main, key=str)}")
        regions = collections.defaultdict(set)
        for i, e in enumerate(exp_events):
            if e["voice"] != 1:
                regions[exp["region"].get(e["info"]["measure"], {}).get(sn)].add(matched[i]["voice"])
        for reg, vs in regions.items():
            if len(vs) > 1 or (vs & main):
                V("kern-voice-wrong:sub-spine", f"right sub-spine events carry voices {sorted(vs, key=str)}, main spine {sorted(main, key=str)}")
                break

    # ---- group C: ties joined
    ctx.check()
    got_of = {exp_events[i]["id"]: matched[i] for i in matched}
    exp_of_obj = {id(matched[i]["obj"]): exp_events[i] for i in matched}
    by_eid = {x["id"]: x for x in exp_events}

    def chordish(*evs):
        """'chord' when one of the events or one of their notated tie partners is a chord member."""
        for x in evs:
            if x is None:
                continue
            for y in (x, by_eid.get(x.get("tie_next")), by_eid.get(x.get("tie_prev"))):
                if y is not None and y.get("chord"):
                    return "chord"
        return "note"

    for i, e in enumerate(exp_events):
        if e["kind"] != "note":
            continue
        g = matched[i]
        for side in ("tie_next", "tie_prev"):
            w = e[side]
            t = g[side]
            if w is None and t is None:
                continue
            if w is not None and t is None:
                V(f"{fmt}-tie-not-joined:{chordish(e)}", f"{e['id']} is tied ({side}) to {w} in the notation, not in the loaded part",
                  expected=brief(e))
                break
            if w is None and t is not None:
                V(f"{fmt}-tie-spurious:{chordish(e, exp_of_obj.get(id(t)))}", f"{e['id']} has {side} in the loaded part but no tie in the notation",
                  expected=brief(e))
                break
            te = exp_of_obj.get(id(t))
            # equal notes (same time, pitch, duration) are interchangeable for the id-less kern matching
            if te is None or (te["id"] != w and not _same_event(te, next(x for x in exp_events if x["id"] == w))):
                V(f"{fmt}-tie-wrong-target:{chordish(e, te)}", f"{e['id']} {side} -> {te['id'] if te else '?'}, notation ties it to {w}",
                  expected=brief(e))
                break
        else:
            continue
        break

    # ---- sounding notes through the note array (ties joined => one row per chain)
    if clean:
        ctx.check()
        want = N.sounding(d["notes"])
        try:
            na = ctx.call(part.note_array)
        except core.PartituraRaised as pr:
            na = None
            V(f"raise:{type(pr.exc).__name__}@{pr.where}",
              f"note_array() of the loaded part raised {type(pr.exc).__name__}: {pr.exc} (divisions {[fq(x) for x in divs]} per "
              f"quarter, the smallest exact divisions of the document are {o.get('min_divisions')})", traceback=pr.tb[-1000:])
        if na is not None:
            got = sorted((float(r["onset_quarter"]), float(r["duration_quarter"]), int(r["pitch"])) for r in na)
            # the quarter axis of the note array is shifted when the part starts with a pickup: judge up to a constant
            off = (float(want[0][0]) - got[0][0]) if (want and got) else 0.0
            bad_row = None
            if len(got) != len(want):
                bad_row = ("count", len(want), len(got))
            else:
                for (wo, wd, wp), (go, gd, gp) in zip(sorted((float(a), float(b), c) for a, b, c in want), got):
                    if abs(wo - go - off) > 1e-6 * max(1, abs(wo)) or abs(wd - gd) > 1e-6 * max(1, abs(wd)) or wp != gp:
                        bad_row = ((wo, wd, wp), (go, gd, gp))
                        break
            if bad_row:
                V(f"{fmt}-note-array-differs-from-sounding-notes", f"note array row {bad_row[1:]} vs sounding note {bad_row[0]}")

    # ---- measures at the encoded barlines
    if clean and doc_clean and fmt == "kern" and exp.get("no_barlines"):
        ctx.ambiguous()         # a document without any barline: the statement does not say what its measures are
    elif clean and doc_clean:
        ctx.check()
        end = d["measures"][-1][1]
        gm = sorted((tl.q(m.start.t), tl.q(m.end.t) if m.end is not None else None) for m in part.measures)
        if fmt == "kern":
            gm = [m for m in gm if not (m[0] == end and (m[1] is None or m[1] == end))]
        ws = sorted(m[0] for m in d["measures"])
        gs = [m[0] for m in gm]
        if gs != ws:
            first = next((i for i, (a, b) in enumerate(zip(ws, gs)) if a != b), min(len(ws), len(gs)))
            kind = "count" if len(gs) != len(ws) else "position"
            V(f"{fmt}-measure-starts-wrong:{kind}",
              f"measures start at {[fq(x) for x in gs][:12]}, barlines are at {[fq(x) for x in ws][:12]} (first difference #{first})")

    # ---- meter, key, clef in force
    def in_force(objs, t):
        st = [s for s, _ in objs if s <= t]
        if not st:
            return set()
        return {v for s, v in objs if s == max(st)}

    ctx.check(3)
    ts = [(tl.q(x.start.t), (x.beats, x.beat_type)) for x in part.iter_all(S.TimeSignature)]
    ks = [(tl.q(x.start.t), (x.fifths, x.mode)) for x in part.iter_all(S.KeySignature)]
    cs = [(tl.q(x.start.t), (x.sign, x.line)) for x in part.iter_all(S.Clef) if not staff_encoded or x.staff == want_staff]
    probe = [F(0)] + ([m[0] for m in d["measures"]] if (clean and doc_clean) else [])
    seen = set()
    for t in probe:
        phase = "initial" if t == 0 else "change"
        wm = tuple(N.in_force(d["meters"], t))
        gmv = in_force(ts, t)
        if gmv != {wm} and ("m", phase) not in seen:
            seen.add(("m", phase))
            V(f"{fmt}-meter-in-force-wrong:{phase}", f"at quarter {fq(t)} meter {sorted(gmv)} in force, declared {wm}")
        wk = tuple(N.in_force(d["keys"], t))
        gk = in_force(ks, t)
        if {k[0] for k in gk} != {wk[0]} and ("k", phase) not in seen:
            seen.add(("k", phase))
            V(f"{fmt}-key-in-force-wrong:{phase}", f"at quarter {fq(t)} key signature {sorted(gk, key=str)} in force, declared {wk}")
        elif fmt == "mei" and o.get("mode") and wk[1] and {k[1] for k in gk} != {wk[1]} and ("km", phase) not in seen:
            seen.add(("km", phase))
            V(f"mei-key-mode-wrong:{phase}", f"at quarter {fq(t)} key {sorted(gk, key=str)} in force, declared {wk}")
        wc = tuple(N.in_force(d["clefs"], t))
        gc = in_force(cs, t)
        if gc != {wc} and ("c", phase) not in seen:
            seen.add(("c", phase))
            V(f"{fmt}-clef-in-force-wrong:{phase}", f"at quarter {fq(t)} clef {sorted(gc, key=str)} in force on staff {want_staff}, declared {wc}")
    return clean


def _same_event(a, b):
    return (a["on"], a["dur"], a["step"], a["alter"] or 0, a["oct"]) == (b["on"], b["dur"], b["step"], b["alter"] or 0, b["oct"])


# ---------------------------------------------------------------- smoke oracle (files without an abstract score)
def check_smoke(ctx, score, name):
    ctx.check()
    for part in score.parts:
        tl = Timeline(part)
        for n in part.notes:
            if _num(n.end.t) < _num(n.start.t):
                ctx.violation("loaded-note-ends-before-start", f"{name}: note {n.id}", {"file": name})
                return
        heads = sum(1 for n in part.notes if n.tie_prev is None)
        ok, na = ctx.try_call(part.note_array)
        if ok and na is not None and len(na) != heads:
            ctx.violation("note-array-rows-differ-from-tie-chain-heads", f"{name}: {len(na)} rows, {heads} chain heads",
                          {"file": name})
            return


# ---------------------------------------------------------------- export round trip
def snapshot_for_export(score_data):
    import partitura.score as S
    if isinstance(score_data, S.Score):
        parts = list(score_data.parts)
    elif isinstance(score_data, (list, tuple)):
        parts = list(S.iter_parts(score_data))
    else:
        parts = list(S.iter_parts([score_data]))
    out = []
    for p in parts:
        tl = Timeline(p)
        notes = list(p.notes)
        by_slot = collections.Counter((n.start.t, n.voice, n.staff) for n in notes if not isinstance(n, S.GraceNote))
        per_voice = collections.defaultdict(list)
        for n in sorted(notes, key=lambda n: (_num(n.start.t), isinstance(n, S.GraceNote) is False)):
            per_voice[(n.voice, n.staff)].append(n)
        for n in notes:
            sym = n.symbolic_duration or {}
            grace = isinstance(n, S.GraceNote)
            rhythm = "grace" if grace else N.rhythm_class({"k": "n", "d": sym.get("dots", 0) or 0,
                                                           "tu": [sym.get("actual_notes"), sym.get("normal_notes")]
                                                           if sym.get("actual_notes") else None})
            chord = (not grace) and by_slot[(n.start.t, n.voice, n.staff)] > 1
            graced = (not grace) and any(isinstance(m, S.GraceNote) and m.start.t == n.start.t
                                         for m in per_voice[(n.voice, n.staff)])
            seq = per_voice[(n.voice, n.staff)]
            i = seq.index(n)
            prev = seq[i - 1] if i else None
            out.append({"on": tl.q(n.start.t), "dur": tl.q(n.end.t) - tl.q(n.start.t), "midi": P.midi(n.step, n.alter, n.octave),
                        "staff": n.staff, "voice": n.voice, "id": n.id, "rhythm": rhythm, "kind": ("grace" if grace else "chord" if chord else "note") + ("+grace-before" if graced else ""),
                        "tied": n.tie_prev is not None or n.tie_next is not None,
                        "prev": None if prev is None else ("grace" if isinstance(prev, S.GraceNote) else "note"),
                        "gap_before": prev is not None and _num(prev.end.t) < _num(n.start.t),
                        "spelling": [n.step, n.alter, n.octave], "type": sym.get("type")})
    return out


def check_export(ctx, fmt, before, loaded, text, meta):
    ctx.check(len(before) + 1)
    got = []
    for p in loaded.parts:
        tl = Timeline(p)
        for n in p.notes:
            got.append({"on": tl.q(n.start.t), "dur": tl.q(n.end.t) - tl.q(n.start.t), "midi": P.midi(n.step, n.alter, n.octave),
                        "staff": n.staff})
    pool = collections.Counter((g["on"], g["dur"], g["midi"], g["staff"]) for g in got)
    unmatched = []
    for b in sorted(before, key=lambda b: (b["on"], b["voice"] or 0, b["midi"])):
        k = (b["on"], b["dur"], b["midi"], b["staff"])
        if pool[k] > 0:
            pool[k] -= 1
        else:
            unmatched.append(b)
    left = +pool
    doc = text if len(text) <= DOC_LIMIT else text[:DOC_LIMIT] + "\n...[truncated]"

    def brief(b):
        return {k: (fq(v) if isinstance(v, F) else v) for k, v in b.items()}

    if not unmatched:
        if left:
            report(ctx, f"export-{fmt}-extra-notes-after-reload", f"{sum(left.values())} notes appear after save_{fmt} -> load",
                   {"written": doc, "part": meta, "extra": [[fq(a), fq(b), c, d] for (a, b, c, d) in list(left)[:5]]})
            return False
        return True
    b = unmatched[0]
    cands = [k for k in left if k[2] == b["midi"]]
    same_time = [k for k in cands if k[0] == b["on"]]
    feature = f"{b['kind']}:{b['rhythm']}"
    ctxt = "voice-start" if b["prev"] is None else ("after-gap" if b["gap_before"] else f"after-{b['prev']}")
    # keys: what changed + the kind of note it happened to (the rhythm only where the note's own value is at stake)
    if any(k[1] == b["dur"] and k[0] == b["on"] for k in cands):
        key, what = f"export-{fmt}-staff-changed", "staff"
    elif same_time:
        key, what = f"export-{fmt}-duration-changed:{feature}", "duration"
    elif any(k[1] == b["dur"] for k in cands):
        key, what = f"export-{fmt}-onset-changed:{b['kind']}", f"onset ({ctxt})"
    elif cands:
        key, what = f"export-{fmt}-onset-and-duration-changed:{b['kind']}", f"onset ({ctxt}) and duration"
    else:
        same_slot = [k for k in left if k[0] == b["on"] and k[1] == b["dur"]]
        if same_slot:
            key, what = f"export-{fmt}-pitch-changed", "pitch"
        else:
            key, what = f"export-{fmt}-note-lost:{b['kind']}", "presence"
    report(ctx, key, f"save_{fmt} -> load changed the {what} of note {b['id']} ({feature}, voice {b['voice']}, staff {b['staff']}): "
                       f"{len(unmatched)} of {len(before)} notes not preserved",
                  {"note": brief(b), "candidates_after_reload": [[fq(a), fq(bb), c, d] for (a, bb, c, d) in (same_time or cands)[:4]],
                   "written": doc, "part": meta})
    return False


# ---------------------------------------------------------------- hooks
def guard(post):
    """An exception of the monitor inside a hook must not look like an exception of the library."""
    def safe(ret, exc, token, a, k):
        try:
            post(ret, exc, token, a, k)
        except core.PartituraRaised as pr:
            core.CURRENT.raised(pr)
        except Exception:
            import traceback
            c = core.CURRENT
            c.monitor_errors.append({"item": c.item, "traceback": traceback.format_exc()[-2500:]})
    return safe


def install(ctx):
    core.set_current(ctx)
    if _hooks:
        return
    import partitura  # noqa
    import partitura.io as IO
    import partitura.io.importmei as IM
    import partitura.io.importkern as IK
    import partitura.io.exportmei as EM
    import partitura.io.exportkern as EK

    def fname(a, k, names):
        if a:
            return a[0]
        for nm in names:
            if nm in k:
                return k[nm]
        return None

    def reader_post(fmt):
        def post(ret, exc, token, a, k):
            c = core.CURRENT
            fn = fname(a, k, ("filename", "mei_path"))
            exp = EXPECT.get(os.path.abspath(fn)) if isinstance(fn, (str, os.PathLike)) else None
            if exc is not None:
                return          # the driver's ctx.call turns it into raise:<Type>@<function>
            if exp is not None and exp.get("fmt") == fmt and "A" in exp:
                exp["checked"] = True
                exp["clean"] = check_loaded(c, exp, ret)
            else:
                check_smoke(c, ret, os.path.basename(str(fn)))
        return post

    def reader_pre(label):
        def pre(*a, **k):
            _reader_calls.append(label)
        return pre

    for mod, name, fmt in ((IM, "load_mei", "mei"), (IK, "load_kern", "kern")):
        h = core.Hook(mod, name, pre=reader_pre(name), post=guard(reader_post(fmt)), ctx=ctx, label=name)
        core.rebind_everywhere(h.orig, h.wrapper)
        _hooks.append(h)

    READER = {".mei": "load_mei", ".krn": "load_kern", ".kern": "load_kern"}

    def ls_pre(*a, **k):
        del _reader_calls[:]

    def ls_post(ret, exc, token, a, k):
        c = core.CURRENT
        fn = fname(a, k, ("filename", "score_fn"))
        if not isinstance(fn, (str, os.PathLike)):
            return
        ext = os.path.splitext(str(fn))[1].lower()
        if ext in READER and os.path.exists(str(fn)):      # (a URL or a missing file never reaches a reader)
            c.check()
            if _reader_calls != [READER[ext]]:
                c.violation("load_score-wrong-reader-for-extension",
                            f"extension {os.path.splitext(str(fn))[1]!r}: readers called {list(_reader_calls)}, expected {READER[ext]}",
                            {"extension": os.path.splitext(str(fn))[1], "raised": repr(exc) if exc else None})

    h = core.Hook(IO, "load_score", pre=ls_pre, post=guard(ls_post), ctx=ctx, label="load_score")
    core.rebind_everywhere(h.orig, h.wrapper)
    _hooks.append(h)

    def writer_hooks(mod, name, fmt, loader):
        def pre(*a, **k):
            data = a[0] if a else k.get("score_data", k.get("parts"))
            try:
                return {"before": snapshot_for_export(data)}
            except Exception as e:  # not a part we can read: nothing to compare
                return {"before": None, "error": repr(e)}

        def post(ret, exc, token, a, k):
            c = core.CURRENT
            out = a[1] if len(a) > 1 else k.get("out")
            if exc is not None or token["before"] is None or not isinstance(out, (str, os.PathLike)):
                return
            try:
                with open(out, encoding="utf-8", errors="replace") as f:
                    text = f.read()
            except OSError:
                return
            meta = EXPECT.get(os.path.abspath(out), {}).get("meta")
            try:
                loaded = c.call(loader(), out)
            except core.PartituraRaised as pr:
                report(c, f"export-{fmt}-output-not-loadable:{type(pr.exc).__name__}@{pr.where}",
                            f"file written by save_{fmt} cannot be loaded: {type(pr.exc).__name__}: {pr.exc}",
                            {"written": text[:DOC_LIMIT], "part": meta, "traceback": pr.tb[-1200:]})
                EXPECT.setdefault(os.path.abspath(out), {})["roundtrip"] = False
                return
            ok = check_export(c, fmt, token["before"], loaded, text, meta)
            EXPECT.setdefault(os.path.abspath(out), {})["roundtrip"] = ok

        h = core.Hook(mod, name, pre=pre, post=guard(post), ctx=ctx, label=name)
        core.rebind_everywhere(h.orig, h.wrapper)
        _hooks.append(h)

    writer_hooks(EM, "save_mei", "mei", lambda: IM.load_mei)
    writer_hooks(EK, "save_kern", "kern", lambda: IK.load_kern)


def setup(ctx):
    install(ctx)


# ---------------------------------------------------------------- plan
EXPORT_FEATURES = ("chords", "rests", "ties", "graces", "tuplets", "multivoice", "multistaff", "pickup", "ts_changes",
                   "keys", "clefs", "div_changes")
BATCH = 16


def fixtures():
    out = []
    for sub in ("mei", "kern"):
        d = os.path.join(FIXTURE_DIR, sub)
        if os.path.isdir(d):
            out += [f"{sub}/{f}" for f in sorted(os.listdir(d)) if f.endswith((".mei", ".krn", ".kern"))]
    return out


def plan(tier, seed):
    n = 96 if tier == "quick" else 1600
    nx = 32 if tier == "quick" else 540
    items = []
    for i in range(n):
        scale = (0, 1, 1)[i % 3] if tier == "quick" else (0, 1, 2, 4)[i % 4]
        items.append(["mei", i, scale])
        items.append(["kern", i, scale])
    for i in range(nx):
        items.append(["xmei", i])
        items.append(["xkern", i])
    items += [["dispatch", i] for i in range(4 if tier == "quick" else 40)]
    items += [["fixture", f] for f in fixtures()]
    if tier == "thorough":
        # the readers do not iterate over sets; a small hash-seed sweep confirms the results do not depend on it
        extra = [["mei", 10_000 + i, 2] for i in range(16)] + [["kern", 10_000 + i, 2] for i in range(16)]
        return {"0": items, "1": extra, "7": extra}
    return items


# ---------------------------------------------------------------- driver
def _features(A):
    two = len(A["staves"]) >= 2 or any(len(ls) > 1 for M in A["measures"] for ls in M["staves"].values())
    evs = [ev for M in A["measures"] for ls in M["staves"].values() for ly in ls for ev in ly["ev"]]
    rhythmic = any(ev.get("d") or ev.get("tu") for ev in evs)
    tie = any(p[3] for ev in evs for p in ev.get("p", []) if len(p) > 3)
    return two, rhythmic, tie, evs


def run_generated(ctx, fmt, idx, scale, tmp, via_load_score=False, ext=None):
    import partitura.io as IO
    import partitura.io.importmei as IM
    import partitura.io.importkern as IK
    from workloads import gen_notation
    from vmon.refmodels import mei_writer, kern_writer
    rng = ctx.rng("doc", fmt, idx, scale)
    for j in range(BATCH if not via_load_score else 1):
        A, o = gen_notation.gen(rng, fmt, scale)
        if fmt == "mei":
            text = mei_writer.render(A, o, rng)
        else:
            text = kern_writer.render(A, o)
        ext_ = ext or (".mei" if fmt == "mei" else rng.choice([".krn", ".kern"]))
        stem = f"doc{idx}_{j}"
        if via_load_score:
            # file names as people give them: sharps, question marks, semicolons, spaces, several dots, another extension inside
            stem = rng.choice([stem, "Prelude in C# minor", "Nocturne_F#_major", "Who is Sylvia?", "Op.10 No.3; Tristesse", "take 2 (live)",
                               "sonata.mid.backup", "score.xml", "Étude 3", "a&b=c"]) + f"-{j}"
        path = os.path.join(tmp, f"{stem}{ext_}")
        with open(path, "w", encoding="utf-8") as f:
            f.write(text)
        den = N.denote(A)
        exp = {"fmt": fmt, "A": A, "o": o, "text": text, "den": den, "checked": False,
               "has_breve": any(ev["t"] in ("breve", "long") and ev["k"] != "m" for M in A["measures"]
                                for ls in M["staves"].values() for ly in ls for ev in ly["ev"])}
        if fmt == "kern":
            exp["rational"] = {ev["id"]: kern_writer.is_rational(ev) for M in A["measures"] for ls in M["staves"].values()
                               for ly in ls for ev in ly["ev"] if ev["k"] != "m"}
            # split regions: consecutive measures in which a staff has two layers
            region = {}
            for st in A["staves"]:
                rid = 0
                prev2 = False
                for mi, M in enumerate(A["measures"]):
                    two = len(M["staves"][str(st["n"])]) > 1
                    if two and not prev2:
                        rid += 1
                    if two:
                        region.setdefault(mi, {})[st["n"]] = rid
                    prev2 = two
            exp["region"] = region
            exp["no_barlines"] = not any(ln.startswith("=") for ln in text.split("\n"))
        # previous event of the same layer for onset classification
        for sn, d in den.items():
            by_layer = {}
            for e in d["events"]:
                k = (e["measure"], e["voice"])
                e["after_info"] = by_layer.get(k)
                by_layer[k] = e
        EXPECT[os.path.abspath(path)] = exp
        two, rhythmic, tie, evs = _features(A)
        try:
            if via_load_score:
                ok, loaded_ = ctx.try_call(IO.load_score, path)
            else:
                ok, loaded_ = ctx.try_call(IM.load_mei if fmt == "mei" else IK.load_kern, path)
            if ok:
                if not exp["checked"]:
                    raise RuntimeError("reader hook did not check the registered document")
                if fmt == "kern" and not via_load_score and len(loaded_.parts) == 1 and not any(exp["rational"].values()) and rng.random() < 0.5:
                    # what the reader returned is a part like any other: it survives export and loading again
                    # (the hook on save_kern reloads the written file and compares it with the part)
                    import partitura.io.exportkern as EK_
                    path2 = os.path.join(tmp, f"re{idx}_{j}.krn")
                    EXPECT[os.path.abspath(path2)] = {"meta": {"from_kern_document": True, "seed_path": ["kern", str(idx), j]}}
                    try:
                        ctx.try_call(EK_.save_kern, loaded_.parts[0], path2)
                        ctx.extra["kern_documents_exported_again"] += 1
                    finally:
                        EXPECT.pop(os.path.abspath(path2), None)
                        if os.path.exists(path2):
                            os.unlink(path2)
            else:
                # attach the document to the raise just recorded
                v = ctx.violations[-1] if ctx.violations else None
                if v is not None and v["key"].startswith("raise:") and isinstance(v.get("witness"), dict) \
                        and v["witness"].get("detail") is None:
                    v["witness"]["detail"] = {"format": fmt, "options": o, "document": text[:DOC_LIMIT]}
        finally:
            EXPECT.pop(os.path.abspath(path), None)
            os.unlink(path)
        kinds = collections.Counter(ev["k"] for ev in evs)
        ctx.case(core.digest(text), two and rhythmic and tie, cls=f"{fmt}-document",
                 sample={"format": fmt, "staves": len(A["staves"]), "measures": len(A["measures"]), "events": len(evs),
                         "options": o, "document_head": text[-600:] if fmt == "mei" else text[:600]})
        sig_state = (fmt, len(A["staves"]), two, rhythmic, tie, bool(kinds["g"]), bool(kinds["m"]), bool(kinds["s"]),
                     bool(kinds["c"]), o.get("sig"), o.get("ppq_style"), o.get("staff"), o.get("final"))
        ctx.state("|".join(str(x) for x in sig_state))
        ctx.extra[f"{fmt}_events"] += len(evs)
        ctx.extra[f"{fmt}_tuplet_events"] += sum(1 for ev in evs if ev.get("tu"))
        ctx.extra[f"{fmt}_ties"] += sum(1 for ev in evs for p in ev.get("p", []) if len(p) > 3 and p[3])
        if fmt == "kern":
            ctx.extra["kern_rational_recips"] += sum(1 for v in exp["rational"].values() if v)
            ctx.extra["kern_split_measures"] += sum(len(v) for v in exp["region"].values())


def run_export(ctx, fmt, idx, tmp):
    import partitura.io.exportmei as EM
    import partitura.io.exportkern as EK
    from workloads import gen_score
    rng = ctx.rng("export", fmt, idx)
    for j in range(BATCH // 2):
        feats = [f for f in EXPORT_FEATURES if rng.random() < 0.45]
        divs = rng.choice([1, 2, 4, 4, 6, 8, 12, 16, 24, 480])
        part, meta = gen_score.make_part(rng, "P1", features=feats, divs=divs, n_measures=rng.randint(1, 4))
        cross = 0
        if meta["staves"] > 1 and rng.random() < 0.5:
            # cross-staff writing: a member of a chord, or a single note, of a voice stands on the other staff
            import partitura.score as S_
            groups = collections.defaultdict(list)
            for n in part.iter_all(S_.Note):
                if not isinstance(n, S_.GraceNote) and n.tie_prev is None and n.tie_next is None:
                    groups[(n.start.t, n.end.t, n.voice)].append(n)
            cands = [g for g in groups.values() if len(g) >= 2] if rng.random() < 0.7 else [g for g in groups.values() if len(g) == 1]
            rng.shuffle(cands)
            # (a target staff whose number equals the voice number is a boundary of its own: element numbers coincide)
            cands.sort(key=lambda g: not (g[0].voice != (g[0].staff or 1) and g[0].voice <= meta["staves"] and rng.random() < 0.7))
            for g in cands[:rng.randint(1, 4)]:
                n = rng.choice(g)
                others = [st for st in range(1, meta["staves"] + 1) if st != (n.staff or 1)]
                n.staff = n.voice if n.voice in others and rng.random() < 0.7 else rng.choice(others)
                cross += 1
                if n.staff == n.voice:
                    ctx.extra[f"export_{fmt}_cross_staff_note_on_staff_numbered_like_its_voice"] += 1
        wide = 0
        if rng.random() < 0.2:
            # a wide chord: six to eight notes with accidentals on one stem (a long cell of a kern line)
            import partitura.score as S_
            plain = [n for n in part.iter_all(S_.Note) if not isinstance(n, S_.GraceNote) and n.tie_prev is None and n.tie_next is None
                     and not (n.symbolic_duration or {}).get("actual_notes")]
            if plain:
                base = rng.choice(plain)
                have = {(m.step, m.octave) for m in plain if m.start.t == base.start.t}
                for k_ in range(rng.randint(5, 7)):
                    step, octave = rng.choice("CDEFGAB"), rng.randint(2, 6)
                    if (step, octave) in have:
                        continue
                    have.add((step, octave))
                    part.add(S_.Note(step, octave, rng.choice([1, -1, 1, None]), id=f"w{j}_{k_}", voice=base.voice, staff=base.staff,
                                     symbolic_duration=dict(base.symbolic_duration) if base.symbolic_duration else None),
                             base.start.t, base.end.t)
                    wide += 1
                ctx.extra[f"export_{fmt}_parts_with_a_wide_chord"] += 1
        path = os.path.join(tmp, f"x{idx}_{j}" + (".mei" if fmt == "mei" else ".krn"))
        small = {k: meta[k] for k in ("divs", "ts", "notes", "rests", "ties", "graces", "tuplets", "chords", "voices", "staves",
                                      "pickup", "features")}
        small["seed_path"] = ["export", fmt, idx, j]
        small["cross_staff_notes"] = cross
        small["wide_chord_notes"] = wide
        if cross:
            ctx.extra[f"export_{fmt}_parts_with_cross_staff_notes"] += 1
        EXPECT[os.path.abspath(path)] = {"meta": small}
        try:
            ok, _ = ctx.try_call(EM.save_mei if fmt == "mei" else EK.save_kern, part, path)
            if not ok:
                v = ctx.violations[-1] if ctx.violations else None
                if v is not None and v["key"].startswith("raise:") and isinstance(v.get("witness"), dict) \
                        and v["witness"].get("detail") is None:
                    v["witness"]["detail"] = {"part": small}
        finally:
            EXPECT.pop(os.path.abspath(path), None)
            if os.path.exists(path):
                os.unlink(path)
        nt = (meta["voices"] > 1 or meta["staves"] > 1) and (meta["tuplets"] > 0 or any(
            (n.symbolic_duration or {}).get("dots") for n in part.notes))
        ctx.case(["export", fmt, idx, j, core.digest(small)], nt, cls=f"export-{fmt}",
                 sample={"export": fmt, "part": small} if j == 0 else None)
        ctx.state(f"export|{fmt}|{'|'.join(sorted(feats))}")


def run_item(ctx, item):
    import partitura.io as IO
    kind = item[0]
    tmp = tempfile.mkdtemp(prefix="c19-")
    try:
        if kind in ("mei", "kern"):
            run_generated(ctx, kind, item[1], item[2], tmp)
        elif kind in ("xmei", "xkern"):
            run_export(ctx, kind[1:], item[1], tmp)
        elif kind == "dispatch":
            for fmt, ext in (("mei", ".mei"), ("mei", ".MEI"), ("kern", ".krn"), ("kern", ".kern"), ("kern", ".KRN")):
                run_generated(ctx, fmt, f"{item[1]}{ext}", 1, tmp, via_load_score=True, ext=ext)
        elif kind == "fixture":
            # smoke input: hand-made files are outside the quantifier (documents generated from abstract scores of
            # the supported subset), so a reader that rejects one is counted, not judged; what loads is checked for
            # dispatch and coherence by the hooks
            src = os.path.join(FIXTURE_DIR, item[1])
            try:
                ctx.call(IO.load_score, src)
                ctx.extra["fixtures_loaded"] += 1
            except core.PartituraRaised as pr:
                ctx.ambiguous()
                ctx.extra["fixtures_rejected"] += 1
                ctx.extra[f"fixture_rejected:{item[1]}:{type(pr.exc).__name__}@{pr.where}"] += 1
            ctx.case(["fixture", item[1]], False, cls="fixture")
        else:
            raise ValueError(item)
    finally:
        shutil.rmtree(tmp, ignore_errors=True)
