"""Hostile performed-part workloads for C14 (plain JSON-able descriptions).

A *case* is {"notes": [...], "controls": [...], "thresholds": [...], "ppq", "mpq",
"dress": {...}}; notes/controls are plain dicts of Python ints/floats so that a
case can be stored in a witness and replayed by hand.  `dress_notes` turns the
description into what is handed to partitura (numpy scalars, PerformedNote
objects, missing optional keys ...) according to case["dress"].

Domain (property quantifier): 0 <= onset <= release; any pitches incl. repeated
and overlapping notes of one pitch across channels; zero-length notes; unsorted
order; pedal values 0..127 at arbitrary times >= 0, before the first and after
the last note, interleaved with other controllers; thresholds 0..127; any
ppq/mpq.  Every control carries "number", "time", "value" (the format every
producer and consumer inside partitura uses).
"""
from fractions import Fraction

OTHER_CONTROLLERS = [1, 7, 10, 11, 66, 67, 91]
PPQS = [1, 24, 96, 120, 384, 480, 960, 1000]
MPQS = [500000, 250000, 612244, 1000000, 428571]


def _times(rng, mode, span):
    """Returns three samplers of grid indices (onset, release-after(onset), pedal time)."""
    if mode == "lattice":
        # onsets on 4k, releases on 4k+2 (or == onset for zero-length notes), pedal on odd
        # multiples: no pedal event at a release, no onset at a foreign release unless
        # a zero-length note sits there
        def on():
            return 4 * rng.randrange(0, span // 4 + 1)

        def off(o, zero):
            return o if zero else o + 2 + 4 * rng.randrange(0, max(1, span // 8))

        def ped():
            return 2 * rng.randrange(0, span // 2 + 2) + 1
    else:  # "free": everything anywhere on the grid -> coincidences are common
        def on():
            return rng.randrange(0, span + 1)

        def off(o, zero):
            return o if zero else o + rng.randrange(0, max(2, span // 2))

        def ped():
            return rng.randrange(0, span + 3)
    return on, off, ped


def gen_case(rng, profile="small"):
    big = profile == "large"
    time_kind = rng.choice(["float-grid", "float-grid", "float-odd", "int", "ticks", "uniform"])
    mode = "free" if rng.random() < 0.25 else "lattice"
    ppq = rng.choice(PPQS + [rng.randint(1, 2000)])
    mpq = rng.choice(MPQS + [rng.randint(100000, 2000000)])
    n_notes = rng.randint(10, 60) if big else rng.choice([1, 2, 2, 3, 3, 4, 5, 6, 8])
    if rng.random() < 0.03:
        n_notes = 0
    n_ped = rng.randint(0, 50) if big else rng.choice([0, 1, 2, 2, 3, 4, 5, 6, 8])
    n_other = rng.randint(0, 12) if big else rng.choice([0, 0, 1, 2, 4])
    span = rng.choice([16, 24, 40]) * (3 if big else 1)
    unit = None
    if time_kind == "int":
        unit = 1
    elif time_kind == "float-grid":
        unit = rng.choice([0.125, 0.25, 0.5, 0.03125])
    elif time_kind == "float-odd":
        unit = rng.choice([0.1, 0.05, 1 / 3, 0.001, 0.07])
    on_s, off_s, ped_s = _times(rng, mode, span)
    tick_unit = rng.choice([1, 7, 60, 120])

    if time_kind == "uniform":
        def conv(k):
            return k * 0.25 + rng.random() * 0.2
    elif time_kind == "ticks":
        def conv(k):
            return float(Fraction(k * tick_unit * mpq, 10**6 * ppq))
    elif time_kind == "int":
        def conv(k):
            return int(k)
    else:
        def conv(k):
            return k * unit

    pool = rng.sample(range(0, 128), rng.choice([1, 1, 2, 3])) if rng.random() < 0.9 else [0, 127]
    if big:
        pool = rng.sample(range(0, 128), rng.randint(2, 6))
    notes = []
    for i in range(n_notes):
        zero = rng.random() < 0.15
        o = on_s()
        f = off_s(o, zero)
        if time_kind == "uniform":
            a = conv(o)
            b = a if zero else a + rng.random() * 3 + 1e-3
        else:
            a, b = conv(o), conv(f)
        n = {"id": f"n{i}", "midi_pitch": rng.choice(pool), "note_on": a, "note_off": b,
             "velocity": rng.choice([0, 1, 60, 64, 127, rng.randint(0, 127)]),
             "track": rng.randrange(0, 3), "channel": rng.randrange(0, 4)}
        if time_kind == "ticks":
            n["note_on_tick"] = o * tick_unit
            n["note_off_tick"] = f * tick_unit
        notes.append(n)

    focus = rng.choice([0, 1, 63, 64, 65, 126, 127, rng.randint(0, 127)])
    style = rng.choice(["random", "binary", "near", "near", "ramp"])
    controls = []
    if rng.random() < 0.08:
        n_ped = 0
    distinct = rng.random() < 0.7          # mostly distinct pedal times (equal-time events are a don't-care)
    used_k = set()
    for j in range(n_ped):
        if style == "binary":
            v = rng.choice([0, 127])
        elif style == "near":
            v = min(127, max(0, focus + rng.choice([-1, 0, 0, 1, 1, -40, 40])))
        elif style == "ramp":
            v = min(127, max(0, (j * 37) % 160 - 16))
        else:
            v = rng.randint(0, 127)
        k = ped_s()
        if distinct:
            for _ in range(8):
                if k not in used_k:
                    break
                k = ped_s()
            used_k.add(k)
        c = {"number": 64, "time": conv(k), "value": v}
        if rng.random() < 0.5:
            c["track"] = rng.randrange(0, 3)
            c["channel"] = rng.randrange(0, 4)
        controls.append(c)
    if controls and rng.random() < 0.6:
        # the pedal is let go after everything (otherwise "never released" leaves most notes open)
        k_end = 2 * (span + rng.randrange(2, 6)) + 1
        controls.append({"number": 64, "time": conv(k_end), "value": rng.choice([0, 0, focus, max(0, focus - 1), rng.randint(0, 20)])})
    for j in range(n_other):
        k = ped_s() if rng.random() < 0.5 else on_s()
        controls.append({"number": rng.choice(OTHER_CONTROLLERS), "time": conv(k), "value": rng.choice([0, 127, rng.randint(0, 127)]),
                         "track": rng.randrange(0, 3), "channel": rng.randrange(0, 4)})
    order = rng.choice(["sorted", "shuffled", "shuffled", "reversed"])
    if order == "shuffled":
        rng.shuffle(notes)
        rng.shuffle(controls)
    elif order == "reversed":
        notes.sort(key=lambda n: (n["note_on"], n["id"]), reverse=True)
        controls.sort(key=lambda c: c["time"], reverse=True)
    else:
        notes.sort(key=lambda n: n["note_on"])
        controls.sort(key=lambda c: c["time"])

    vals = sorted({c["value"] for c in controls if c["number"] == 64})
    cands = [0, 1, 63, 64, 65, 126, 127, focus]
    for v in vals:
        cands += [v - 1, v, v]
    cands = [min(127, max(0, c)) for c in cands]
    thresholds = [rng.choice(cands) if rng.random() < 0.8 else rng.randint(0, 127)
                  for _ in range(rng.choice([2, 3, 4, 6]))]
    if rng.random() < 0.3:
        thresholds.append(127)
    if rng.random() < 0.3:
        thresholds.append(0)
    dress = {
        "note_type": rng.choice(["dict", "dict", "PerformedNote", "mixed"]),
        "num_type": rng.choice(["py", "py", "np64", "np32"]) if time_kind != "int" else rng.choice(["py", "npint"]),
        "drop_optional": rng.random() < 0.2,       # leave out velocity/track/channel on some notes
        "stale_sound_off": rng.random() < 0.25,    # notes arrive with a sound_off (>= release) from elsewhere
        # given note_on_tick/note_off_tick are only meaningful under the ppq/mpq they were derived with
        "default_ppq_mpq": rng.random() < 0.15 and time_kind != "ticks",
    }
    return {"notes": notes, "controls": controls, "thresholds": thresholds, "ppq": ppq, "mpq": mpq,
            "dress": dress, "kind": f"{time_kind}/{mode}/{order}/{style}"}


def dress_notes(case, PerformedNote):
    """Objects handed to PerformedPart for a case (fresh on every call)."""
    import numpy as np
    d = case["dress"]
    out = []
    for i, n in enumerate(case["notes"]):
        m = dict(n)
        if d["num_type"] == "np64":
            m["note_on"], m["note_off"] = np.float64(m["note_on"]), np.float64(m["note_off"])
        elif d["num_type"] == "np32":
            m["note_on"], m["note_off"] = np.float32(m["note_on"]), np.float32(m["note_off"])
        elif d["num_type"] == "npint":
            m["note_on"], m["note_off"] = np.int64(m["note_on"]), np.int64(m["note_off"])
        if d["drop_optional"] and i % 2 == 0:
            for k in ("velocity", "track", "channel"):
                m.pop(k, None)
        if d["stale_sound_off"] and i % 3 != 1:
            m["sound_off"] = m["note_off"] + (i % 4)
        if d["note_type"] == "PerformedNote" or (d["note_type"] == "mixed" and i % 2):
            m = PerformedNote(m)
        out.append(m)
    return out


def normalise_case(case):
    """float32 dressing: make the stored times exactly representable in float32 so the
    witness describes the numbers partitura really received."""
    import numpy as np
    if case["dress"]["num_type"] == "np32":
        for n in case["notes"]:
            a, b = float(np.float32(n["note_on"])), float(np.float32(n["note_off"]))
            n["note_on"], n["note_off"] = a, max(a, b)
    return case


def gen_performance(rng):
    """1-4 parts with clashing track numbers on notes, controls and programs."""
    parts = []
    for p in range(rng.randint(1, 4)):
        trs = rng.sample(range(0, 6), rng.randint(1, 3))
        notes = []
        t = 0.0
        for i in range(rng.randint(0, 6)):
            t += rng.choice([0.0, 0.25, 0.5])
            n = {"id": f"p{p}n{i}", "midi_pitch": rng.randint(0, 127), "note_on": t, "note_off": t + rng.choice([0.0, 0.5, 1.0]),
                 "velocity": rng.randint(0, 127), "channel": rng.randrange(0, 16)}
            if rng.random() < 0.85:
                n["track"] = rng.choice(trs)
            notes.append(n)
        controls = []
        for i in range(rng.randint(0, 4)):
            c = {"number": rng.choice([64, 67, 7]), "time": rng.randint(0, 8) * 0.5 + 0.125, "value": rng.randint(0, 127)}
            if rng.random() < 0.8:
                c["track"] = rng.choice(trs + [rng.randrange(0, 6)])
            controls.append(c)
        programs = []
        for i in range(rng.randint(0, 2)):
            pr = {"time": 0.0, "program": rng.randint(0, 127), "channel": rng.randrange(0, 16)}
            if rng.random() < 0.8:
                pr["track"] = rng.choice(trs + [rng.randrange(0, 6)])
            programs.append(pr)
        parts.append({"notes": notes, "controls": controls, "programs": programs,
                      "threshold": rng.choice([0, 64, 127, rng.randint(0, 127)])})
    return parts
