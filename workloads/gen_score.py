"""Seeded generator of scores, built through partitura's public score API only.

make_part(rng, ...)  -> (Part, meta)
make_score(rng, ...) -> Score          (score.meta holds the per-part metas)

The generator works measure by measure.  All durations are chosen as *notated*
values (type, dots, tuplet ratio) whose numeric length is an exact integer
under the divisions in force, so that every generated note has an exact
symbolic duration.  Pitch bands are disjoint per (part, voice) so that no two
notes of equal pitch ever overlap inside a part (domain of C03/C04).

Feature switches (all off => a plain monophonic part):
  chords ties graces tuplets rests multivoice multistaff slurs directions
  clefs keys pickup ts_changes div_changes underfull unequal_chords
"""
from fractions import Fraction

TYPES = [("whole", Fraction(4)), ("half", Fraction(2)), ("quarter", Fraction(1)), ("eighth", Fraction(1, 2)),
         ("16th", Fraction(1, 4)), ("32nd", Fraction(1, 8))]
DOTF = [Fraction(1), Fraction(3, 2), Fraction(7, 4)]
TUPLETS = [(3, 2), (5, 4), (7, 4), (6, 4)]
ALL_FEATURES = ("chords", "ties", "graces", "tuplets", "rests", "multivoice", "multistaff", "slurs", "directions",
                "clefs", "keys", "pickup", "ts_changes", "div_changes", "fermata", "articulations")
METERS = [(4, 4), (3, 4), (2, 4), (6, 8), (9, 8), (12, 8), (5, 8), (7, 8), (3, 2), (2, 2), (5, 4), (3, 8)]
DIVS_POOL = [1, 2, 3, 4, 5, 6, 7, 8, 12, 16, 24, 480, 960]
NATURAL = {"C": 0, "D": 2, "E": 4, "F": 5, "G": 7, "A": 9, "B": 11}


def spell(rng, midi, max_alter=1):
    """A random spelling of a MIDI pitch with |alter| <= max_alter."""
    cands = []
    for step, pc in NATURAL.items():
        for alter in range(-max_alter, max_alter + 1):
            if (pc + alter) % 12 == midi % 12:
                octave = (midi - pc - alter) // 12 - 1
                cands.append((step, alter, octave))
    return rng.choice(cands)


def straight_durations(q):
    """{numeric duration: {'type','dots'}} for notated values that are integers under divisions q."""
    out = {}
    for name, v in TYPES:
        for dots, f in enumerate(DOTF):
            d = v * f * q
            if d.denominator == 1 and d > 0 and int(d) not in out:
                out[int(d)] = {"type": name, "dots": dots}
    return out


def tuplet_groups(q):
    """[(total length, n notes, each length, symbolic)] for tuplets exact under divisions q."""
    out = []
    for name, v in TYPES[1:]:
        for a, n in TUPLETS:
            total = v * n * q
            each = total / a
            if total.denominator == 1 and each.denominator == 1 and each > 0:
                out.append((int(total), a, int(each), {"type": name, "dots": 0, "actual_notes": a, "normal_notes": n}))
    return out


class PartBuilder:
    def __init__(self, rng, pid, features, *, divs=None, n_measures=None, voice_base=0, max_alter=1,
                 meters=None, staves=None, voices=None, part_name=None, skeleton=None, band_base=0):
        import partitura.score as S
        self.S = S
        self.rng = rng
        self.f = set(features)
        self.pid = pid
        self.max_alter = max_alter
        self.voice_base = voice_base
        self.band_base = band_base       # shifts the pitch bands (not the voice numbers): disjoint pitches across parts
        self.meters = meters or METERS
        self.skeleton = skeleton       # [(ts, length in quarters)] per measure: follow another part's bar structure
        rng_ = rng
        self.divs0 = divs if divs is not None else rng_.choice(DIVS_POOL)
        self.n_measures = len(skeleton) if skeleton else (n_measures or rng_.randint(2, 7))
        self.n_staves = staves or (rng_.choice([1, 2, 2, 3]) if "multistaff" in self.f else 1)
        self.n_voices = voices or (rng_.randint(2, 4) if "multivoice" in self.f else 1)
        self.part = S.Part(pid, part_name if part_name is not None else f"Part {pid}", quarter_duration=self.divs0)
        self.meta = {"id": pid, "divs": [], "ts": [], "ties": 0, "graces": 0, "tuplets": 0, "chords": 0, "notes": 0,
                     "rests": 0, "pickup": 0, "measures": [], "slurs": 0, "directions": 0, "keys": 0, "clefs": 0,
                     "voices": self.n_voices, "staves": self.n_staves, "features": sorted(self.f), "skeleton": []}
        self.nid = 0
        self.pending_tie = {}      # voice -> list of notes to be continued in the next measure
        self.all_notes = []

    # ------------------------------------------------------------------
    def new_id(self, prefix="n"):
        self.nid += 1
        return f"{self.pid}{prefix}{self.nid}"

    def compatible_meters(self, q):
        return [(b, bt) for b, bt in self.meters if (4 * q * b) % bt == 0 and self.bar_ok(q, b, bt)]

    @staticmethod
    def bar_ok(q, b, bt):
        # the bar must be fillable with straight values: its length is a multiple of the smallest straight value
        bar = Fraction(4 * q * b, bt)
        u = min(straight_durations(q))
        return bar.denominator == 1 and int(bar) % u == 0

    def build(self):
        S, rng, part = self.S, self.rng, self.part
        q = self.divs0
        meters = self.compatible_meters(q)
        if not meters:
            meters = [(4, 4)]
        ts = self.skeleton[0][0] if self.skeleton else rng.choice(meters)
        t = 0
        part.add(S.TimeSignature(*ts), 0)
        self.meta["ts"].append((0, ts))
        self.meta["divs"].append((0, q))
        if "keys" in self.f or rng.random() < 0.5:
            ks = (rng.randint(-7, 7), rng.choice(["major", "minor", None]))
            part.add(S.KeySignature(*ks), 0)
            self.meta["keys"] += 1
        for st in range(1, self.n_staves + 1):
            if "clefs" in self.f or rng.random() < 0.7:
                sign, line = rng.choice([("G", 2), ("F", 4), ("C", 3), ("C", 4)])
                part.add(S.Clef(staff=st, sign=sign, line=line, octave_change=rng.choice([0, 0, 0, -1, 1])), 0)
                self.meta["clefs"] += 1
        number = 0
        for mi in range(self.n_measures):
            # signature / divisions changes at barlines (never in the pickup)
            if mi > 0 and self.skeleton:
                if self.skeleton[mi][0] != ts:
                    ts = self.skeleton[mi][0]
                    part.add(S.TimeSignature(*ts), t)
                    self.meta["ts"].append((t, ts))
            elif mi > 0:
                if "div_changes" in self.f and rng.random() < 0.3:
                    cands = [d for d in DIVS_POOL if d != q and (4 * d * ts[0]) % ts[1] == 0 and self.bar_ok(d, *ts)]
                    if cands:
                        q = rng.choice(cands)
                        part.set_quarter_duration(t, q)
                        self.meta["divs"].append((t, q))
                if "ts_changes" in self.f and rng.random() < 0.3:
                    cands = [m for m in self.compatible_meters(q) if m != ts]
                    if cands:
                        ts = rng.choice(cands)
                        part.add(S.TimeSignature(*ts), t)
                        self.meta["ts"].append((t, ts))
                if "keys" in self.f and rng.random() < 0.2:
                    part.add(S.KeySignature(rng.randint(-7, 7), rng.choice(["major", "minor", None])), t)
                    self.meta["keys"] += 1
                if "clefs" in self.f and rng.random() < 0.2:
                    part.add(S.Clef(staff=rng.randint(1, self.n_staves), sign=rng.choice(["G", "F"]),
                                    line=rng.choice([2, 4]), octave_change=0), t)
                    self.meta["clefs"] += 1
            bar = 4 * q * ts[0] // ts[1]
            length = bar
            if self.skeleton:
                length = int(self.skeleton[mi][1] * q)
                if mi == 0 and length < bar:
                    self.meta["pickup"] = length
            elif mi == 0 and "pickup" in self.f:
                u = min(straight_durations(q))
                k = rng.randint(1, max(1, bar // u - 1))
                if k * u < bar:
                    length = k * u
                    self.meta["pickup"] = length
            number += 1
            m = S.Measure(number=number, name=str(number))
            part.add(m, t, t + length)
            self.meta["measures"].append((t, t + length, number))
            self.meta["skeleton"].append((ts, Fraction(length, q)))
            self.fill_measure(t, length, q, last=(mi == self.n_measures - 1))
            t += length
        self.end = t
        self.add_spanning()
        return part, self.meta

    # ------------------------------------------------------------------
    def voice_staff(self, v):
        if self.n_staves == 1:
            return 1
        return min(self.n_staves, 1 + (v - 1) * self.n_staves // self.n_voices)

    def band(self, v):
        k = self.voice_base + self.band_base + (v - 1)
        lo = 30 + 6 * (k % 15)
        return lo, lo + 5

    def fill_measure(self, t0, length, q, last):
        rng = self.rng
        straight = straight_durations(q)
        groups = tuplet_groups(q) if "tuplets" in self.f else []
        u = min(straight)
        for v in range(1, self.n_voices + 1):
            if v > 1 and v not in self.pending_tie and rng.random() < 0.3:
                continue                       # this voice is silent in this measure
            pos = 0
            first = True
            while pos < length:
                rem = length - pos
                if groups and rng.random() < 0.25:
                    g = [g for g in groups if g[0] <= rem and (rem - g[0]) % u == 0]
                    if g and not (first and v in self.pending_tie):
                        total, a, each, sym = rng.choice(g)
                        self.add_tuplet_group(t0 + pos, a, each, sym, v)
                        pos += total
                        first = False
                        continue
                cands = [d for d in straight if d <= rem and (rem - d) % u == 0]
                d = rng.choice(cands)
                tie_out = ("ties" in self.f and not last and pos + d == length and rng.random() < 0.5)
                self.add_slot(t0 + pos, d, dict(straight[d]), v, first, tie_out)
                pos += d
                first = False

    def add_slot(self, t, d, sym, v, first_in_measure, tie_out):
        S, rng, part = self.S, self.rng, self.part
        staff = self.voice_staff(v)
        tied_in = self.pending_tie.pop(v, None) if first_in_measure else None
        if tied_in is None and "rests" in self.f and rng.random() < 0.2:
            r = S.Rest(id=self.new_id("r"), voice=v + self.voice_base, staff=staff, symbolic_duration=sym)
            part.add(r, t, t + d)
            self.meta["rests"] += 1
            return
        lo, hi = self.band(v)
        if tied_in is not None:
            pitches = [(n.step, n.alter, n.octave) for n in tied_in]
        else:
            k = rng.choice([2, 3]) if ("chords" in self.f and rng.random() < 0.3) else 1
            midis = rng.sample(range(lo, hi + 1), k)
            pitches = [spell(rng, m, self.max_alter) for m in sorted(midis)]
        if tied_in is None and "graces" in self.f and rng.random() < 0.15:
            self.add_graces(t, v, staff, lo, hi, exclude={NATURAL[s_] + (a_ or 0) + 12 * (o_ + 1) for s_, a_, o_ in pitches})
        notes = []
        for step, alter, octave in pitches:
            n = S.Note(step=step, octave=octave, alter=alter if alter != 0 or rng.random() < 0.5 else None,
                       id=self.new_id(), voice=v + self.voice_base, staff=staff, symbolic_duration=dict(sym))
            if "articulations" in self.f and rng.random() < 0.15:
                # one mark, or several on one note (they are not mutually exclusive)
                # (in any order: a list is a list)
                n.articulations = rng.sample(["staccato", "accent", "tenuto", "strong-accent", "staccatissimo"], rng.choice([1, 1, 2, 3]))
            part.add(n, t, t + d)
            notes.append(n)
            self.all_notes.append(n)
        self.meta["notes"] += len(notes)
        if len(notes) > 1:
            self.meta["chords"] += 1
        if tied_in is not None:
            for a, b in zip(tied_in, notes):
                a.tie_next = b
                b.tie_prev = a
                self.meta["ties"] += 1
        if self.grace_main is not None and self.grace_main[0] == (t, v):
            self.grace_main[1].grace_next = notes[0]
        self.grace_main = None
        if tie_out:
            self.pending_tie[v] = notes
        if "fermata" in self.f and rng.random() < 0.05:
            fm = S.Fermata(notes[0])
            notes[0].fermata = fm
            part.add(fm, t)

    grace_main = None

    def add_graces(self, t, v, staff, lo, hi, exclude=()):
        S, rng, part = self.S, self.rng, self.part
        # grace pitches differ from each other and from the notes they precede (no equal pitches sounding at once)
        free = [m for m in range(lo, hi + 1) if m not in exclude]
        k = min(rng.choice([1, 1, 2, 3]), len(free))
        chosen = rng.sample(free, k)
        prev = None
        gtype = rng.choice(["acciaccatura", "appoggiatura", "grace"])
        for i in range(k):
            step, alter, octave = spell(rng, chosen[i], self.max_alter)
            g = S.GraceNote(gtype, step, octave, alter, id=self.new_id("g"), voice=v + self.voice_base, staff=staff,
                            symbolic_duration={"type": "eighth", "dots": 0})
            part.add(g, t, t)
            if prev is not None:
                prev.grace_next = g
                g.grace_prev = prev
            prev = g
            self.meta["graces"] += 1
            self.all_notes.append(g)
        self.grace_main = ((t, v), prev)

    def add_tuplet_group(self, t, a, each, sym, v):
        S, rng, part = self.S, self.rng, self.part
        staff = self.voice_staff(v)
        lo, hi = self.band(v)
        notes = []
        for i in range(a):
            step, alter, octave = spell(rng, rng.randint(lo, hi), self.max_alter)
            n = S.Note(step=step, octave=octave, alter=alter, id=self.new_id(), voice=v + self.voice_base, staff=staff,
                       symbolic_duration=dict(sym))
            part.add(n, t + i * each, t + (i + 1) * each)
            notes.append(n)
            self.all_notes.append(n)
        tup = S.Tuplet(notes[0], notes[-1], actual_notes=sym["actual_notes"], normal_notes=sym["normal_notes"],
                       actual_type=sym["type"], normal_type=sym["type"])
        part.add(tup, t, t + a * each)
        self.meta["tuplets"] += 1
        self.meta["notes"] += a

    def add_spanning(self):
        S, rng, part = self.S, self.rng, self.part
        plain = [n for n in self.all_notes if not isinstance(n, S.GraceNote)]
        if "slurs" in self.f and len(plain) >= 2:
            for _ in range(rng.randint(1, 3)):
                v = rng.choice(plain).voice
                cand = sorted([n for n in plain if n.voice == v], key=lambda n: n.start.t)
                if len(cand) < 2:
                    continue
                i = rng.randrange(len(cand) - 1)
                j = rng.randrange(i + 1, min(len(cand), i + 6))
                if cand[j].start.t <= cand[i].start.t:
                    continue
                sl = S.Slur(cand[i], cand[j])
                part.add(sl, cand[i].start.t, cand[j].end.t)
                self.meta["slurs"] += 1
        if "directions" in self.f:
            starts = sorted({n.start.t for n in plain}) or [0]
            for _ in range(rng.randint(1, 4)):
                t = rng.choice(starts)
                kind = rng.choice(["dyn", "tempo", "words", "wedge"])
                if kind == "dyn":
                    # as the MusicXML importer builds them: class from its dynamics table, text = the tag
                    from partitura.io.importmusicxml import DYN_DIRECTIONS
                    tag = rng.choice(["p", "f", "mf", "pp", "ff", "sf", "fp"])
                    d = DYN_DIRECTIONS.get(tag, S.Words)(tag, staff=None)
                    part.add(d, t)
                elif kind == "tempo":
                    used_t = getattr(self, "_tempo_times", None)
                    if used_t is None:
                        used_t = self._tempo_times = set()
                    if t not in used_t:          # one tempo indication per position
                        used_t.add(t)
                        # (in quarters, or in another unit whose quarter value is not a whole number: 63 eighths are 31.5 quarters)
                        bpm_, unit_ = rng.choice([(60, "q"), (72, "q"), (90, "q"), (120, "q"), (63, "e"), (45, "e"), (50, "h")])
                        part.add(S.Tempo(bpm_, unit_), t)
                elif kind == "words":
                    # text directions lie in the image of the importer's direction parser
                    from partitura.directions import parse_direction
                    for d in parse_direction(rng.choice(["dolce", "espressivo", "Allegro", "rit.", "cresc.", "a tempo", "legato", "xyzzy"])):
                        part.add(d, t)
                else:
                    # hairpins do not overlap each other (one at a time, as on a staff)
                    spans = getattr(self, "_wedge_spans", None)
                    if spans is None:
                        spans = self._wedge_spans = []
                    later = [s for s in starts if s > t][:4]
                    e_ = rng.choice(later) if later else None
                    if later and all(e_ <= a or t >= b for a, b in spans):
                        cls = rng.choice([S.IncreasingLoudnessDirection, S.DecreasingLoudnessDirection])
                        part.add(cls("crescendo" if cls is S.IncreasingLoudnessDirection else "diminuendo", wedge=True), t, e_)
                        spans.append((t, e_))
                self.meta["directions"] += 1


PROFILES = {
    "plain": (),
    "basic": ("chords", "rests", "ties", "pickup"),
    "pitchy": ("chords", "ties", "graces", "rests", "multivoice"),
    "rhythm": ("chords", "ties", "graces", "rests", "tuplets", "pickup", "ts_changes", "multivoice"),
    "full": ALL_FEATURES,
}


def pick_features(rng, profile):
    base = PROFILES[profile]
    if profile == "full":
        return [f for f in base if rng.random() < 0.6]
    return [f for f in base if rng.random() < 0.8]


def make_part(rng, pid="P1", profile="rhythm", features=None, **kw):
    feats = pick_features(rng, profile) if features is None else features
    max_alter = 2 if profile == "pitchy" else 1
    b = PartBuilder(rng, pid, feats, max_alter=kw.pop("max_alter", max_alter), **kw)
    return b.build()


def skeleton_divs(skeleton, pool=DIVS_POOL):
    """divisions under which every measure of the skeleton has an integer, fillable length"""
    out = []
    for q in pool:
        ok = True
        for ts, lq in skeleton:
            L = lq * q
            if L.denominator != 1 or (4 * q * ts[0]) % ts[1] or int(L) % min(straight_durations(q)):
                ok = False
                break
        if ok:
            out.append(q)
    return out


def make_score(rng, profile="rhythm", n_parts=None, features=None, groups=False, aligned=True, divs_list=None, **kw):
    """aligned=True: all parts share the first part's bar structure (meters, pickup), as parts of one score do."""
    import partitura.score as S
    n = n_parts or rng.choice([1, 1, 2, 3])
    parts, metas = [], []
    skeleton = None
    for i in range(n):
        k = dict(kw)
        if divs_list is not None:
            k["divs"] = divs_list[i]
        if skeleton is not None:
            feats = [f for f in (pick_features(rng, profile) if features is None else features) if f not in ("div_changes", "ts_changes", "pickup")]
            if "divs" not in k:
                k["divs"] = rng.choice(skeleton_divs(skeleton) or [metas[0]["divs"][0][1]])
            p, meta = make_part(rng, f"P{i + 1}", profile, feats, skeleton=skeleton, **k)
        else:
            feats = features
            if aligned and n > 1:
                feats = [f for f in (pick_features(rng, profile) if features is None else features) if f != "div_changes"]
            p, meta = make_part(rng, f"P{i + 1}", profile, feats, **k)
            if aligned:
                skeleton = meta["skeleton"]
        parts.append(p)
        metas.append(meta)
    structure = parts
    if groups and n >= 2:
        def group(name, children, number):
            g_ = S.PartGroup(group_symbol=rng.choice(["brace", "bracket"]), group_name=name, number=number)
            g_.children = list(children)
            for c_ in children:
                c_.parent = g_
            return g_
        shape = rng.choice(["flat", "flat", "inner-first", "inner-last", "two-inner"]) if n >= 3 else "flat"
        if shape == "flat":
            structure = [group("grp", parts[:2], 1)] + parts[2:]
        elif shape == "inner-first":          # Outer[Inner[P1, P2], P3]: the outer group goes on after the inner one has ended
            structure = [group("outer", [group("inner", parts[:2], 2), parts[2]], 1)] + parts[3:]
        elif shape == "inner-last":           # Outer[P1, Inner[P2, P3]]
            structure = [group("outer", [parts[0], group("inner", parts[1:3], 2)], 1)] + parts[3:]
        else:                                 # Outer[In1[P1], In2[P2, P3]]
            structure = [group("outer", [group("in1", parts[:1], 2), group("in2", parts[1:3], 3)], 1)] + parts[3:]
    sc = S.Score(structure, id="generated")
    sc.meta = metas
    return sc


def make_midmeasure_divchange_part(rng, late=None):
    """A configuration make_part does not produce: the divisions change INSIDE a measure, at a position where an object
    starts, inside a note, or in a silent stretch where the timeline has no time point at all.  With late=True the
    change is set after all the content is on the timeline (as an editing session would do it).
    Returns (part, q, f, where, change, n_before)."""
    import partitura.score as S
    q = rng.choice([2, 4, 6])
    f = rng.choice([2, 3])
    where = rng.choice(["at-onset", "inside-note", "silent"])
    part = S.Part("P1", "divchange", quarter_duration=q)
    part.add(S.TimeSignature(4, 4), 0)
    part.add(S.Clef(1, "G", 2, 0), 0)
    n_before = rng.randint(0, 2)
    t = 0
    k = 0
    for m in range(n_before):
        part.add(S.Measure(number=m + 1), t, t + 4 * q)
        for j in range(4):
            part.add(S.Note(rng.choice("CDEFGAB"), 4, id=f"n{k}", voice=1, staff=1, symbolic_duration={"type": "quarter"}), t + j * q, t + (j + 1) * q)
            k += 1
        t += 4 * q
    # the measure with the change: one quarter note, one quarter of silence or a half note, then two quarters in the new divisions
    m_start = t
    if late and where == "at-onset":
        # editing order: barlines and a dynamic mark are on the timeline first, then the divisions are set at a position
        # where nothing stands yet, then the notes are entered
        change = t + 2 * q
        m_end = change + 2 * q * f
        part.add(S.Measure(number=n_before + 1), m_start, m_end)
        follow = rng.random() < 0.6
        if follow:
            # (the barlines of the next measure are part of the skeleton too)
            part.add(S.Measure(number=n_before + 2), m_end, m_end + 4 * q * f)
        from partitura.io.importmusicxml import DYN_DIRECTIONS
        part.add(DYN_DIRECTIONS["f"]("f", staff=None), change + q * f)
        part.set_quarter_duration(change, q * f)
        if follow:
            part.add(S.Note("C", 5, id="nf", voice=1, staff=1, symbolic_duration={"type": "whole"}), m_end, m_end + 4 * q * f)
        part.add(S.Note("G", 4, id=f"n{k}", voice=1, staff=1, symbolic_duration={"type": "half"}), t, t + 2 * q)
        k += 1
        for j in range(2):
            part.add(S.Note(rng.choice("CDEFGAB"), 4, id=f"n{k}", voice=1, staff=1, symbolic_duration={"type": "quarter"}),
                     change + j * q * f, change + (j + 1) * q * f)
            k += 1
        part.add(S.Note("C", 3, id=f"n{k}", voice=2, staff=1, symbolic_duration={"type": "half"}), t, t + 2 * q)
        k += 1
        part.add(S.Note("D", 3, id=f"n{k}", voice=2, staff=1, symbolic_duration={"type": "half"}), change, m_end)
        return part, q, f, "at-onset-set-before-notes", change, n_before
    # at-onset: the first voice may reach the change exactly (a half note) or leave a quarter of silence before it
    long_first = where == "inside-note" or (where == "at-onset" and rng.random() < 0.6)
    part.add(S.Note("G", 4, id=f"n{k}", voice=1, staff=1, symbolic_duration={"type": "half" if long_first else "quarter"}),
             t, t + (2 * q if long_first else q))
    k += 1
    if where == "at-onset":
        change = t + 2 * q
    else:
        cands = [x for x in range(t + q + 1, t + 2 * q)] or [t + q]
        change = rng.choice(cands)
    rest_old = t + 2 * q - change                 # old divisions left of the second quarter
    new_t = change + rest_old * f                  # where the third quarter starts
    for j in range(2):
        part.add(S.Note(rng.choice("CDEFGAB"), 4, id=f"n{k}", voice=1, staff=1, symbolic_duration={"type": "quarter"}),
                 new_t + j * q * f, new_t + (j + 1) * q * f)
        k += 1
    m_end = new_t + 2 * q * f
    part.add(S.Measure(number=n_before + 1), m_start, m_end)
    r_ = rng.random()
    if r_ < 0.3:
        # a second voice holding one note through the whole measure (it crosses the change)
        part.add(S.Note("C", 3, id=f"n{k}", voice=2, staff=1, symbolic_duration={"type": "whole"}), m_start, m_end)
        k += 1
    elif r_ < 0.8:
        # a second voice that stops before the change (it is written last: the stretch ends with the cursor short of its end)
        part.add(S.Note("C", 3, id=f"n{k}", voice=2, staff=1, symbolic_duration={"type": "quarter"}), m_start, m_start + q)
        k += 1
    part.set_quarter_duration(change, q * f)
    if rng.random() < 0.5:
        part.add(S.Measure(number=n_before + 2), m_end, m_end + 4 * q * f)
        part.add(S.Note("C", 5, id=f"n{k}", voice=1, staff=1, symbolic_duration={"type": "whole"}), m_end, m_end + 4 * q * f)
    return part, q, f, where, change, n_before
