"""Render an abstract score (refmodels/notation.py) as a Humdrum **kern document.

One spine per staff, lowest staff in the first column (Humdrum convention).  A
measure whose staff has two layers is written with the spine split (`*^` after
the barline, `*v *v` after the barline that ends the split).  Reciprocal
rhythm values: 4/quarters of the undotted value; an integer is written as is,
anything else as the rational `n%m` (= m/n whole notes).  Nothing of partitura
is used.

Options `o`:
  staff     bool      write *staffN
  clef/key/meter  bool  write the tandem interpretations (always True in the judged subset)
  first_bar bool      write `=<name>` before the first full measure (no-pickup documents)
  final     "==" | "=" | None    closing barline
  natural   bool      write `n` for alter 0 (else nothing)
  keyname   bool      write a key designation (*G:) after the signature
  refrec    bool      reference records (!!!COM: ...) at top and bottom
  tie_pos   "humdrum" | "suffix"   `[` before the rhythm (standard) or after the pitch
"""
from fractions import Fraction as F

from . import notation as N
from . import pitch as P

SHARPS = ["f#", "c#", "g#", "d#", "a#", "e#", "b#"]
FLATS = ["b-", "e-", "a-", "d-", "g-", "c-", "f-"]


def recip(ev):
    """Reciprocal rhythm text of the undotted (tuplet-scaled) value + dots."""
    v = P.TYPES[ev["t"]]
    if ev.get("tu"):
        a, n = ev["tu"]
        v = v * F(n, a)
    r = F(4) / v
    if v == 8:
        txt = "0"
    elif v == 16:
        txt = "00"
    elif r.denominator == 1:
        txt = str(r.numerator)
    else:
        txt = f"{r.numerator}%{r.denominator}"
    return txt + "." * ev.get("d", 0)


def is_rational(ev):
    return "%" in recip(ev)


def pitch_text(step, alter, octave, natural):
    if octave >= 4:
        s = step.lower() * (octave - 3)
    else:
        s = step.upper() * (4 - octave)
    if alter is None or (alter == 0 and not natural):
        return s
    return s + {0: "n", 1: "#", 2: "##", -1: "-", -2: "--"}[alter]


def keysig_text(fifths):
    acc = SHARPS[:fifths] if fifths > 0 else FLATS[:-fifths] if fifths < 0 else []
    return "*k[" + "".join(acc) + "]"


def keyname_text(fifths, mode):
    step, alter = P.key_tonic(fifths, mode or "major")
    s = step.lower() if mode == "minor" else step
    return "*" + s + ("#" * alter if alter > 0 else "-" * (-alter)) + ":"


def token(ev, tie_state, o):
    """tie_state: per pitch index 'start' | 'cont' | 'end' | None."""
    k = ev["k"]
    r = recip(ev)
    if k in ("r", "m", "s"):
        return r + "r"
    subs = []
    for pi, p in enumerate(ev["p"]):
        ts = tie_state.get(pi)
        body = r + pitch_text(p[0], p[1], p[2], o.get("natural")) + ("q" if k == "g" else "")
        if ts == "start":
            body = "[" + body if o.get("tie_pos", "humdrum") == "humdrum" else body + "["
        elif ts == "cont":
            body = body + "_"
        elif ts == "end":
            body = body + "]"
        subs.append(body)
    return " ".join(subs)


def render(A, o):
    den = N.denote(A)
    # tie markers from the denotation
    tie_mark = {}
    for sn, d in den.items():
        for note in d["notes"]:
            if note["tie_prev"] is not None and note["tie_next"] is not None:
                tie_mark[note["id"]] = "cont"
            elif note["tie_next"] is not None:
                tie_mark[note["id"]] = "start"
            elif note["tie_prev"] is not None:
                tie_mark[note["id"]] = "end"
    staves = list(reversed(A["staves"]))           # first column = lowest staff
    width = {st["n"]: 1 for st in staves}

    def row(fn):
        cells = []
        for st in staves:
            for c in range(width[st["n"]]):
                cells.append(fn(st, c))
        return "\t".join(cells)

    lines = []
    if o.get("refrec"):
        lines.append("!!!COM: Generated")
        lines.append("!!!OTL: abstract score")
    lines.append(row(lambda st, c: "**kern"))
    if o.get("staff", True):
        lines.append(row(lambda st, c: f"*staff{st['n']}"))
    lines.append(row(lambda st, c: f"*clef{st['clef'][0]}{st['clef'][1]}"))
    lines.append(row(lambda st, c: keysig_text(A["key"][0])))
    if o.get("keyname"):
        lines.append(row(lambda st, c: keyname_text(*A["key"])))
    lines.append(row(lambda st, c: f"*M{A['meter'][0]}/{A['meter'][1]}"))
    meter = tuple(A["meter"])
    pos = F(0)
    for mi, M in enumerate(A["measures"]):
        # barline that opens this measure
        pickup = bool(M.get("pickup"))
        if mi == 0:
            if not pickup and o.get("first_bar", True):
                lines.append(row(lambda st, c: f"={M.get('name') or ''}"))
        else:
            lines.append(row(lambda st, c: f"={M.get('name') or ''}"))
        # spine structure changes
        for st in staves:
            want = len(M["staves"][str(st["n"])])
            have = width[st["n"]]
            if want == 2 and have == 1:
                lines.append(row(lambda s2, c: "*^" if s2 is st else "*"))
                width[st["n"]] = 2
            elif want == 1 and have == 2:
                lines.append(row(lambda s2, c: "*v" if s2 is st else "*"))
                width[st["n"]] = 1
        if M.get("meter"):
            meter = tuple(M["meter"])
            lines.append(row(lambda st, c: f"*M{meter[0]}/{meter[1]}"))
        if M.get("key"):
            lines.append(row(lambda st, c: keysig_text(M["key"][0])))
            if o.get("keyname"):
                lines.append(row(lambda st, c: keyname_text(*M["key"])))
        if M.get("clef"):
            lines.append(row(lambda st, c: f"*clef{M['clef'][str(st['n'])][0]}{M['clef'][str(st['n'])][1]}"
                             if str(st["n"]) in M["clef"] else "*"))
        # data rows: (onset, grace order) -> {(staff, column): token}
        rows = {}
        for st in staves:
            for ci, layer in enumerate(M["staves"][str(st["n"])]):
                t = pos
                gcount = 0
                for ev in layer["ev"]:
                    if ev["k"] == "g":
                        key = (t, 0, gcount, st["n"], ci)       # grace rows precede the row of the onset
                        gcount += 1
                        ts = {0: tie_mark.get(ev["id"])}
                        rows.setdefault(key, {})[(st["n"], ci)] = token(ev, ts, o)
                        continue
                    gcount = 0
                    if ev["k"] == "c":
                        ts = {pi: tie_mark.get(f"{ev['id']}n{pi}") for pi in range(len(ev["p"]))}
                    else:
                        ts = {0: tie_mark.get(ev["id"])}
                    ev2 = ev
                    if ev["k"] == "m":
                        raise ValueError("measure rests are written as rests in kern abstract scores")
                    rows.setdefault((t, 1, 0, 0, 0), {})[(st["n"], ci)] = token(ev2, ts, o)
                    t += N.value(ev)
        for key in sorted(rows):
            cells = rows[key]
            lines.append(row(lambda st, c: cells.get((st["n"], c), ".")))
        pos = den[A["staves"][0]["n"]]["measures"][mi][1]
    if o.get("final"):
        lines.append(row(lambda st, c: o["final"]))
    lines.append(row(lambda st, c: "*-"))
    if o.get("refrec"):
        lines.append("!!!ENC: verif")
    return "\n".join(lines) + "\n"
