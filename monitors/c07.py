"""C07 — match-file lines survive format/parse round trips in every version.

Online contracts on the real code:

* `matchline` (property of every MatchLine class, v0 and v1): every text a line
  object produces is parsed again — through the class's own `from_matchline`
  and, for top-level kinds, through `importmatch.parse_matchline` with the
  version's ordered method list — and the result must be of the same class,
  have equal fields (only demanded for values the format of that version can
  denote: floats on the decimal grid of the field) and format to the identical
  text (fixpoint after one round).
* `to_v1` and every `from_instance`: kind and musical content (pitch, times,
  velocity, pedal values, anchors, key / time signature) before vs after.
* `FractionalSymbolicDuration.from_string` / `__add__`, `MatchKeySignature.from_string`,
  `MatchTimeSignature.from_string`: result against an independent reading of
  the text / exact rational sum (vmon/refmodels/matchline.py).

The driver builds line objects through the public constructors for every kind
x version (workloads/gen_match.py), re-emits the fixture files, and writes /
loads small generated files.
"""
import math
import os
import sys
import tempfile
from fractions import Fraction

from vmon import core
from vmon.refmodels import matchline as R
from vmon.refmodels import pitch as P

PROP = "C07"
RULE = ("line objects built through the public constructors for every line kind x format version {0.1.0..0.5.0, 1.0.0} "
        "(info/scoreprop/meta by attribute, section, stime/ptime, snote, note, pairs, deletion+variants, "
        "insertion+variants, ornament/trill, sustain/soft) with seeded field values: identifiers without separators, "
        "steps x alter -2..2, octaves -1..9, rests, fractional durations (int, a/b, a/b/t, 2-3 additive components, "
        "numerators > 1024), floats on and off the decimal grid of the field, lists of length 0..6, all 30 keys in the "
        "spelling of each version (+ alternative key, key lists), tick/controller values; every pre-1.0 object is also "
        "upgraded with to_v1 and re-emitted; plus exhaustive key table, duration string/sum cases, the 3 fixture files "
        "re-emitted, generated files loaded through load_matchfile. A case is one line object; distinct by its text; "
        "non-trivial when it has >= 1 non-default optional content (accidental, rest, attribute list, tuplet/additive "
        "duration, alternative key, non-default channel/track ...)")
ASSUMPTIONS = ["reference readings of duration / key / time-signature texts in vmon/refmodels/matchline.py",
               "field equality is demanded only for values the format can denote (floats on the d-decimal grid of the "
               "field: 4 in 1.0.0, 5 / 2 for snote / note times in 0.1-0.2, unconstrained repr elsewhere); off-grid "
               "values are judged on the fixpoint only",
               "numerators/denominators > 1024 are approximated by FractionalSymbolicDuration by design: not judged for "
               "value; a sum is judged exact whenever the reduced exact sum fits in that bound",
               "note-name letters are compared case-insensitively; other_components None == []",
               "to_v1: variants of insertion/deletion become insertion/deletion, trill becomes ornament, "
               "info(keySignature/timeSignature/...) and meta become scoreprop; float ticks exactly at .5 are open"]
MIN_HOOKS = {"matchline": {"quick": 100000, "thorough": 1000000}, "parse_matchline": {"quick": 50000, "thorough": 500000},
             "to_v1": {"quick": 20000, "thorough": 200000}, "from_instance": {"quick": 40000, "thorough": 400000},
             "fsd.from_string": {"quick": 200000, "thorough": 2000000}, "fsd.__add__": {"quick": 80000, "thorough": 800000},
             "key.from_string": {"quick": 4000, "thorough": 40000}, "timesig.from_string": {"quick": 3000, "thorough": 30000}}
MIN_NONTRIVIAL = {"quick": 30000, "thorough": 300000}
WATCHDOG_S = {"quick": 900, "thorough": 7200}

KIND = {"MatchInfo": "info", "MatchScoreProp": "scoreprop", "MatchMeta": "meta", "MatchSection": "section",
        "MatchStime": "stime", "MatchPtime": "ptime", "MatchStimePtime": "stime_ptime", "MatchSnote": "snote",
        "MatchNote": "note", "MatchSnoteNote": "snote_note", "MatchSnoteDeletion": "deletion",
        "MatchSnoteTrailingScore": "trailing_score_note", "MatchSnoteNoPlayedNote": "no_played_note",
        "MatchInsertionNote": "insertion", "MatchHammerBounceNote": "hammer_bounce",
        "MatchTrailingPlayedNote": "trailing_played_note", "MatchOrnamentNote": "ornament", "MatchTrillNote": "trill",
        "MatchSustainPedal": "sustain", "MatchSoftPedal": "soft"}

_state = {"installed": False, "busy": 0}


def C():
    return core.CURRENT


def vstr(version):
    return ".".join(str(int(x)) for x in version)


class _Busy:
    def __enter__(self):
        _state["busy"] += 1

    def __exit__(self, *a):
        _state["busy"] -= 1


def guarded(ctx, witness, fn, *a, **k):
    """Call library code the property promises a result for; a raise becomes a violation with the witness."""
    try:
        return True, ctx.call(fn, *a, **k)
    except core.PartituraRaised as pr:
        ctx.raised(pr, extra=witness)
        return False, None


def _safe(fn, line_level=True):
    """A failure of the monitor inside a hook is a MONITOR-ERROR, never an exception in the observed code.
    Line-level contracts (matchline, to_v1, from_instance) do not judge the calls they make themselves;
    value-level contracts (duration / key / time-signature texts, sums) judge every call, also those."""
    def wrapped(*a, **k):
        if line_level and _state["busy"]:
            return
        try:
            with _Busy():
                fn(*a, **k)
        except core.PartituraRaised:
            raise
        except Exception:
            import traceback
            ctx = C()
            ctx.monitor_errors.append({"item": ctx.item, "traceback": "in hook: " + traceback.format_exc()[-2000:]})
    return wrapped


# ------------------------------------------------------------------ matchline contract
def compare_fields(ctx, kind, version, A, B, text, path=""):
    """Field-wise comparison of the original A and the parsed B (same class). -> list of (key, what)."""
    out = []
    for f in R.fields(kind, version):
        try:
            a = getattr(A, f)
        except AttributeError:
            ctx.extra["original_lacks_field"] += 1
            continue
        if not hasattr(B, f):
            out.append((f"field-missing-after-parse:{kind}.{f}", f"{path}{f} missing on the parsed object"))
            continue
        b = getattr(B, f)
        attr = getattr(A, "Attribute", None) if f == "Value" else None
        tag = f"{kind}.{f}" + (f"[{attr}]" if attr else "")
        # -- domain guards: what the format of this version allows
        if isinstance(a, float):
            d = R.decimals(kind, version, f)
            if not R.on_grid(a, d):
                ctx.ambiguous()
                ctx.extra["offgrid_float_fixpoint_only"] += 1
                continue
        if tuple(version) >= R.V1 and kind == "scoreprop" and f == "Value":
            if attr == "beatSubDivision" and not all(isinstance(x, int) and not isinstance(x, bool) for x in a):
                ctx.extra["out_of_domain_value"] += 1
                out.append(("__out_of_domain__", f))
                continue
            if attr == "tempoIndication" and not hasattr(a, "is_list"):
                ctx.extra["out_of_domain_value"] += 1
                out.append(("__out_of_domain__", f))
                continue
            if attr in ("timeSignature", "keySignature") and getattr(a, "other_components", None):
                # 1.0.0 writes one signature per scoreprop line: a list value (from an upgraded 0.x info line)
                # is not something the 1.0.0 text can denote
                ctx.extra["v1_signature_list_not_denotable"] += 1
                out.append(("__out_of_domain__", f))
                continue
        if f == "NoteName" and isinstance(a, str) and isinstance(b, str):
            a, b = a.upper(), b.upper()
        ctx.check()
        na, nb = R.norm(a), R.norm(b)
        if na == nb:
            continue
        if isinstance(na, (int, float)) and isinstance(nb, (int, float)) and not isinstance(na, bool) and na == nb:
            continue
        if isinstance(na, list) and isinstance(nb, list) and na[:1] == ["dur"] and nb[:1] == ["dur"]:
            verdict = duration_difference(na, nb, version)
            if verdict is None:
                ctx.ambiguous()
                ctx.extra["bounded_duration_not_judged"] += 1
                continue
            if verdict != "other":
                out.append((verdict, f"{path}{f}: {na!r} is read back as {nb!r}"))
                continue
        if na == [] and nb == [""]:
            out.append(("empty-list-read-as-one-empty-string",
                        f"{path}{f}: [] is written as '[]' and read back as ['']"))
        elif attr == "keySignature" and isinstance(na, list) and isinstance(nb, list) and len(na) >= 3 and na[2] is None \
                and nb[1:2] == na[1:2] and nb[2] == "major":
            # a key object without a mode (a MusicXML key without <mode>) is none of the 30 key names: its text can only name a mode
            ctx.ambiguous()
            ctx.extra["key_without_mode_not_denotable"] += 1
        elif attr == "keySignature" and tuple(version) >= R.V1:
            out.append(("keysig-v1-name-read-by-v0.3-pattern",
                        f"{path}{f}: key {na[1:5]} written in 1.0.0 spelling is read back as {nb[1:5]}"))
        elif attr == "tempoIndication" and tuple(version) >= R.V1:
            out.append(("tempoIndication-v1-read-as-list", f"{path}{f}: {na} is read back as {nb}"))
        else:
            out.append((f"field-differs:{tag}", f"{path}{f}: {na!r} is read back as {nb!r}"))
    for sub, subkind in R.SUBS.get(kind, ()):
        sa, sb = getattr(A, sub, None), getattr(B, sub, None)
        if sa is None or sb is None:
            out.append((f"field-missing-after-parse:{kind}.{sub}", f"{path}{sub} missing"))
            continue
        if type(sa) is not type(sb):
            out.append((f"kind-changed:{subkind}", f"{path}{sub}: {type(sa).__name__} -> {type(sb).__name__}"))
            continue
        out.extend(compare_fields(ctx, subkind, version, sa, sb, text, path=f"{path}{sub}."))
    return out


def prefixes_fit(comps):
    """Every partial sum (left to right) of the components, and every component, fits in the class's bound."""
    tot = Fraction(0)
    for c in comps:
        v = R.comp_value(*c)
        tot += v
        if not (_fits(v) and _fits(tot)) or c[0] > R.BOUND or c[1] > R.BOUND:
            return False
    return True


def duration_difference(na, nb, version=None):
    """Two unequal canonical durations -> mechanism key, None (not judged: bounded by design) or 'other'."""
    _, n1, d1, t1, c1 = na
    _, n2, d2, t2, c2 = nb
    if c1 is not None and c2 is None and version is not None and tuple(version) < (0, 3, 0) \
            and (n1, d1, t1) == (n2, d2, t2) and d1 == 1:
        return "additive-components-dropped-when-total-is-integer"      # the 'always a/b' format of 0.1-0.2
    if c1 is not None and c1 == c2:
        comps = [tuple(c) for c in c1]
        return "duration-sum-inexact-unreduced-lcm-over-bound" if prefixes_fit(comps) else None
    return "other"


def check_line(L, text):
    ctx = C()
    kind = KIND.get(type(L).__name__)
    if kind is None or not hasattr(L, "version") or not isinstance(text, str):
        ctx.extra["matchline_of_unmodelled_class"] += 1
        return
    version = tuple(L.version)
    if kind in ("info", "scoreprop"):
        val = getattr(L, "Value", None)
        val = getattr(val, "value", val) if hasattr(val, "is_list") else val
        if isinstance(val, str) and val.strip() == "" and not (kind == "info" and version < (1, 0, 0) and ",''" in text):
            # (the quoted form of the versions before 1.0.0 does denote an empty value: that one is judged)
            ctx.extra["empty_text_value_not_denotable"] += 1    # e.g. an upgraded 'info(subtitle,[])'
            return
    ctx.hook("matchline")
    wit = {"kind": kind, "version": vstr(version), "class": type(L).__module__.rsplit(".", 1)[-1] + "." + type(L).__name__,
           "text": text}
    # 1. the class's own parser
    ctx.check()
    try:
        p1 = ctx.call(type(L).from_matchline, text, version=L.version)
    except core.PartituraRaised as pr:
        ctx.violation(f"reparse-raises:{type(pr.exc).__name__}@{pr.where}",
                      f"{kind} {vstr(version)}: own text cannot be parsed: {pr.exc}", dict(wit, traceback=pr.tb[-800:]))
        p1 = None
    if p1 is not None:
        if type(p1) is not type(L):
            ctx.violation(f"kind-changed:{kind}", f"{type(L).__name__} parsed as {type(p1).__name__}", wit)
        else:
            diffs = compare_fields(ctx, kind, version, L, p1, text)
            for key, what in diffs:
                if key != "__out_of_domain__":
                    ctx.violation(key, f"{kind} {vstr(version)}: {what}", wit)
            if diffs:          # a different object writes a different text: consequence, not a second finding
                return
            ctx.check()
            try:
                t2 = ctx.call(lambda: p1.matchline)
            except core.PartituraRaised as pr:
                ctx.violation(f"reformat-raises:{type(pr.exc).__name__}@{pr.where}",
                              f"{kind} {vstr(version)}: the parsed line cannot be written again: {pr.exc}",
                              dict(wit, traceback=pr.tb[-800:]))
                t2 = None
            if t2 is not None and t2 != text:
                ctx.violation(f"not-a-fixpoint:{kind}", f"{kind} {vstr(version)}: second text {t2!r} != first", wit)
    # 2. the dispatcher with the version's ordered method list
    if kind in R.TOP_LEVEL:
        import partitura.io.importmatch as IM
        methods = IM.FROM_MATCHLINE_METHODSV1 if version >= R.V1 else IM.FROM_MATCHLINE_METHODSV0
        ctx.check()
        ctx.hook("parse_matchline")
        try:
            p2 = ctx.call(IM.parse_matchline, text, methods, L.version)
        except core.PartituraRaised as pr:
            ctx.violation(f"dispatch-raises:{type(pr.exc).__name__}@{pr.where}", str(pr.exc), wit)
            return
        if p2 is None:
            if p1 is not None:     # (when the own parser failed too, that is already reported)
                ctx.violation(f"dispatch-finds-no-parser:{kind}", f"{kind} {vstr(version)}: parse_matchline -> None", wit)
        elif type(p2) is not type(L):
            ctx.violation(f"dispatch-kind-changed:{kind}", f"{type(L).__name__} dispatched to {type(p2).__name__}", wit)
        elif p1 is not None and type(p1) is type(L):
            try:
                t3 = ctx.call(lambda: p2.matchline)
            except core.PartituraRaised:
                t3 = text           # same failure as reported above
            if t3 != text:
                ctx.violation(f"not-a-fixpoint:{kind}", f"{kind} {vstr(version)}: dispatched text {t3!r} != first", wit)


@_safe
def post_matchline(ret, exc, token, a, k):
    if exc is None:
        check_line(a[0], ret)


# ------------------------------------------------------------------ upgrade contract
def check_conversion(src, dst, where, top=True):
    ctx = C()
    sk = KIND.get(type(src).__name__)
    if sk is None or tuple(src.version) >= R.V1:
        ctx.extra["conversion_not_pre_1_0"] += 1
        return
    sv = tuple(src.version)
    wit = {"from": sk, "version": vstr(sv), "where": where}
    try:
        with _Busy():
            wit["text"] = src.matchline
    except Exception:
        pass
    if sk == "info":
        attr = R.ATTR_RENAMED.get(src.Attribute, src.Attribute)
        exp = "info" if attr in R.V1_INFO_ATTRS else "scoreprop" if attr in R.V1_SCOREPROP_ATTRS else None
        if exp is None:
            ctx.extra["conversion_no_equivalent_attribute"] += 1
            return
    else:
        exp = R.UPGRADE_KIND[sk]
    ctx.check()
    if dst is None:
        ctx.violation(f"upgrade-returns-None:{sk}", f"{where}({sk} {vstr(sv)}) returned None", wit)
        return
    dk = KIND.get(type(dst).__name__)
    if dk != exp or not type(dst).__module__.endswith("matchlines_v1") or tuple(dst.version) < R.V1:
        ctx.violation(f"upgrade-kind-changed:{sk}", f"{sk} {vstr(sv)} became {type(dst).__module__.rsplit('.', 1)[-1]}."
                      f"{type(dst).__name__} ({dk}), expected {exp}", wit)
        return

    def same(field, a, b, tag=None):
        ctx.check()
        if field == "NoteName" and isinstance(a, str) and isinstance(b, str):
            a, b = a.upper(), b.upper()
        if R.norm(a) != R.norm(b):
            ctx.violation(f"upgrade-changes:{tag or exp + '.' + field}",
                          f"{sk} {vstr(sv)} -> 1.0.0: {field} {R.norm(a)!r} became {R.norm(b)!r}", wit)

    if exp == "snote":
        for f in R.SNOTE_FIELDS:
            same(f, getattr(src, f), getattr(dst, f))
    elif exp == "note":
        same("Id", src.Id, dst.Id)
        same("Velocity", src.Velocity, dst.Velocity)
        ctx.check()
        want = P.midi(src.NoteName, src.Modifier, src.Octave)
        if dst.MidiPitch != want:
            ctx.violation("upgrade-changes:note.MidiPitch", f"{src.NoteName}{src.Modifier}{src.Octave} -> {dst.MidiPitch}, "
                          f"expected {want}", wit)
        for f in ("Onset", "Offset"):
            a, b = getattr(src, f), getattr(dst, f)
            ctx.check()
            if isinstance(a, float):
                fl = math.floor(a)
                frac = Fraction(a) - fl
                if frac == Fraction(1, 2):
                    ctx.ambiguous()
                    ok = b in (fl, fl + 1)
                else:
                    ok = b == (fl if frac < Fraction(1, 2) else fl + 1)
            else:
                ok = b == a
            if not ok or isinstance(b, bool) or not isinstance(b, int):
                ctx.violation(f"upgrade-changes:note.{f}", f"{f} {a!r} became {b!r}", wit)
    elif exp in ("sustain", "soft"):
        same("Time", src.Time, dst.Time)
        same("Value", src.Value, dst.Value)
    elif exp == "ornament":
        same("Anchor", src.Anchor, dst.Anchor)
        check_conversion(src.note, dst.note, where, top=False)
    elif exp == "snote_note":
        check_conversion(src.snote, dst.snote, where, top=False)
        check_conversion(src.note, dst.note, where, top=False)
    elif exp == "deletion":
        check_conversion(src.snote, dst.snote, where, top=False)
    elif exp == "insertion":
        check_conversion(src.note, dst.note, where, top=False)
    elif exp in ("scoreprop", "info"):
        attr = R.ATTR_RENAMED.get(src.Attribute, src.Attribute)
        same("Attribute", attr, dst.Attribute)
        if attr in ("keySignature", "timeSignature"):
            same("Value", src.Value, dst.Value, tag=f"{exp}.Value[{attr}]")
        if sk == "meta":
            same("Measure", src.Measure, dst.Measure)
            same("TimeInBeats", src.TimeInBeats, dst.TimeInBeats)


@_safe
def post_to_v1(ret, exc, token, a, k):
    ctx = C()
    src = a[0] if a else k.get("matchline")
    ctx.hook("to_v1")
    if exc is None:
        check_conversion(src, ret, "to_v1")


def _wrap_classmethod(cls, name, label, post):
    raw = cls.__dict__[name].__func__

    def wrapper(klass, *a, **k):
        try:
            ret = raw(klass, *a, **k)
        except BaseException as e:
            post(None, e, klass, a, k)
            raise
        post(ret, None, klass, a, k)
        return ret

    wrapper.__name__ = raw.__name__
    wrapper.__qualname__ = raw.__qualname__
    wrapper.__doc__ = raw.__doc__
    wrapper.__wrapped__ = raw
    setattr(cls, name, classmethod(wrapper))


@_safe
def post_from_instance(ret, exc, klass, a, k):
    ctx = C()
    src = a[0] if a else k.get("instance")
    ctx.hook("from_instance")
    if exc is None and hasattr(src, "version") and tuple(src.version) < R.V1:
        check_conversion(src, ret, f"{klass.__name__}.from_instance")


# ------------------------------------------------------------------ value contracts
def _fits(fr):
    return fr.numerator <= R.BOUND and fr.denominator <= R.BOUND


def post_fsd_from_string(ret, exc, klass, a, k):
    ctx = C()
    string = a[0] if a else k.get("string")
    allow = a[1] if len(a) > 1 else k.get("allow_additions", True)
    ctx.hook("fsd.from_string")
    if not isinstance(string, str):
        return
    comps = R.parse_duration(string)
    if comps is None or (len(comps) > 1 and not allow):
        return
    ctx.check()
    if exc is not None:
        ctx.violation("duration-text-rejected", f"from_string({string!r}) raised {type(exc).__name__}: {exc}", {"text": string})
        return
    if not hasattr(ret, "tuple_div"):
        ctx.violation("duration-text-read-as-other-type", f"from_string({string!r}) -> {type(ret).__name__}", {"text": string})
        return
    n, d, t, got_comps = R.fsd_parts(ret)
    exact = R.duration_value(comps)
    if len(comps) == 1:
        if comps[0][0] > R.BOUND or comps[0][1] > R.BOUND:
            ctx.ambiguous()
            ctx.extra["bounded_duration_not_judged"] += 1
            return
        if (n, d, t) != comps[0] or got_comps is not None:
            ctx.violation("duration-text-read-wrong", f"{string!r} -> {(n, d, t, got_comps)}", {"text": string})
        return
    live = [c for c in comps if c[0] != 0]
    if got_comps != live:
        ctx.violation("duration-components-changed", f"{string!r} -> components {got_comps}", {"text": string})
    if Fraction(n, d * (t or 1)) != exact:
        if prefixes_fit(comps):
            ctx.violation("duration-sum-inexact-unreduced-lcm-over-bound",
                          f"{string!r} is {exact} but the object says {n}/{d}" + (f"/{t}" if t else ""), {"text": string})
        else:
            ctx.ambiguous()
            ctx.extra["bounded_duration_not_judged"] += 1


def pre_fsd_add(self, sd):
    def snap(x):
        if isinstance(x, int):
            return (Fraction(x), [(x, 1, None)], str(x), (x, 1))
        n, d, t, comps = R.fsd_parts(x)
        return (Fraction(n, d * (t or 1)), comps if comps is not None else [(n, d, t)], str(x), (n, d * (t or 1)))
    try:
        return snap(self), snap(sd)
    except Exception:
        return None


def post_fsd_add(ret, exc, token, a, k):
    ctx = C()
    ctx.hook("fsd.__add__")
    if token is None or exc is not None:
        return
    (va, ca, ta, (na, da)), (vb, cb, tb, (nb, db)) = token
    exact = va + vb
    # addition leaves its operands as they were (a line's Offset is still its Offset after Offset + Duration was evaluated)
    for which, obj, text0, comps0 in (("left", a[0], ta, ca), ("right", a[1] if len(a) > 1 else k.get("sd"), tb, cb)):
        if isinstance(obj, int):
            continue
        ctx.check()
        try:
            now = R.fsd_parts(obj)
            text1 = str(obj)
        except Exception:
            continue
        comps1 = now[3] if now[3] is not None else [(now[0], now[1], now[2])]
        if text1 != text0 or comps1 != comps0:
            ctx.violation("duration-addition-changed-its-operand", f"{ta} + {tb}: the {which} operand now reads {text1}", {"a": ta, "b": tb})
    ctx.check()
    n, d, t, comps = R.fsd_parts(ret)
    wit = {"a": ta, "b": tb}
    want = [c for c in ca + cb if c[0] != 0]
    if comps != want:
        ctx.violation("duration-components-changed", f"{ta} + {tb}: components {comps}, expected {want}", wit)
    if Fraction(n, d * (t or 1)) != exact:
        common = da * db // math.gcd(da, db)
        if common <= R.BOUND and na * (common // da) + nb * (common // db) <= R.BOUND:
            ctx.violation("duration-sum-wrong", f"{ta} + {tb} = {exact} but the sum object says {n}/{d}", wit)
        elif _fits(exact) and _fits(va) and _fits(vb):
            ctx.violation("duration-sum-inexact-unreduced-lcm-over-bound",
                          f"{ta} + {tb} = {exact} but the sum object says {n}/{d}", wit)
        else:
            ctx.ambiguous()
            ctx.extra["bounded_duration_not_judged"] += 1


def post_key_from_string(ret, exc, klass, a, k):
    ctx = C()
    string = a[0] if a else k.get("string")
    ctx.hook("key.from_string")
    if not isinstance(string, str):
        return
    ref = R.parse_key(string)
    if ref is None:
        ctx.extra["key_text_outside_reference_grammar"] += 1
        return
    ctx.check()
    wit = {"text": string}
    v1_style = "[" not in string and " " not in string.strip() and "," not in string
    if exc is not None or ret is None:
        ctx.violation("key-text-rejected", f"from_string({string!r}) -> {type(exc).__name__ if exc else None}", wit)
        return
    got = [((ret.fifths, ret.mode), (ret.fifths_alt, ret.mode_alt) if ret.fifths_alt is not None else None)]
    got += [((c.fifths, c.mode), (c.fifths_alt, c.mode_alt) if c.fifths_alt is not None else None)
            for c in (ret.other_components or [])]
    if got != ref:
        ctx.violation("keysig-v1-name-read-by-v0.3-pattern" if v1_style else "key-text-read-wrong",
                      f"{string!r} denotes {ref} but is read as {got}", wit)


def post_ts_from_string(ret, exc, klass, a, k):
    ctx = C()
    string = a[0] if a else k.get("string")
    ctx.hook("timesig.from_string")
    if not isinstance(string, str):
        return
    ref = R.parse_timesig(string)
    if ref is None:
        return
    ctx.check()
    if exc is not None:
        ctx.violation("timesig-text-rejected", f"from_string({string!r}) raised {type(exc).__name__}", {"text": string})
        return
    got = [(int(ret.numerator), int(ret.denominator))] + [(int(c.numerator), int(c.denominator))
                                                          for c in (ret.other_components or [])]
    if got != ref:
        ctx.violation("timesig-text-read-wrong", f"{string!r} denotes {ref}, read as {got}", {"text": string})


post_fsd_from_string = _safe(post_fsd_from_string, line_level=False)
post_fsd_add = _safe(post_fsd_add, line_level=False)
post_key_from_string = _safe(post_key_from_string, line_level=False)
post_ts_from_string = _safe(post_ts_from_string, line_level=False)


# ------------------------------------------------------------------ installation
def install(ctx):
    core.set_current(ctx)
    if _state["installed"]:
        return
    _state["installed"] = True
    import partitura.io.matchfile_base as B
    import partitura.io.matchlines_v0 as M0      # noqa  (registers the subclasses)
    import partitura.io.matchlines_v1 as M1
    import partitura.io.matchfile_utils as U
    import partitura.io.importmatch as IM        # noqa
    try:
        import partitura.io.exportmatch          # noqa  (so that its aliases are rebound too)
    except Exception:
        pass
    # the library prints unparsable lines; keep the workers' logs small
    sys.stdout = open(os.devnull, "w")
    seen, stack = [], [B.MatchLine]
    while stack:
        c = stack.pop()
        if c in seen:
            continue
        seen.append(c)
        stack.extend(c.__subclasses__())
    n = 0
    for c in seen:
        if isinstance(c.__dict__.get("matchline"), property):
            core.Hook(c, "matchline", post=post_matchline, label=f"matchline@{c.__name__}")
            n += 1
    ctx.extra["matchline_properties_wrapped"] = n
    h = core.Hook(M1, "to_v1", post=post_to_v1, label="to_v1")
    core.rebind_everywhere(h.orig, h.wrapper)
    for c in seen:
        if c.__module__.endswith("matchlines_v1") and isinstance(c.__dict__.get("from_instance"), classmethod):
            _wrap_classmethod(c, "from_instance", "from_instance", post_from_instance)
    _wrap_classmethod(U.FractionalSymbolicDuration, "from_string", "fsd.from_string", post_fsd_from_string)
    core.Hook(U.FractionalSymbolicDuration, "__add__", pre=pre_fsd_add, post=post_fsd_add, label="fsd.__add__")
    _wrap_classmethod(U.MatchKeySignature, "from_string", "key.from_string", post_key_from_string)
    _wrap_classmethod(U.MatchTimeSignature, "from_string", "timesig.from_string", post_ts_from_string)


def setup(ctx):
    install(ctx)


# ------------------------------------------------------------------ driver
FIXTURES = ["Chopin_op10_no3_p01.match", "mozart_k265_var1.match", "test_fuer_elise.match"]


def plan(tier, seed):
    quick = tier == "quick"
    items = [["keys"], ["timesigs"]]
    items += [["fsd", i] for i in range(16 if quick else 160)]
    items += [["fixture", f] for f in FIXTURES]
    items += [["file", i] for i in range(16 if quick else 160)]
    items += [["gen", i] for i in range(64 if quick else 720)]
    return items


def combos():
    from workloads import gen_match as G
    return [(k, v) for v in G.ALL_VERSIONS for k in G.kinds_for(v)]


def run_line(ctx, case, sample=False):
    import partitura.io.matchlines_v1 as M1
    wit = {"kind": case.kind, "version": vstr(case.version), "spec": case.spec}
    ok, text = guarded(ctx, wit, lambda: case.obj.matchline)
    if ok and case.version < R.V1 and case.kind in R.TOP_LEVEL:
        upgrade(ctx, case.obj, case.kind, dict(wit, text=text))
    ctx.case(["line", case.kind, vstr(case.version), text if ok else repr(case.spec)], case.nontrivial,
             sample={"kind": case.kind, "version": vstr(case.version), "text": text} if sample and ok else None,
             cls=f"{case.kind}@{vstr(case.version)}")
    ctx.state(f"{case.kind}|{vstr(case.version)}|{'|'.join(map(str, case.shape))}")
    return text if ok else None


def upgrade(ctx, obj, kind, wit):
    """to_v1 on a pre-1.0 line (the contract on to_v1 judges kind and content), then write the result."""
    import partitura.io.matchlines_v1 as M1
    no_equivalent = kind == "info" and R.ATTR_RENAMED.get(obj.Attribute, obj.Attribute) not in \
        (R.V1_INFO_ATTRS | R.V1_SCOREPROP_ATTRS)
    try:
        conv = ctx.call(M1.to_v1, obj)
    except core.PartituraRaised as pr:
        if no_equivalent and type(pr.exc).__name__ == "MatchError":
            ctx.extra["upgrade_no_equivalent_in_1_0_0"] += 1        # e.g. partSequence, mergedFrom: nothing to keep
            return None
        ctx.violation(f"upgrade-raises:{kind}:{type(pr.exc).__name__}",
                      f"to_v1({kind} {wit.get('version')}) raised {type(pr.exc).__name__}: {pr.exc}",
                      dict(wit, traceback=pr.tb[-800:]))
        return None
    if conv is None:
        return None
    try:
        ctx.call(lambda: conv.matchline)
    except core.PartituraRaised as pr:
        ctx.violation(f"upgraded-line-cannot-be-written:{kind}[{getattr(obj, 'Attribute', '')}]",
                      f"to_v1({kind}).matchline raised {type(pr.exc).__name__}: {pr.exc}",
                      dict(wit, upgraded=type(conv).__name__, traceback=pr.tb[-800:]))
    return conv


def run_item(ctx, item):
    core.set_current(ctx)
    kind = item[0]
    if kind == "gen":
        from workloads import gen_match as G
        rng = ctx.rng("gen", item[1])
        cs = combos()
        rounds = 18
        built = []
        for r in range(rounds):
            for j, (k, v) in enumerate(cs):
                case = G.make_line(rng, k, v)
                text = run_line(ctx, case, sample=(item[1] < 3 and r == 0 and j == 5 * item[1] + 7))
                if text is not None:
                    built.append((case, text))
        # a line object keeps its text while other lines (of other kinds, attributes and versions) are built and written:
        # the lines of a file are all alive at once when it is saved
        for case, text in built:
            ctx.check()
            try:
                again = case.obj.matchline
            except Exception as e:  # noqa
                again = f"<{type(e).__name__}: {e}>"
            if again != text:
                ctx.violation(f"line-text-changes-after-other-lines-were-built:{case.kind}",
                              f"{case.kind} {vstr(case.version)}: first written as {text!r}, later as {again!r}",
                              {"kind": case.kind, "version": vstr(case.version), "text": text, "later": again})
                break
    elif kind == "keys":
        run_keys(ctx)
    elif kind == "timesigs":
        run_timesigs(ctx)
    elif kind == "fsd":
        run_fsd(ctx, item[1])
    elif kind == "fixture":
        run_fixture(ctx, item[1])
    elif kind == "file":
        run_file(ctx, item[1])
    else:
        raise ValueError(item)


def run_keys(ctx):
    """All 30 keys x every spelling, as bare values and inside the lines that carry them."""
    import partitura.io.matchfile_utils as U
    import partitura.io.matchlines_v0 as M0
    import partitura.io.matchlines_v1 as M1
    from workloads import gen_match as G
    keys = [(f, m) for f in range(-7, 8) for m in ("major", "minor")]
    fmts = [("1.0.0", U.format_key_signature_v1_0_0, True), ("0.3.0", U.format_key_signature_v0_3_0, True),
            ("0.3.0-list", U.format_key_signature_v0_3_0_list, True), ("0.1.0", U.format_key_signature_v0_1_0, False)]
    for (f, m) in keys:
        for name, fmt, alt_ok in fmts:
            alts = [None] + ([keys[(keys.index((f, m)) + 7) % 30], (f, "minor" if m == "major" else "major")] if alt_ok else [])
            for alt in alts:
                ks = U.MatchKeySignature(f, m, alt[0] if alt else None, alt[1] if alt else None)
                wit = {"key": [f, m], "alt": list(alt) if alt else None, "spelling": name}
                ok, s = guarded(ctx, wit, fmt, ks)
                if not ok:
                    continue
                wit["text"] = s
                ok, back = guarded(ctx, wit, U.MatchKeySignature.from_string, s)     # hook judges against the reference
                ctx.check()
                if ok and back is not None:
                    if R.norm(back)[1:5] != [f, m, alt[0] if alt else None, alt[1] if alt else None]:
                        ctx.violation("keysig-v1-name-read-by-v0.3-pattern" if name == "1.0.0" else "key-text-read-wrong",
                                      f"{(f, m, alt)} -> {s!r} -> {R.norm(back)[1:5]}", wit)
                    else:
                        ok2, s2 = guarded(ctx, wit, fmt, back)
                        ctx.check()
                        if ok2 and s2 != s:
                            ctx.violation("key-text-not-a-fixpoint", f"{s!r} -> {s2!r}", wit)
                ctx.case(["key", f, m, name, alt], f != 0 or alt is not None,
                         sample=wit if (f, m, name) == (-3, "minor", "1.0.0") and alt is None else None, cls="keytable")
                ctx.state(f"key|{name}|{f}|{m}|{'alt' if alt else ''}")
        # inside lines
        off = G.build_duration([(0, 1, None)])
        for ver in G.ALL_VERSIONS:
            v = U.Version(*ver)
            if ver >= R.V1:
                obj = M1.make_scoreprop(v, "keySignature", U.MatchKeySignature(f, m), 1, 1, off, 0.0)
                lines = [obj]
            else:
                _, fmt, typ = M0.INFO_LINE[v]["keySignature"]
                lines = [M0.MatchInfo(version=v, attribute="keySignature", value=U.MatchKeySignature(f, m),
                                      value_type=typ, format_fun=fmt)]
                if ver >= (0, 3, 0):
                    _, fmt, typ = M0.META_LINE[v]["keySignature"]
                    lines.append(M0.MatchMeta(version=v, attribute="keySignature", value=U.MatchKeySignature(f, m),
                                              value_type=typ, format_fun=fmt, measure=3, time_in_beats=8.0))
            for obj in lines:
                case = G.Case(obj, KIND[type(obj).__name__], ver, {"Attribute": "keySignature", "Value": [f, m]},
                              ("keytable", f, m), True)
                run_line(ctx, case)


def run_timesigs(ctx):
    import partitura.io.matchfile_utils as U
    from workloads import gen_match as G
    for num in range(1, 17):
        for den in (1, 2, 4, 8, 16, 32):
            for others in ([], [(2, 2)], [(3, 4), (6, 8)]):
                for fmt, name in ((U.format_time_signature, "plain"), (U.format_time_signature_list, "list")):
                    if name == "plain" and others:
                        continue
                    ts = G.build_timesig(num, den, others)
                    wit = {"ts": [num, den], "others": others, "spelling": name}
                    ok, s = guarded(ctx, wit, fmt, ts)
                    if not ok:
                        continue
                    wit["text"] = s
                    ok, back = guarded(ctx, wit, U.MatchTimeSignature.from_string, s)
                    ctx.check()
                    if ok:
                        got = R.norm(back)
                        want = ["timesig", num, den, [["dur", a, b, None, None] for a, b in others]]
                        if got != want:
                            ctx.violation("timesig-text-read-wrong", f"{want} -> {s!r} -> {got}", wit)
                        else:
                            ok2, s2 = guarded(ctx, wit, fmt, back)
                            if ok2 and s2 != s:
                                ctx.violation("timesig-text-not-a-fixpoint", f"{s!r} -> {s2!r}", wit)
                    ctx.case(["ts", num, den, others, name], (num, den) != (4, 4), cls="timesigtable")


def run_fsd(ctx, idx):
    """Durations as values: text round trip keeps the exact value, addition is exact."""
    import partitura.io.matchfile_utils as U
    from workloads import gen_match as G
    FSD = U.FractionalSymbolicDuration
    rng = ctx.rng("fsd", idx)
    for j in range(1500):
        comps = G.duration_spec(rng, p_add=0.35, p_tuplet=0.35, p_big=0.03)
        shape = G.duration_shape(comps)
        wit = {"components": [list(c) for c in comps]}
        ok, x = guarded(ctx, wit, G.build_duration, comps)           # uses + for additive ones (hook judges the sum)
        if not ok:
            continue
        ok, s = guarded(ctx, wit, str, x)
        if not ok:
            continue
        wit["text"] = s
        ok, y = guarded(ctx, wit, FSD.from_string, s)               # hook judges against the reference reading
        if ok:
            ctx.check()
            if R.norm(y) != R.norm(x):
                verdict = duration_difference(R.norm(x), R.norm(y))
                if verdict is None:
                    ctx.ambiguous()
                    ctx.extra["bounded_duration_not_judged"] += 1
                else:
                    ctx.violation("duration-text-roundtrip-changes-object" if verdict == "other" else verdict,
                                  f"{R.norm(x)} -> {s!r} -> {R.norm(y)}", wit)
            ok2, s2 = guarded(ctx, wit, str, y)
            if ok2 and s2 != s:
                ctx.violation("duration-text-not-a-fixpoint", f"{s!r} -> {s2!r}", wit)
            if shape != "big":
                exact = R.duration_value(comps)
                ctx.check()
                fl = float(y)
                if R.fsd_value(y) == exact and abs(fl - float(exact)) > 1e-12 * max(1.0, float(exact)):
                    ctx.violation("duration-float-wrong", f"float({s!r}) = {fl}, exact {exact}", wit)
        # int + duration, duration + int
        if rng.random() < 0.2 and shape != "big":
            kint = rng.randint(0, 4)
            for fn, nm in ((lambda: kint + x, "radd"), (lambda: x + kint, "add")):
                guarded(ctx, dict(wit, int=kint, op=nm), fn)
        ctx.case(["fsd", s], shape not in ("rat", "int", "zero"), cls="duration:" + shape,
                 sample=wit if j == 3 and idx == 0 else None)
        ctx.state(f"fsd|{shape}")


def run_fixture(ctx, name):
    """Every line of a fixture file, loaded by the library, is emitted again (the matchline contract judges it)
    and, for pre-1.0 files, upgraded."""
    import partitura.io.importmatch as IM
    import partitura.io.matchlines_v1 as M1
    path = os.path.join(core.REPO, "tests", "data", "match", name)
    with open(path) as f:
        raw = [ln for ln in f.read().splitlines() if ln]
    ok, mf = guarded(ctx, {"fixture": name}, IM.load_matchfile, path)
    if not ok:
        return
    rawset = set(raw)
    for i, line in enumerate(mf.lines):
        wit = {"fixture": name, "line_index": i}
        ok, text = guarded(ctx, wit, lambda: line.matchline)
        if not ok:
            continue
        kind = KIND.get(type(line).__name__, "?")
        ctx.extra["fixture_line_text_identical_to_file" if text in rawset else "fixture_line_text_normalised"] += 1
        if tuple(line.version) < R.V1:
            upgrade(ctx, line, kind, dict(wit, text=text, version=vstr(line.version)))
        ctx.case(["fixture", name, text], kind not in ("info",), cls=f"fixture:{kind}",
                 sample={"fixture": name, "text": text} if i == 20 else None)
        ctx.state(f"fixture|{kind}|{vstr(line.version)}")


def run_file(ctx, idx):
    """Generated lines of one version written to a file and loaded with load_matchfile
    (version detection from the first line + dispatcher + duplicate removal)."""
    import partitura.io.importmatch as IM
    import partitura.io.matchfile_utils as U
    import partitura.io.matchlines_v0 as M0
    import partitura.io.matchlines_v1 as M1
    from workloads import gen_match as G
    rng = ctx.rng("file", idx)
    ver = G.ALL_VERSIONS[idx % len(G.ALL_VERSIONS)]
    v = U.Version(*ver)
    if ver >= R.V1:
        head = M1.make_info(v, "matchFileVersion", v)
    else:
        _, fmt, typ = M0.INFO_LINE[v]["matchFileVersion"]
        head = M0.MatchInfo(version=v, attribute="matchFileVersion", value=v, value_type=typ, format_fun=fmt)
    ok, first = guarded(ctx, {"version": vstr(ver)}, lambda: head.matchline)
    if not ok:
        return
    ok, gv = guarded(ctx, {"text": first}, IM.get_version, first)
    ctx.check()
    if ok and tuple(gv) != ver:
        ctx.violation("get_version-wrong", f"{first!r} -> {tuple(gv)}", {"text": first})
    top = [k for k in G.kinds_for(ver) if k in R.TOP_LEVEL and k != "info"]
    texts, objs = [first], [head]
    for j in range(60):
        case = G.make_line(rng, top[j % len(top)], ver)
        # unique ids so that the loader's duplicate-id clean-up stays out of the way
        uniq = f"u{idx}x{j}"
        for sub in ("snote", "note"):
            o = getattr(case.obj, sub, None)
            if o is not None:
                if hasattr(o, "Anchor"):
                    o.Anchor = "s" + uniq
                if hasattr(o, "Id"):
                    o.Id = "n" + uniq
        for f_ in ("Anchor", "Id"):
            if hasattr(case.obj, f_) and case.kind not in ("ornament", "trill"):
                setattr(case.obj, f_, ("s" if f_ == "Anchor" else "n") + uniq)
        t = run_line(ctx, case)
        if t is not None:
            texts.append(t)
            objs.append(case.obj)
    d = tempfile.mkdtemp(prefix="c07-")
    try:
        path = os.path.join(d, "gen.match")
        with open(path, "w") as f:
            f.write("\n".join(texts) + "\n")
        ok, mf = guarded(ctx, {"version": vstr(ver), "lines": texts[:5]}, IM.load_matchfile, path)
        if ok:
            uniq_texts = list(dict.fromkeys(texts))
            ctx.check()
            with _Busy():
                got = []
                for ln in mf.lines:
                    try:
                        got.append(ln.matchline)
                    except Exception:
                        got.append(None)
            # lines that the contract already reported as unparsable/unwritable are not counted twice
            missing = [t for t in uniq_texts if t not in got]
            ctx.extra["file_lines_loaded"] += len(got)
            ctx.extra["file_lines_not_recovered"] += len(missing)
            if tuple(mf.lines[0].version) != ver:
                ctx.violation("file-version-detected-wrong", f"{first!r}: lines carry {tuple(mf.lines[0].version)}",
                              {"first_line": first})
    finally:
        import shutil
        shutil.rmtree(d, ignore_errors=True)
