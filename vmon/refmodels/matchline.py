"""Reference vocabulary for match-file lines (C07), written from the format
description and the property statement; nothing is imported from partitura.

* `norm(value)`      canonical, JSON-like rendering of a field value (duck-typed on
                     attribute names, exact integers, no floats rounded)
* `parse_duration`   exact reading of a symbolic duration text: a | a/b | a/b/c joined by '+'
* `parse_key`        reading of a key-signature text in the three historical spellings
* `parse_timesig`    reading of a time-signature text
* `decimals(...)`    number of decimals the format of (kind, version, field) keeps for a float
                     (None = unconstrained: the shortest repr is written)
* `on_grid(x, d)`    x is exactly representable with d decimals
* `KINDS`            line kinds, their fields and sub-lines per version
"""
import re
from decimal import Decimal
from fractions import Fraction

from . import pitch as P

BOUND = 1024          # numerators / denominators above this are approximated by the class (documented)


# ----------------------------------------------------------------- durations
def comp_value(n, d, t):
    return Fraction(int(n), int(d) * (int(t) if t is not None else 1))


_INT = re.compile(r"^[0-9]+$")


def parse_duration(text):
    """'a' | 'a/b' | 'a/b/c', or several of them joined by '+'.
    Returns the list of components [(a, b, c|None), ...] or None if not in the grammar."""
    comps = []
    for part in text.split("+"):
        bits = part.split("/")
        if not 1 <= len(bits) <= 3 or not all(_INT.match(b) for b in bits):
            return None
        n = int(bits[0])
        d = int(bits[1]) if len(bits) > 1 else 1
        t = int(bits[2]) if len(bits) > 2 else None
        if d == 0 or t == 0:
            return None
        comps.append((n, d, t))
    return comps


def duration_value(comps):
    return sum((comp_value(*c) for c in comps), Fraction(0))


def fsd_parts(x):
    """(numerator, denominator, tuple_div, components) of a duration object, as exact ints."""
    comps = getattr(x, "add_components", None)
    if comps is not None:
        comps = [(int(a), int(b), None if c is None else int(c)) for a, b, c in comps]
    t = getattr(x, "tuple_div", None)
    return int(x.numerator), int(x.denominator), None if t is None else int(t), comps


def fsd_value(x):
    n, d, t, _ = fsd_parts(x)
    return Fraction(n, d * (t or 1))


# ----------------------------------------------------------------- keys
KEY_OF_NAME = {name: k for k, name in P.ALL_KEYS.items()}          # 'F#m' -> (3, 'minor')
_MODE_WORD = {"maj": "major", "major": "major", "min": "minor", "minor": "minor", "m": "minor", "": "major"}
_KEY_COMP = re.compile(r"^([A-Ga-g])\s*([#b]?|n)\s*([A-Za-z]*)$")


def _one_key(text):
    m = _KEY_COMP.match(text.strip())
    if not m:
        return None
    step, acc, word = m.groups()
    if word.lower() not in _MODE_WORD:
        return None
    mode = _MODE_WORD[word.lower()]
    name = step.upper() + acc.replace("n", "") + ("m" if mode == "minor" else "")
    return KEY_OF_NAME.get(name)


def parse_key(text):
    """Key text in any of the spellings
         1.0.0      'Bb', 'F#m', 'C/Am'
         0.3–0.5    'Bb Maj', 'F# min', '[C Maj]', '[C Maj,G Maj]', 'C Maj/A min'
         0.1–0.2    '[bb,major]', '[cn,minor]', '[f#,minor]'
    -> list of components, each ((fifths, mode), (fifths_alt, mode_alt)|None); None if unreadable."""
    s = text.strip()
    if s.startswith("[") and s.endswith("]"):
        s = s[1:-1]
    parts = [p.strip() for p in s.split(",")]
    if len(parts) == 2 and parts[1].lower() in ("major", "minor", "maj", "min"):
        k = _one_key(parts[0] + " " + parts[1])
        return None if k is None else [(k, None)]
    out = []
    for p in parts:
        alts = p.split("/")
        if len(alts) > 2:
            return None
        ks = [_one_key(a) for a in alts]
        if any(k is None for k in ks):
            return None
        out.append((ks[0], ks[1] if len(ks) == 2 else None))
    return out


def parse_timesig(text):
    """'3/4', '[3/4]', '[4/4,2/2]' -> [(3, 4), ...] or None."""
    s = text.strip()
    if s.startswith("[") and s.endswith("]"):
        s = s[1:-1]
    out = []
    for p in s.split(","):
        c = parse_duration(p.strip())
        if c is None or len(c) != 1 or c[0][2] is not None:
            return None
        out.append((c[0][0], c[0][1]))
    return out


# ----------------------------------------------------------------- canonical values
def norm(v):
    """Canonical rendering; two field values are 'equal' iff their renderings are."""
    if v is None or isinstance(v, str):
        return v
    if isinstance(v, bool):
        return ["bool", v]
    if isinstance(v, tuple) and hasattr(v, "major") and hasattr(v, "patch"):
        return ["version", int(v.major), int(v.minor), int(v.patch)]
    if isinstance(v, (list, tuple)):
        return [norm(x) for x in v]
    if hasattr(v, "fifths") and hasattr(v, "mode"):
        return ["key", v.fifths, v.mode, v.fifths_alt, v.mode_alt, [norm(c) for c in (v.other_components or [])]]
    if hasattr(v, "numerator") and hasattr(v, "other_components"):
        return ["timesig", int(v.numerator), int(v.denominator), [norm(c) for c in (v.other_components or [])]]
    if hasattr(v, "numerator") and hasattr(v, "tuple_div"):
        n, d, t, comps = fsd_parts(v)
        return ["dur", n, d, t, None if comps is None else [list(c) for c in comps]]
    if hasattr(v, "is_list") and hasattr(v, "value"):
        return ["tempo", v.value]
    if isinstance(v, float):
        return v
    try:
        import numbers
        if isinstance(v, numbers.Integral):
            return int(v)
        if isinstance(v, numbers.Real):
            return float(v)
    except Exception:
        pass
    return ["?", type(v).__name__, repr(v)]


def on_grid(x, d):
    """The float x is what a text with d decimals denotes (so writing d decimals loses nothing)."""
    if d is None:
        return x == x and x not in (float("inf"), float("-inf"))
    q = Decimal(x).quantize(Decimal(1).scaleb(-d))
    return float(q) == x


# ----------------------------------------------------------------- line kinds
V1 = (1, 0, 0)
SUBS = {                     # composite kind -> sub-line attributes (kind of the sub-line)
    "snote_note": (("snote", "snote"), ("note", "note")),
    "deletion": (("snote", "snote"),),
    "trailing_score_note": (("snote", "snote"),),
    "no_played_note": (("snote", "snote"),),
    "insertion": (("note", "note"),),
    "hammer_bounce": (("note", "note"),),
    "trailing_played_note": (("note", "note"),),
    "ornament": (("note", "note"),),
    "trill": (("note", "note"),),
    "stime_ptime": (("stime", "stime"), ("ptime", "ptime")),
}
SNOTE_FIELDS = ("Anchor", "NoteName", "Modifier", "Octave", "Measure", "Beat", "Offset", "Duration",
                "OnsetInBeats", "OffsetInBeats", "ScoreAttributesList")


def fields(kind, version):
    """Own fields of a line kind (sub-lines are compared through SUBS)."""
    v = tuple(version)
    if kind == "info":
        return ("Attribute", "Value")
    if kind == "scoreprop":
        return ("Attribute", "Value", "Measure", "Beat", "Offset", "TimeInBeats")
    if kind == "meta":
        return ("Attribute", "Value", "Measure", "TimeInBeats")
    if kind == "section":
        return ("StartInBeatsUnfolded", "EndInBeatsUnfolded", "StartInBeatsOriginal", "EndInBeatsOriginal",
                "RepeatEndType")
    if kind == "stime":
        return ("Measure", "Beat", "Offset", "OnsetInBeats", "AnnotationType")
    if kind == "ptime":
        return ("Onsets",)
    if kind == "snote":
        return SNOTE_FIELDS
    if kind == "note":
        if v >= V1:
            return ("Id", "MidiPitch", "Onset", "Offset", "Velocity", "Channel", "Track")
        if v >= (0, 3, 0):
            return ("Id", "NoteName", "Modifier", "Octave", "Onset", "Offset", "AdjOffset", "Velocity", "MidiPitch")
        return ("Id", "NoteName", "Modifier", "Octave", "Onset", "Offset", "Velocity", "MidiPitch")
    if kind == "ornament":
        return ("Anchor", "OrnamentType")
    if kind == "trill":
        return ("Anchor",)
    if kind in ("sustain", "soft"):
        return ("Time", "Value")
    return ()


TOP_LEVEL = {"info", "scoreprop", "meta", "section", "stime_ptime", "snote_note", "deletion", "trailing_score_note",
             "no_played_note", "insertion", "hammer_bounce", "trailing_played_note", "ornament", "trill", "sustain",
             "soft"}


def decimals(kind, version, field):
    """Decimals kept for a float field by the format of that version (None: shortest repr)."""
    v = tuple(version)
    if v >= V1:
        return 4
    if kind == "snote" and field in ("OnsetInBeats", "OffsetInBeats"):
        return 5 if v < (0, 3, 0) else None
    if kind == "note" and field in ("Onset", "Offset"):
        return 2 if v < (0, 3, 0) else None
    return None


# what a pre-1.0 kind becomes in 1.0.0 (the 1.0.0 format has no variants of insertion/deletion, no trill kind)
UPGRADE_KIND = {
    "snote": "snote", "note": "note", "snote_note": "snote_note",
    "deletion": "deletion", "trailing_score_note": "deletion", "no_played_note": "deletion",
    "insertion": "insertion", "hammer_bounce": "insertion", "trailing_played_note": "insertion",
    "trill": "ornament", "ornament": "ornament", "sustain": "sustain", "soft": "soft", "meta": "scoreprop",
}
V1_INFO_ATTRS = {"matchFileVersion", "piece", "scoreFileName", "scoreFilePath", "midiFileName", "midiFilePath",
                 "audioFileName", "audioFilePath", "audioFirstNote", "audioLastNote", "performer", "composer",
                 "midiClockUnits", "midiClockRate", "approximateTempo", "subtitle"}
V1_SCOREPROP_ATTRS = {"timeSignature", "keySignature", "tempoIndication", "beatSubDivision", "directions"}
ATTR_RENAMED = {"midiFilename": "midiFileName", "beatSubdivision": "beatSubDivision"}
