"""Hostile note arrays for C17 (pitch spelling, voice and key estimation) and
MIDI files built from them.

Rows are (onset, duration, pitch) with exact `Fraction` times on a musical grid;
`to_array` turns them into the structured arrays the library accepts, in score
units (beat / quarter as f4, div as int) or performance units (sec as f4, tick
as int).  Everything is a deterministic function of the `random.Random` passed in.
"""
import math
from fractions import Fraction

import numpy as np

F = Fraction
STYLES = ["melody", "chords", "poly", "random", "cluster", "zeros", "allzero", "arpeggio", "samepitch", "overlapchain"]
UNITS = ["beat", "quarter", "div", "sec", "tick"]
MAJOR = [0, 2, 4, 5, 7, 9, 11]
MINOR = [0, 2, 3, 5, 7, 8, 10, 11]     # natural minor plus the leading note


class PitchChooser:
    """tonal: notes of one key, tonic triad favoured (clear key); chromatic: uniform;
    narrow: a few adjacent semitones; edges: the extremes of the allowed range."""

    def __init__(self, rng, lo, hi, kind=None):
        self.rng, self.lo, self.hi = rng, lo, hi
        self.kind = kind or rng.choice(["tonal", "tonal", "tonal", "chromatic", "narrow", "edges", "pentachord"])
        self.tonic = rng.randrange(12)
        self.minor = rng.random() < 0.5
        scale = MINOR if self.minor else MAJOR
        triad = [0, 3 if self.minor else 4, 7]
        self.weights = {}
        for pc in scale:
            self.weights[(self.tonic + pc) % 12] = 5 if pc in triad else (1 if pc == 11 and self.minor else 2)
        # a window that leaves room for transposition and octave shifts
        span = rng.choice([12, 19, 24, 36, hi - lo])
        self.wlo = rng.randint(lo, max(lo, hi - span))
        self.whi = min(hi, self.wlo + span)
        self.center = rng.randint(self.wlo, self.whi)
        self.last = self.center

    def pick(self, near=None):
        rng = self.rng
        k = self.kind
        if k == "chromatic":
            return rng.randint(self.wlo, self.whi)
        if k == "narrow":
            return min(self.hi, max(self.lo, self.center + rng.randint(-2, 2)))
        if k == "edges":
            return rng.choice([self.lo, self.lo + 1, self.hi, self.hi - 1, rng.randint(self.lo, self.hi)])
        if k == "pentachord":
            return min(self.hi, max(self.lo, self.center + rng.choice([0, 2, 4, 5, 7])))
        cands = [p for p in range(self.wlo, self.whi + 1) if p % 12 in self.weights]
        if not cands:
            return rng.randint(self.wlo, self.whi)
        if near is not None and rng.random() < 0.7:
            close = [p for p in cands if abs(p - near) <= 4]
            if close:
                cands = close
        w = [self.weights[p % 12] for p in cands]
        return rng.choices(cands, weights=w)[0]


def _dur(rng, grid):
    return F(rng.choice([1, 1, 1, 2, 2, 3, 4, 6, 8]), grid)


def make_rows(rng, n, lo=21, hi=108, style=None, zero_p=None, pitch_kind=None):
    """n rows (onset, duration, pitch); returns (rows, info)."""
    style = style or rng.choice(STYLES)
    grid = rng.choice([1, 2, 4, 4, 8, 16, 3, 12])
    pc = PitchChooser(rng, lo, hi, pitch_kind)
    if zero_p is None:
        zero_p = rng.choice([0, 0, 0, 0.05, 0.15, 0.4])
    rows = []
    t = F(rng.choice([0, 0, 0, 1, 5, -2]), 1)
    if style == "melody":
        p = pc.pick()
        while len(rows) < n:
            d = _dur(rng, grid)
            p = pc.pick(p)
            rows.append((t, d, p))
            t += d if rng.random() < 0.85 else d + _dur(rng, grid)
    elif style == "arpeggio":
        # broken chords held over each other (polyphony grows and shrinks note by note)
        while len(rows) < n:
            k = rng.randint(2, 5)
            step = F(1, grid)
            base = pc.pick()
            for j in range(k):
                if len(rows) < n:
                    rows.append((t + j * step, (k - j) * step + (step if rng.random() < 0.3 else 0), pc.pick(base + 3 * j)))
            t += k * step
    elif style == "chords":
        while len(rows) < n:
            k = rng.randint(1, 5)
            d = _dur(rng, grid)
            seen = set()
            for _ in range(k):
                p = pc.pick()
                if (p in seen and rng.random() < 0.8) or len(rows) >= n:
                    continue
                seen.add(p)
                rows.append((t, d, p))
            if rng.random() < 0.3 and len(rows) < n:      # same onset, different duration: not the same chord
                rows.append((t, d + F(1, grid), pc.pick()))
            t += d if rng.random() < 0.8 else d / 2 if rng.random() < 0.5 else 2 * d
    elif style == "poly":
        v = rng.randint(2, 5)
        per = [n // v + (1 if i < n % v else 0) for i in range(v)]
        for i, m in enumerate(per):
            tt = t + F(rng.choice([0, 0, 1, 2]), grid)
            p = pc.pick()
            for _ in range(m):
                d = _dur(rng, grid)
                p = pc.pick(p)
                rows.append((tt, d, p))
                tt += d if rng.random() < 0.9 else 2 * d
    elif style == "random":
        T = max(4, n // rng.choice([1, 2, 4, 8]))
        for _ in range(n):
            rows.append((t + F(rng.randint(0, T * grid), grid), F(rng.randint(0 if zero_p else 1, 4 * grid), grid), pc.pick()))
    elif style == "cluster":
        k = rng.randint(1, 3)
        ons = [t + F(i * rng.randint(1, 4), grid) for i in range(k)]
        for _ in range(n):
            rows.append((rng.choice(ons), _dur(rng, grid) if rng.random() < 0.7 else F(1, grid), pc.pick()))
    elif style == "samepitch":
        p = pc.pick()
        while len(rows) < n:
            d = _dur(rng, grid)
            rows.append((t, d, p if rng.random() < 0.9 else pc.pick()))
            t += d * rng.choice([F(1, 2), 1, 1, 2])
    elif style == "overlapchain":
        # each note starts before the previous one ends
        while len(rows) < n:
            d = _dur(rng, grid) + F(1, grid)
            rows.append((t, d, pc.pick()))
            t += F(rng.randint(1, max(1, int(d * grid) - 1)), grid)
    elif style == "allzero":
        while len(rows) < n:
            rows.append((t, F(0), pc.pick()))
            if rng.random() < 0.6:
                t += F(1, grid)
        zero_p = 0
    elif style == "zeros":
        p = pc.pick()
        while len(rows) < n:
            d = _dur(rng, grid)
            r = rng.random()
            if r < 0.15:                       # grace note alone at its onset, before the next note
                rows.append((t, F(0), pc.pick(p)))
                t += F(1, grid)
            elif r < 0.3:                      # grace note(s) together with a main note
                for _ in range(rng.randint(1, 2)):
                    rows.append((t, F(0), pc.pick(p)))
            elif r < 0.35:                     # two grace notes alone
                rows.append((t, F(0), pc.pick(p)))
                rows.append((t, F(0), pc.pick(p)))
                t += F(1, grid)
            if len(rows) < n:
                p = pc.pick(p)
                rows.append((t, d, p))
                t += d
        rows = rows[:n]
        if rng.random() < 0.5:                 # a grace note alone at the very end / very beginning
            rows[-1] = (t + 1, F(0), rows[-1][2])
        if rng.random() < 0.3:
            rows[0] = (rows[0][0] - 1, F(0), rows[0][2])
        zero_p = 0
    else:
        raise ValueError(style)
    rows = rows[:n]
    if zero_p:
        rows = [(o, F(0) if rng.random() < zero_p else d, p) for o, d, p in rows]
    dup = 0
    if rng.random() < 0.2 and len(rows) >= 2:   # exact duplicate rows
        for _ in range(rng.randint(1, 3)):
            i = rng.randrange(len(rows))
            rows[rng.randrange(len(rows))] = rows[i]
            dup += 1
    order = rng.choice(["shuffled", "shuffled", "sorted", "reversed", "bypitch"])
    if order == "shuffled":
        rng.shuffle(rows)
    elif order == "sorted":
        rows.sort(key=lambda r: (r[0], r[2]))
    elif order == "reversed":
        rows.sort(key=lambda r: (r[0], r[2]), reverse=True)
    else:
        rows.sort(key=lambda r: (r[2], -r[0]))
    info = {"style": style, "grid": grid, "pitch_kind": pc.kind, "order": order, "dup": dup,
            "key": f"{pc.tonic}{'m' if pc.minor else ''}" if pc.kind == "tonal" else None}
    return rows, info


def to_array(rng, rows, unit=None, extra_fields=True):
    """Structured array in the given unit. Score units keep the grid value (f4) or
    an integer number of divisions; `sec` multiplies by a tempo factor (values are
    whatever f4 makes of them); `tick` is an integer number of ticks."""
    unit = unit or rng.choice(UNITS)
    if unit in ("div", "tick"):
        den = 1
        for o, d, _ in rows:
            for x in (o, d):
                den = den * x.denominator // math.gcd(den, x.denominator)
        ppq = int(den) * rng.choice([1, 1, 2, 4, 10, 120])
        conv = lambda x: int(x * ppq)                       # noqa: E731
        tdt = "i4" if rng.random() < 0.5 else "i8"
    elif unit == "sec":
        fac = rng.choice([0.5, 0.4637, 1.0, 0.25, 0.61803, 1.333])
        conv = lambda x: float(x) * fac                     # noqa: E731
        tdt = "f4"
    else:
        conv = float
        tdt = "f4" if rng.random() < 0.8 else "f8"
    fields = [("onset_" + unit, tdt), ("duration_" + unit, tdt), ("pitch", "i4")]
    cols = [[conv(o) for o, _, _ in rows], [conv(d) for _, d, _ in rows], [p for _, _, p in rows]]
    if extra_fields:
        r = rng.random()
        if r < 0.25:
            fields.append(("id", "U8")); cols.append([f"n{i}" for i in range(len(rows))])
        elif r < 0.4:
            fields.append(("velocity", "i4")); cols.append([rng.randint(1, 127) for _ in rows])
        elif r < 0.5:
            fields.insert(0, ("voice", "i4")); cols.insert(0, [1] * len(rows))
        elif r < 0.65 and unit in ("beat", "quarter", "div"):
            # performance columns next to the score columns (the documentation says the score columns are used)
            fields.append(("onset_sec", "f4")); cols.append([rng.uniform(0, 50) for _ in rows])
            fields.append(("duration_sec", "f4")); cols.append([rng.choice([0.0, 0.3, 1.7, rng.uniform(0, 3)]) for _ in rows])
    arr = np.zeros(len(rows), dtype=fields)
    for (name, _), col in zip(fields, cols):
        arr[name] = col
    return arr, unit


# ---------------------------------------------------------------------- MIDI
def rows_to_ticks(rows, ppq_mult=1):
    den = 1
    for o, d, _ in rows:
        for x in (o, d):
            den = den * x.denominator // math.gcd(den, x.denominator)
    ppq = int(den) * ppq_mult
    base = min(o for o, _, _ in rows)
    return [(int((o - base) * ppq), int(d * ppq), p) for o, d, p in rows], ppq


def build_midi(rng, tick_rows, ppq, path, n_tracks=None, meta=True):
    """Write a type-1 MIDI file that contains exactly `tick_rows` (onset, duration,
    pitch) as notes.  Notes of one (track, channel, pitch) never overlap or touch
    (such files do not determine their notes); a row that cannot be placed is
    dropped.  Returns the list of rows actually written with their (track, channel)."""
    import mido
    n_tracks = n_tracks or rng.choice([1, 1, 2, 3])
    n_ch = rng.choice([1, 1, 2, 4])
    occupied = {}            # (track, channel, pitch) -> list of (on, off)
    placed = []
    for on, dur, p in tick_rows:
        off = on + dur
        slots = [(tr, ch) for tr in range(n_tracks) for ch in range(n_ch)]
        first = slots[rng.randrange(len(slots))]
        slots.remove(first)
        for tr, ch in [first] + slots:
            iv = occupied.setdefault((tr, ch, p), [])
            if all(off < a or on > b for a, b in iv):
                iv.append((on, off))
                placed.append((on, dur, p, tr, ch))
                break
    mid = mido.MidiFile(type=1, ticks_per_beat=ppq)
    meta_track = mido.MidiTrack()
    with_meta_track = meta and rng.random() < 0.6
    if with_meta_track:
        meta_track.append(mido.MetaMessage("set_tempo", tempo=rng.choice([500000, 400000, 750000]), time=0))
        num, den = rng.choice([(4, 4), (3, 4), (6, 8), (2, 2), (5, 8)])
        meta_track.append(mido.MetaMessage("time_signature", numerator=num, denominator=den, time=0))
        if rng.random() < 0.7:
            meta_track.append(mido.MetaMessage("key_signature", key=rng.choice(["C", "G", "F", "Am", "Ebm", "F#", "Bb"]), time=0))
        mid.tracks.append(meta_track)
    for tr in range(n_tracks):
        events = []
        for on, dur, p, t_, ch in placed:
            if t_ != tr:
                continue
            vel = rng.randint(1, 127)
            off_msg = rng.random() < 0.5
            if dur == 0:
                events.append((on, 1, len(events), [("note_on", ch, p, vel), ("note_off", ch, p, 0) if off_msg else ("note_on", ch, p, 0)]))
            else:
                events.append((on, 2, len(events), [("note_on", ch, p, vel)]))
                events.append((on + dur, 0, len(events), [("note_off", ch, p, 0) if off_msg else ("note_on", ch, p, 0)]))
        events.sort(key=lambda e: (e[0], e[1], e[2]))
        track = mido.MidiTrack()
        if meta and not with_meta_track and tr == 0 and rng.random() < 0.5:
            track.append(mido.MetaMessage("time_signature", numerator=3, denominator=4, time=0))
        if rng.random() < 0.3:
            track.append(mido.MetaMessage("track_name", name=f"T{tr}", time=0))
        now = 0
        for tick, _, _, msgs in events:
            for typ, ch, p, vel in msgs:
                track.append(mido.Message(typ, channel=ch, note=p, velocity=vel, time=tick - now))
                now = tick
        if events or rng.random() < 0.5:
            mid.tracks.append(track)
    mid.save(path)
    return placed
