"""Workload for C08: a single-divisions score part (workloads.gen_score), a performed part aligned to it
and an arbitrary labelled alignment; plus corruption of written match files with duplicate ids.

make_case(rng, size, ...) -> Case with
    part, meta        the score part (public API only) and gen_score's meta
    perf              JSON spec: {"notes": [...], "controls": [...], "ppq", "mpq"}
    alignment         list of dicts as partitura documents them
    klass             'complete' (every score note matched or deleted, every performed note matched,
                      inserted or an ornament), 'uncovered' (some notes not mentioned), 'few-matches'
                      (0 or 1 matched onsets)
"""
from fractions import Fraction

from . import gen_score

PPQ_MPQ = [(480, 500000), (480, 500000), (96, 500000), (960, 250000), (1000, 612244), (4000, 500000), (24, 1000000),
           (384, 428571), (1, 500000), (10000, 333333)]
ORNAMENT_TYPES = ["trill", "mordent", "turn", "grace", "arpeggio", "generic_ornament"]
FEATURES = ["chords", "ties", "graces", "tuplets", "rests", "multivoice", "multistaff", "pickup", "ts_changes", "keys",
            "articulations", "fermata", "clefs"]
DIVS = [1, 2, 3, 4, 5, 6, 7, 8, 12, 16, 24, 480, 960, 14, 21, 35]
QUARTER_METERS = [(4, 4), (3, 4), (2, 4), (5, 4)]
OTHER_METERS = [(6, 8), (9, 8), (12, 8), (5, 8), (7, 8), (3, 8), (3, 2), (2, 2)]


class Case:
    pass


def head_notes(part):
    import partitura.score as S
    out = []
    for tp in part._points:
        for c, objs in tp.starting_objects.items():
            if objs and issubclass(c, S.Note):
                out.extend(o for o in objs if o.tie_prev is None)
    return out


def _time(rng, ppq, mpq, around):
    """A float time in seconds near `around`: free, exactly on a tick, or next to a half tick."""
    around = max(around, 0.0)
    r = rng.random()
    tick = Fraction(mpq, 10**6 * ppq)
    if r < 0.55:
        return around + rng.random() * 0.05
    k = int(Fraction(around) / tick) + rng.randint(0, 3)
    if r < 0.8:
        return float(k * tick)
    return max(0.0, float((2 * k + 1) * tick / 2) + rng.choice([0.0, 1e-9, -1e-9, 1e-6, -1e-6]) * float(tick))


def make_perf_and_alignment(rng, part, klass="complete", pid_style="n", n_pedals=None, ppq_mpq=None,
                            p_labels=(0.62, 0.2), ornament_rate=0.15, insertion_rate=0.15):
    ppq, mpq = ppq_mpq or rng.choice(PPQ_MPQ)
    heads = head_notes(part)
    q = int(part.quarter_durations()[0][1])
    spq = rng.choice([0.3, 0.5, 0.75, 1.0])               # seconds per quarter of the 'performance'
    notes, alignment = [], []
    counter = [0]

    def new_pid():
        k = counter[0]
        counter[0] += 1
        if pid_style == "n":
            return f"n{k}"
        if pid_style == "num":
            return str(k)
        return f"p{k}"

    def pnote(at, pitch, dur=None):
        on = _time(rng, ppq, mpq, at)
        off = _time(rng, ppq, mpq, on + (dur if dur is not None else rng.uniform(0.02, 1.2)))
        if off < on:
            off = on
        n = {"id": new_pid(), "midi_pitch": int(pitch), "note_on": on, "note_off": off,
             "velocity": rng.randint(1, 127), "track": rng.choice([0, 0, 1]), "channel": rng.choice([0, 0, 1, 9])}
        notes.append(n)
        return n

    p_match, p_del = p_labels
    if klass == "few-matches":
        allowed = rng.choice([0, 1])
    matched = []
    for h in heads:
        at = 0.5 + spq * (h.start.t / q) + rng.uniform(-0.03, 0.03)
        r = rng.random()
        if klass == "few-matches":
            r = 0.0 if len(matched) < allowed else 0.9
        if r < p_match:
            pitch = h.midi_pitch if rng.random() < 0.9 else max(0, min(127, h.midi_pitch + rng.choice([-12, -1, 1, 12])))
            n = pnote(at, pitch)
            alignment.append({"label": "match", "score_id": h.id, "performance_id": n["id"]})
            matched.append(h)
        elif r < p_match + p_del or klass != "uncovered":
            alignment.append({"label": "deletion", "score_id": h.id})
        # else: the score note is not mentioned at all ('uncovered')
        if rng.random() < ornament_rate:
            n = pnote(at + rng.uniform(-0.1, 0.1), rng.randint(21, 108), dur=rng.uniform(0.02, 0.2))
            alignment.append({"label": "ornament", "score_id": h.id, "performance_id": n["id"],
                              "type": rng.choice(ORNAMENT_TYPES)})
        if rng.random() < insertion_rate:
            n = pnote(at + rng.uniform(-0.3, 0.3), rng.randint(21, 108))
            alignment.append({"label": "insertion", "performance_id": n["id"]})
    if klass == "uncovered":
        for _ in range(rng.randint(1, 3)):
            pnote(rng.uniform(0, 3), rng.randint(21, 108))        # performed notes no alignment entry mentions
    end = max([n["note_off"] for n in notes] + [1.0])
    if n_pedals is None:
        n_pedals = rng.choice([0, 0, 1, 2, 5, 12, 40])
    controls = []
    for _ in range(n_pedals):
        number = rng.choice([64, 64, 64, 67, 67, 1, 7])
        controls.append({"number": number, "time": _time(rng, ppq, mpq, rng.uniform(0, end + 0.5)),
                         "value": rng.choice([0, 127, 64, 63, rng.randint(0, 127)]), "track": 0, "channel": 0})
    if controls and rng.random() < 0.3:
        c = dict(rng.choice(controls))                   # an exact repetition of an event (continuous pedals repeat values)
        controls.append(c)
    if rng.random() < 0.7:
        controls.sort(key=lambda c: c["time"])
    rng.shuffle(alignment)
    if rng.random() < 0.5:
        rng.shuffle(notes)
    return {"notes": notes, "controls": controls, "ppq": ppq, "mpq": mpq}, alignment


def build_ppart(perf):
    from partitura.performance import PerformedPart
    return PerformedPart([dict(n) for n in perf["notes"]], id="P1", part_name="perf",
                         controls=[dict(c) for c in perf["controls"]], ppq=perf["ppq"], mpq=perf["mpq"])


def rename_ids(part, style):
    """Score note ids in other customary forms: plain numbers (old match files), n<k>-<r> (unfolded scores)."""
    if style == "default":
        return
    import partitura.score as S
    k = 0
    for tp in part._points:
        for c, objs in tp.starting_objects.items():
            if objs and issubclass(c, S.Note):
                for o in objs:
                    k += 1
                    o.id = str(k) if style == "numeric" else f"n{k}-{1 + k % 2}"


def make_case(rng, size="small", klass=None, meters=None, features=None, divs=None, id_style=None):
    c = Case()
    if features is None:
        features = [f for f in FEATURES if rng.random() < 0.5]
    if meters is None:
        r = rng.random()
        meters = QUARTER_METERS if r < 0.3 else (OTHER_METERS if r < 0.6 else QUARTER_METERS + OTHER_METERS)
    n_measures = {"tiny": rng.randint(1, 2), "small": rng.randint(2, 5), "large": rng.randint(5, 12)}[size]
    if divs is None:
        divs = rng.choice(DIVS)
    if n_measures == 1:
        features = [f for f in features if f != "pickup"]     # a lone pickup bar would be a truncated final measure
    part, meta = gen_score.make_part(rng, "P1", features=features, divs=divs, meters=meters, n_measures=n_measures,
                                     voices=(rng.randint(2, 3) if "multivoice" in features else 1),
                                     voice_base=rng.choice([0, 0, 0, 4, 9]), max_alter=rng.choice([1, 1, 2]))
    if rng.random() < 0.08:
        # a part of many staves (an organ or orchestral reduction): staff numbers of two digits
        import partitura.score as S_
        for tp in part._points:
            for objs in tp.starting_objects.values():
                for o in objs:
                    if isinstance(getattr(o, "staff", None), int):
                        o.staff += 9
    c.unquantised = False
    if divs in (480, 960) and rng.random() < 0.35:
        # an unquantised score (as read from MIDI): some notes end a few divisions early
        import partitura.score as S_
        for n_ in list(part.iter_all(S_.Note)):
            d_ = n_.end.t - n_.start.t
            if n_.tie_next is None and n_.tie_prev is None and d_ > 16 and rng.random() < 0.3:
                new_end = n_.end.t - rng.randint(1, 7)
                part.remove(n_, "end")
                part.add(n_, end=new_end)
                n_.symbolic_duration = None
                c.unquantised = True
    if divs in (7, 14, 21, 35) and rng.random() < 0.6:
        # septuplet grids: a long note that ends on an odd division (a half note tied into part of a septuplet, written as one
        # duration whose fraction of a whole note has a long odd numerator, e.g. 61/56)
        import math
        import partitura.score as S_
        for n_ in list(part.iter_all(S_.Note)):
            d_ = n_.end.t - n_.start.t
            if n_.tie_next is None and n_.tie_prev is None and d_ > 45 and rng.random() < 0.5:
                cands_ = [x for x in range(41, d_) if math.gcd(x, 4 * divs) == 1]
                if cands_:
                    new_end = n_.start.t + rng.choice(cands_)
                    part.remove(n_, "end")
                    part.add(n_, end=new_end)
                    n_.symbolic_duration = None
    if rng.random() < 0.1:
        # the part counts in musical beats (dotted quarters in 6/8): the file still counts beats of the denominator
        part.use_musical_beat()
    c.id_style = id_style or rng.choices(["default", "numeric", "suffixed"], [0.7, 0.15, 0.15])[0]
    rename_ids(part, c.id_style)
    c.part, c.meta, c.features = part, meta, features
    c.klass = klass or rng.choices(["complete", "uncovered", "few-matches"], [0.86, 0.07, 0.07])[0]
    c.pid_style = rng.choices(["n", "num", "p"], [0.7, 0.15, 0.15])[0]
    c.perf, c.alignment = make_perf_and_alignment(rng, part, c.klass, c.pid_style)
    return c


# --------------------------------------------------------------------------- duplicate-id corruption of a written file
def corrupt(rng, text):
    """Inject duplicate ids into the note lines of a written (v1.0.0) match file.
    -> (new text, list of what was injected)"""
    lines = text.splitlines()
    idx_match = [i for i, l in enumerate(lines) if l.startswith("snote(") and "-note(" in l]
    idx_del = [i for i, l in enumerate(lines) if l.endswith("-deletion.")]
    idx_ins = [i for i, l in enumerate(lines) if l.startswith("insertion-")]
    idx_ped = [i for i, l in enumerate(lines) if l.startswith("sustain(") or l.startswith("soft(")]
    done = []
    extra = []
    for _ in range(rng.randint(1, 5)):
        kind = rng.choice(["textual", "textual-pedal", "match+deletion", "match+insertion", "deletion-twice",
                           "insertion-twice", "match-twice", "empty"])
        if kind == "textual" and (idx_match or idx_del or idx_ins):
            i = rng.choice(idx_match + idx_del + idx_ins)
            extra.append((rng.randint(0, len(lines)), lines[i]))
        elif kind == "textual-pedal" and idx_ped:
            extra.append((rng.randint(0, len(lines)), lines[rng.choice(idx_ped)]))
        elif kind == "match+deletion" and idx_match:
            l = lines[rng.choice(idx_match)]
            extra.append((rng.randint(0, len(lines)), l[: l.index(")-note(") + 1] + "-deletion."))
        elif kind == "match+insertion" and idx_match:
            l = lines[rng.choice(idx_match)]
            extra.append((rng.randint(0, len(lines)), "insertion-" + l[l.index(")-note(") + 2:]))
        elif kind == "deletion-twice" and idx_del:
            l = lines[rng.choice(idx_del)]
            # same score id, textually different (another attribute list)
            extra.append((rng.randint(0, len(lines)), l.replace("])-deletion.", ",dup])-deletion.") if "[]" not in l[-14:]
                          else l.replace("[])-deletion.", "[dup])-deletion.")))
        elif kind == "insertion-twice" and idx_ins:
            l = lines[rng.choice(idx_ins)]
            body = l[len("insertion-note("):-2].split(",")
            body[4] = str((int(body[4]) % 127) + 1)       # same id, another velocity
            extra.append((rng.randint(0, len(lines)), "insertion-note(" + ",".join(body) + ")."))
        elif kind == "match-twice" and idx_match:
            l = lines[rng.choice(idx_match)]
            head, tail = l[: l.index(")-note(") + 2], l[l.index(")-note(") + 2:]
            body = tail[len("note("):-2].split(",")
            body[0] = body[0] + "x"                        # same score note, another performed note
            extra.append((rng.randint(0, len(lines)), head + "note(" + ",".join(body) + ")."))
        elif kind == "empty":
            extra.append((rng.randint(0, len(lines)), ""))
        else:
            continue
        done.append(kind)
    for pos, l in sorted(extra, key=lambda x: -x[0]):
        pos = max(pos, 1)                                  # never before the version line
        lines.insert(pos, l)
    return "\n".join(lines) + "\n", done
