"""C08 — saving an alignment as a match file and loading it returns the same data.

Three monitors on the real functions:

* post-condition on `save_match` (path form): reads the written text with an independent
  regex reader (writer side), then loads the file with `load_match(create_score=True)` and
  compares alignment, performance and score with what was saved (exact beats, nearest ticks);
* post-condition on `load_matchfile`: line conservation — every parseable note line appears
  once, textual duplicates once, only the documented drops (conflicting deletions/insertions);
* post-condition on `load_match`: every kept note line is one alignment entry, one performed
  note and (with create_score) one score note.

The driver generates single-divisions scores (gen_score) with performed parts aligned by
arbitrary labelled alignments, corrupts written files with duplicate ids, and runs the
fixture files through load -> save -> load.
"""
import collections
import copy
import os
import shutil
import tempfile
from fractions import Fraction

from vmon import core
from vmon.refmodels import c08_match as R
from vmon.refmodels import pitch as P

PROP = "C08"
RULE = ("seeded single-part scores with one divisions value and a complete final measure (gen_score: pickups, barline meter "
        "changes between quarter and non-quarter meters, ties over barlines, grace notes, chords, tuplets, 1-3 voices (numbers up to "
        "12) and staves, key changes incl. mid-bar, articulations, double accidentals; note ids P1n<k>, <k>, n<k>-<r>) x performed "
        "parts aligned by shuffled alignments mixing match / deletion / insertion / ornament entries (classes: complete, some notes "
        "unmentioned, 0-1 matches; performed ids n<k>, <k>, p<k>) x ppq/mpq pairs x pedal streams of length 0..40 (controllers 64, 67 "
        "and others; times free, on ticks, next to half ticks) x argument forms (Part/Score/list, PerformedPart/Performance/list) x "
        "assume_unfolded on/off. Three routes: save_match -> load_match; a file written by the reference writer (left- or "
        "right-aligned pickup) -> load_match (reader alone); written files corrupted with duplicate ids (textual copies, "
        "match+deletion, match+insertion, double deletions/insertions/matches, empty lines) -> load_match; plus the three fixture "
        "files loaded, saved and loaded again, and corrupted. A case is one round trip or one load; non-trivial = all four alignment "
        "labels present and (a tie, a non-quarter meter, a meter change or a pickup) -- for loads of corrupted files: at least one "
        "duplicate actually resolved; distinct by (route, score digest, performance+alignment digest) / file digest")
ASSUMPTIONS = ["reference model vmon/refmodels/c08_match.py: exact beats (beat 0 at the first barline after a pickup), nearest tick "
               "with exact-half (+-1e-6 tick) as don't-care, supported articulations = staccato and accent; in the file, beats are "
               "units of the time signature's denominator (as in the historical fixture files and as the reader takes them)",
               "score positions are compared exactly in quarters counted from the first saved note that came back; equal notes, "
               "barlines and signatures then imply equal beats, which is checked last with tolerance 5e-5 beat (four decimals)",
               "don't-care: notes no alignment entry mentions and bars/signatures only they delimit; measures that start after the last "
               "note ended; the part of a bar before the first note; the end of a pickup bar when the next bar has no note onset; "
               "exactly repeated pedal events (identical lines are read once); two signatures of one bar; ids occurring twice",
               "performed ids compared after the documented n-prefixing; with assume_unfolded=False score ids carry the documented "
               "-1 suffix; alignment entries compared as a multiset (order is not part of the statement); bar numbers may start anywhere",
               "redundant restatements of the signature in force are not counted as signatures",
               f"a load that does not return within LOAD_BUDGET_S seconds is reported as non-terminating (normal loads take < 0.5 s)"]
MIN_HOOKS = {"save_match": {"quick": 800, "thorough": 35000}, "load_matchfile": {"quick": 1800, "thorough": 80000},
             "load_match": {"quick": 1800, "thorough": 80000}}
MIN_NONTRIVIAL = {"quick": 500, "thorough": 20000}
ITEM_TIMEOUT_S = 240
LOAD_BUDGET_S = 6          # a load takes well under a second; floats in the timeline make tie_notes loop forever

BEAT_TOL = Fraction(5, 10**5)
_hooks = []
FIXTURES = ["Chopin_op10_no3_p01.match", "mozart_k265_var1.match", "test_fuer_elise.match"]


_seen_keys = collections.Counter()


def V(key, what, witness=None):
    """One witness per mechanism and worker (the runner writes one replay file per witness)."""
    _seen_keys[key] += 1
    if _seen_keys[key] <= 1:
        core.CURRENT.violation(key, what, witness)
    else:
        core.CURRENT._viol_keys[key] += 1


def raised_once(ctx, pr, extra=None):
    """ctx.raised with the same one-witness-per-mechanism cap as V()."""
    key = f"raise:{type(pr.exc).__name__}@{pr.where}"
    _seen_keys[key] += 1
    if _seen_keys[key] <= 1:
        ctx.raised(pr, extra)
        return True
    ctx._viol_keys[key] += 1
    return False


def try_call(ctx, fn, *a, **k):
    try:
        return True, ctx.call(fn, *a, **k)
    except core.PartituraRaised as pr:
        try_call.fresh = raised_once(ctx, pr)
        return False, None


try_call.fresh = False


class LoadHang(BaseException):
    pass


def call_with_budget(ctx, seconds, fn, *a, **k):
    """ctx.try_call under a time budget of its own (the item budget of the core is restored afterwards).
    -> (status, result), status in 'ok' 'raised' 'hang'"""
    import signal
    import time

    def on_alarm(signum, frame):
        raise LoadHang()

    try:
        old_handler = signal.signal(signal.SIGALRM, on_alarm)
    except (ValueError, AttributeError):
        ok, res = try_call(ctx, fn, *a, **k)
        return ("ok" if ok else "raised"), res
    t0 = time.time()
    remaining, _ = signal.setitimer(signal.ITIMER_REAL, seconds)
    try:
        ok, res = try_call(ctx, fn, *a, **k)
        status = "ok" if ok else "raised"
    except LoadHang:
        status, res = "hang", None
    finally:
        signal.setitimer(signal.ITIMER_REAL, 0)
        signal.signal(signal.SIGALRM, old_handler)
        if remaining:
            signal.setitimer(signal.ITIMER_REAL, max(1.0, remaining - (time.time() - t0)))
    return status, res


def jsonable(x):
    if isinstance(x, Fraction):
        return str(x)
    if isinstance(x, dict):
        return {str(k): jsonable(v) for k, v in x.items()}
    if isinstance(x, (list, tuple)):
        return [jsonable(v) for v in x]
    if isinstance(x, (str, int, float, bool)) or x is None:
        return x
    try:
        import numpy as np
        if isinstance(x, np.integer):
            return int(x)
        if isinstance(x, np.floating):
            return float(x)
    except Exception:
        pass
    return repr(x)


# --------------------------------------------------------------------------- what was saved
class Saved:
    """Expectation derived from the arguments of one save_match call."""

    def __init__(self, alignment, ppart, part, mpq, ppq, unfolded):
        self.mpq, self.ppq = int(mpq), int(ppq)
        self.unfolded = unfolded
        self.A = R.abstract_part(part)
        self.desc = R.describe_part(part)
        self.suffix = "" if unfolded else "-1"
        if not unfolded and any("-1" in str(a.get("score_id", "")) for a in alignment):
            self.suffix = None                    # ids already look unfolded: the renaming rule is not part of the statement
        self.alignment = [dict(a) for a in alignment]
        self.pnotes = {}
        self.pid_dups = set()
        for n in ppart.notes:
            pid = R.prefixed(n["id"])
            if pid in self.pnotes:
                self.pid_dups.add(pid)
            self.pnotes[pid] = {"id": n["id"], "pitch": int(n["midi_pitch"]), "velocity": int(n["velocity"]),
                                "on": float(n["note_on"]), "off": float(n["note_off"])}
        self.controls = [{"number": int(c["number"]), "time": float(c["time"]), "value": int(c["value"])} for c in ppart.controls]
        # entries as the statement compares them
        self.entries = collections.Counter()
        self.s_cov, self.p_cov = collections.Counter(), collections.Counter()
        self.p_label = {}
        for a in self.alignment:
            lab = a["label"]
            sid = None if "score_id" not in a or lab == "insertion" else self.sid(a["score_id"])
            pid = None if "performance_id" not in a or lab == "deletion" else R.prefixed(a["performance_id"])
            typ = a.get("type") if lab == "ornament" else None
            self.entries[(lab, sid, pid, typ if not isinstance(typ, list) else tuple(typ))] += 1
            if lab in ("match", "deletion"):
                self.s_cov[sid] += 1
            if pid is not None:
                self.p_cov[pid] += 1
                self.p_label[pid] = lab
        self.labels = {a["label"] for a in self.alignment}

    def sid(self, s):
        return f"{s}{self.suffix}" if self.suffix else str(s)

    def witness(self, **more):
        w = {"ppq": self.ppq, "mpq": self.mpq, "assume_unfolded": self.unfolded}
        if len(self.desc["notes"]) <= 40:
            w["score"] = self.desc
        else:
            w["score"] = {"divs": self.desc["divs"], "ts": self.desc["ts"], "ks": self.desc["ks"],
                          "measures": self.desc["measures"], "n_notes": len(self.desc["notes"])}
        if len(self.alignment) <= 40:
            w["alignment"] = self.alignment
        w.update(more)
        return jsonable(w)


def meter_context(A, t=None):
    """Qualifier used in violation keys: which notational situation the element is in."""
    tss = A["ts_raw"]
    if t is None:
        dens = {bt for _, _, bt in tss}
    else:
        dens = {A["bm"].sig_at(t)[1]}
    return "quarter-meter" if dens <= {4} else "non-quarter-meter"


# --------------------------------------------------------------------------- writer side: the text
def check_text(ctx, S, text):
    """Compare the written text with what was saved. Returns the set of aspects the writer got wrong
    (so that the loader is not blamed for them again)."""
    wrong = set()
    T = R.read_text(text)
    by = collections.defaultdict(list)
    for kind, f in T["lines"]:
        by[kind].append(f)
    ctx.check()
    if T["unknown"]:
        wrong.add("grammar")
        V("written-line-outside-grammar", f"save_match wrote a line the v1.0.0 grammar does not have: {T['unknown'][0][:120]!r}",
          S.witness(line=T["unknown"][0][:200]))
    info = {f["attr"]: f["val"] for f in by["info"]}
    ctx.check(2)
    if info.get("midiClockUnits") != str(S.ppq) or info.get("midiClockRate") != str(S.mpq):
        wrong.add("clock")
        V("written-clock-differs", f"clock units/rate written {info.get('midiClockUnits')}/{info.get('midiClockRate')}, saved "
          f"{S.ppq}/{S.mpq}", S.witness())
    # alignment entries
    got = collections.Counter()
    for f in by["match"]:
        got[("match", f["sid"], f["pid"], None)] += 1
    for f in by["deletion"]:
        got[("deletion", f["sid"], None, None)] += 1
    for f in by["insertion"]:
        got[("insertion", None, f["pid"], None)] += 1
    for f in by["ornament"]:
        got[("ornament", f["sid"], f["pid"], f["otype"][0] if len(f["otype"]) == 1 else tuple(f["otype"]))] += 1
    ctx.check(len(S.entries))
    if got != S.entries and S.suffix is not None:
        wrong.add("entries")
        miss = list((S.entries - got).elements())
        add = list((got - S.entries).elements())
        lab = (miss or add)[0][0]
        V(f"written-entries-differ:{lab}", f"alignment entries in the file differ from the saved ones: missing {miss[:3]}, "
          f"unexpected {add[:3]}", S.witness(missing=miss[:5], unexpected=add[:5]))
    # performed notes
    for kind in ("match", "insertion", "ornament"):
        for f in by[kind]:
            e = S.pnotes.get(f["pid"])
            if e is None or f["pid"] in S.pid_dups:
                continue
            ctx.check(4)
            for field, sec in (("on", e["on"]), ("off", e["off"])):
                tick, half = R.tick_of(sec, S.mpq, S.ppq)
                ok = f[field] in (tick, tick + 1) if half else f[field] == tick
                if half:
                    ctx.ambiguous()
                if not ok:
                    wrong.add("ticks")
                    V("written-tick-not-nearest", f"performed note {f['pid']} {field}set {sec!r}s written as tick {f[field]}, "
                      f"nearest is {tick} (ppq={S.ppq}, mpq={S.mpq})", S.witness(note=e, field=field, written=f[field], nearest=tick))
            if f["pitch"] != e["pitch"] or f["vel"] != e["velocity"]:
                wrong.add("pnote-fields")
                V("written-performed-note-differs", f"performed note {f['pid']} written with pitch/velocity {f['pitch']}/{f['vel']}, "
                  f"saved {e['pitch']}/{e['velocity']}", S.witness(note=e))
    # pedals
    for number, kind in ((64, "sustain"), (67, "soft")):
        exp = collections.Counter()
        amb = False
        for c in S.controls:
            if c["number"] == number:
                tick, half = R.tick_of(c["time"], S.mpq, S.ppq)
                amb = amb or half
                exp[(tick, c["value"])] += 1
        g = collections.Counter((f["t"], f["v"]) for f in by[kind])
        ctx.check()
        if amb:
            ctx.ambiguous()
        elif g != exp:
            wrong.add("pedal")
            V(f"written-pedal-events-differ:{kind}", f"{kind} pedal lines differ from the saved events: missing "
              f"{list((exp - g).elements())[:3]}, unexpected {list((g - exp).elements())[:3]}", S.witness(controls=S.controls[:20]))
        else:
            # events of one pedal that fall on the same tick keep their performed order (the state after the tick depends on it)
            seq_saved = [(R.tick_of(c["time"], S.mpq, S.ppq)[0], c["value"]) for c in sorted(
                (c for c in S.controls if c["number"] == number), key=lambda c: c["time"])]
            seq_file = [(f["t"], f["v"]) for f in by[kind]]
            seq_list = sorted(((R.tick_of(c["time"], S.mpq, S.ppq)[0], c["value"]) for c in S.controls if c["number"] == number),
                              key=lambda e: e[0])          # stable: list order within a tick
            ctx.check()
            if seq_list != seq_saved:
                ctx.ambiguous()        # the saved list is not in order of time inside one tick: which order counts is open
            elif seq_file != seq_saved and sorted(seq_file) == sorted(seq_saved) and \
                    [t for t, _ in seq_file] == [t for t, _ in seq_saved]:
                k_ = next(i for i, (a_, b_) in enumerate(zip(seq_file, seq_saved)) if a_ != b_)
                # equal times in seconds leave the order open only if the saved list itself has no order there: it has (list order)
                wrong.add("pedal")
                V(f"written-pedal-events-reordered-within-a-tick:{kind}", f"{kind} events on tick {seq_saved[k_][0]} were performed in the order "
                  f"{[v for t, v in seq_saved if t == seq_saved[k_][0]]} and are written as {[v for t, v in seq_file if t == seq_saved[k_][0]]}",
                  S.witness(controls=S.controls[:20]))
    other = [f for k in ("sustain", "soft") for f in by[k]]
    # score notes
    A = S.A
    # bars are numbered consecutively; where the count starts is not part of the statement
    base = None
    for kind in ("match", "deletion"):
        for f in by[kind]:
            sid0 = f["sid"][: -len(S.suffix)] if S.suffix and f["sid"].endswith(S.suffix) else f["sid"]
            e0 = A["notes"].get(sid0)
            if e0 is not None and A["measure_of"](e0["t"]) is not None and base is None:
                base = f["bar"] - A["measure_of"](e0["t"])
    if base is None:
        base = 0 if A["pickup"] else 1
    for kind in ("match", "deletion"):
        for f in by[kind]:
            sid = f["sid"]
            orig = sid[: -len(S.suffix)] if S.suffix and sid.endswith(S.suffix) else sid
            e = A["notes"].get(orig)
            if e is None or orig in A["dup_ids"] or S.suffix is None:
                continue
            ctx.check(6)
            ctxq = meter_context(A, e["t"])
            if (f["step"], f["alter"], f["octave"]) != (e["step"], e["alter"], e["octave"]):
                wrong.add("spelling")
                V("written-spelling-differs", f"score note {sid} written as {f['step']}{f['alter']}{f['octave']}, is "
                  f"{e['step']}{e['alter']}{e['octave']}", S.witness(note=e))
            whole_ = Fraction(e["dur_q"]) / 4
            if f["dur"] != e["dur_q"] / 4 and (whole_.numerator > 1024 or whole_.denominator > 1024):
                # (open known finding, see check_score: fractions finer than 1024 are replaced by a simple one)
                wrong.add("duration")
                V("score-duration-approximated:fraction-beyond-1024", f"score note {sid}: duration written {f['dur']} whole notes, is {whole_}",
                  S.witness(note=e, written=str(f["dur"])))
            elif f["dur"] != e["dur_q"] / 4:
                wrong.add("duration")
                V(f"written-duration-differs:{'tied' if e['tied'] else 'plain'}", f"score note {sid}: duration written {f['dur']} "
                  f"whole notes, is {e['dur_q'] / 4}", S.witness(note=e, written=str(f["dur"])))
            if abs(Fraction(str(f["onb"])) - e["onset_beat"]) > BEAT_TOL:
                wrong.add("onset")
                V(f"written-onset-in-beats-differs:{ctxq}", f"score note {sid}: OnsetInBeats written {f['onb']}, is {e['onset_beat']}",
                  S.witness(note=e, written=f["onb"]))
            if abs(Fraction(str(f["offb"])) - e["offset_beat"]) > BEAT_TOL:
                wrong.add("offset")
                V(f"written-offset-in-beats-differs:{ctxq}", f"score note {sid}: OffsetInBeats written {f['offb']}, is {e['offset_beat']}",
                  S.witness(note=e, written=f["offb"]))
            mi = A["measure_of"](e["t"])
            if mi is not None and f["bar"] != base + mi:
                wrong.add("bar")
                V("written-measure-number-differs", f"score note {sid} lies in measure index {mi} (numbered from {base}), written "
                  f"measure {f['bar']}", S.witness(note=e, written=f["bar"]))
            if mi is not None and f["bar"] == base + mi and f["offs"] is not None:
                ms, me = A["measures"][mi]
                b, bt = A["bm"].sig_at(ms)
                pos_q = Fraction(f["beat"] - 1) * Fraction(4, bt) + f["offs"] * 4       # quarters from the bar's origin
                left = Fraction(e["t"] - ms, A["q"])
                right = left + (Fraction(4 * b, bt) - Fraction(me - ms, A["q"])) if (mi == 0 and A["pickup"]) else left
                if pos_q not in (left, right):
                    wrong.add("onset")
                    V(f"written-beat-and-offset-do-not-give-the-onset:{ctxq}", f"score note {sid} stands {left} quarters after its "
                      f"barline ({b}/{bt}); written beat {f['beat']} + offset {f['offs']} whole notes give {pos_q} quarters when beats "
                      f"are counted in units of the denominator (as the reader and the historical files do)",
                      S.witness(note=e, written_beat=f["beat"], written_offset=f["offs"]))
            want = []
            if e["voice"] is not None:
                want.append(f"v{e['voice']}")
            if e["staff"] is not None:
                want.append(f"staff{e['staff']}")
            want += e["all_articulations"]
            if e["grace"]:
                want.append("grace")
            if any(w not in f["attrs"] for w in want):
                wrong.add("attrs")
                V("written-attributes-missing", f"score note {sid}: attributes written {f['attrs']}, expected at least {want}",
                  S.witness(note=e, written=f["attrs"]))
    # signatures
    for attr, key, parse in (("timeSignature", "ts", lambda v: (lambda r: r[0] if r and len(r) == 1 else None)(R.ML.parse_timesig(v))),
                             ("keySignature", "ks", R.parse_key_value)):
        props = [f for f in by["scoreprop"] if f["attr"] == attr]
        got_seq = R.drop_redundant([(Fraction(f["tb"]).limit_denominator(10**4), parse(f["val"])) for f in props])
        exp_seq = [(A["bm"].beat(s), v) for _, v, s in A[key]]
        ctx.check()
        bad = len(got_seq) != len(exp_seq) or any(abs(g[0] - e[0]) > BEAT_TOL or g[1] != e[1] for g, e in zip(got_seq, exp_seq))
        if bad:
            wrong.add(key)
            midbar = any(A["bm"].beat(s) != b for b, _, s in A[key])
            V(f"written-{attr}-lines-differ",
              f"{attr} lines say {[(float(a), b) for a, b in got_seq]} (time in beats, value), the score has "
              f"{[(float(a), b) for a, b in exp_seq]}", S.witness(written=[[f["val"], f["bar"], f["tb"]] for f in props]))
        for f in props:
            # the measure field names the bar in which the signature stands
            e = next((x for x in A[key] if abs(A["bm"].beat(x[2]) - Fraction(f["tb"])) <= BEAT_TOL), None)
            if e is not None and not bad:
                mi = A["measure_of"](e[2])
                ctx.check()
                if mi is not None and f["bar"] != base + mi:
                    wrong.add(key)
                    V(f"written-{attr}-lines-differ", f"{attr} at beat {f['tb']} stands in measure index {mi} "
                      f"(numbered from {base}), written measure {f['bar']}", S.witness())
    return wrong, T


# --------------------------------------------------------------------------- reader side: the loaded triple
def check_loaded(ctx, S, wrong, loaded, text=None):
    perf, alignment, scr = loaded
    A = S.A
    # ---- alignment
    got = collections.Counter()
    for a in alignment:
        lab = a.get("label")
        typ = a.get("type") if lab == "ornament" else None
        if isinstance(typ, list):
            typ = tuple(typ)
        got[(lab, a.get("score_id") if lab != "insertion" else None, a.get("performance_id") if lab != "deletion" else None, typ)] += 1
    ctx.check(len(S.entries))
    if "entries" not in wrong and S.suffix is not None and got != S.entries:
        miss = list((S.entries - got).elements())
        add = list((got - S.entries).elements())
        strip = lambda c: collections.Counter((a, b, d) for (a, b, d, _), k in c.items() for _ in range(k))
        if strip(got) == strip(S.entries):
            V("ornament-type-changed", f"ornament entries come back with another type: saved {miss[0][3]!r}, loaded {add[0][3]!r}",
              S.witness(saved=miss[:3], loaded=add[:3]))
        else:
            lab = (miss or add)[0][0]
            V(f"alignment-entries-differ:{lab}", f"loaded alignment differs: missing {miss[:3]}, unexpected {add[:3]}",
              S.witness(missing=miss[:5], unexpected=add[:5]))
    # ---- performance
    pp = perf[0] if len(perf.performedparts) else None
    ctx.check(2)
    if pp is None:
        V("performed-part-missing", "loaded performance has no performed part", S.witness())
        return
    if "clock" not in wrong and (pp.ppq != S.ppq or pp.mpq != S.mpq):
        V("clock-differs", f"loaded performed part has ppq/mpq {pp.ppq}/{pp.mpq}, saved {S.ppq}/{S.mpq}", S.witness())
    lnotes = collections.defaultdict(list)
    for n in pp.notes:
        lnotes[str(n["id"])].append(n)
    try:
        na = pp.note_array()
        narows = {str(r["id"]): r for r in na}
    except Exception as e:  # noqa
        narows = None
        V("loaded-note-array-raises", f"note_array() of the loaded performed part raised {type(e).__name__}: {e}", S.witness())
    for pid, e in S.pnotes.items():
        if pid in S.pid_dups:
            continue
        if S.p_cov[pid] == 0:
            ctx.ambiguous()                       # a performed note no entry mentions has no line in the format
            continue
        if S.p_cov[pid] > 1:
            ctx.ambiguous()
            continue
        ctx.check()
        ln = lnotes.get(pid, [])
        if len(ln) != 1:
            if "entries" not in wrong:
                V(f"performed-note-{'lost' if not ln else 'duplicated'}:{S.p_label[pid]}",
                  f"performed note {pid} ({S.p_label[pid]}) occurs {len(ln)} times in the loaded performance",
                  S.witness(note=e, label=S.p_label[pid]))
            continue
        n = ln[0]
        ctx.check(6)
        if int(n["midi_pitch"]) != e["pitch"] or int(n["velocity"]) != e["velocity"]:
            if "pnote-fields" not in wrong:
                V("performed-note-pitch-or-velocity-differs", f"{pid}: loaded {n['midi_pitch']}/{n['velocity']}, saved "
                  f"{e['pitch']}/{e['velocity']}", S.witness(note=e))
        for field, sec in (("note_on", e["on"]), ("note_off", e["off"])):
            tick, half = R.tick_of(sec, S.mpq, S.ppq)
            if half:
                ctx.ambiguous()
            cands = (tick, tick + 1) if half else (tick,)
            gt = n.get(field + "_tick")
            if "ticks" not in wrong and gt not in cands:
                V("performed-tick-differs", f"{pid}.{field}_tick loaded {gt!r}, nearest tick of {sec!r}s is {tick}",
                  S.witness(note=e, field=field, loaded=gt))
            if "ticks" not in wrong and "clock" not in wrong:
                secs = [float(R.seconds_of(c, S.mpq, S.ppq)) for c in cands]
                if not any(abs(float(n[field]) - s) <= 1e-9 * max(1.0, abs(s)) for s in secs):
                    V("performed-seconds-differ", f"{pid}.{field} loaded {float(n[field])!r}s, tick {cands[0]} is {secs[0]!r}s "
                      f"(saved {sec!r}s)", S.witness(note=e, field=field, loaded=float(n[field])))
        if narows is not None and "ticks" not in wrong and "clock" not in wrong:
            r = narows.get(pid)
            ctx.check(2)
            if r is None:
                V("performed-note-missing-in-note-array", f"{pid} is in notes but not in note_array()", S.witness(note=e))
            else:
                t_on, h1 = R.tick_of(e["on"], S.mpq, S.ppq)
                t_off, h2 = R.tick_of(e["off"], S.mpq, S.ppq)
                if not (h1 or h2):
                    if int(r["onset_tick"]) != t_on or int(r["duration_tick"]) != t_off - t_on:
                        V("note-array-ticks-differ", f"{pid}: note_array onset/duration ticks {int(r['onset_tick'])}/"
                          f"{int(r['duration_tick'])}, expected {t_on}/{t_off - t_on}", S.witness(note=e))
                    es = float(R.seconds_of(t_on, S.mpq, S.ppq))
                    if abs(float(r["onset_sec"]) - es) > 2e-6 * max(1.0, abs(es)) + 1e-7:
                        V("note-array-seconds-differ", f"{pid}: note_array onset_sec {float(r['onset_sec'])!r}, expected {es!r}",
                          S.witness(note=e))
    extra_ids = [i for i in lnotes if i not in S.pnotes]
    ctx.check()
    if extra_ids and "entries" not in wrong:
        V("performed-note-added", f"loaded performance has notes that were not saved: {extra_ids[:4]}", S.witness())
    # pedals
    for number, kind in ((64, "sustain"), (67, "soft")):
        if "pedal" in wrong or "clock" in wrong:
            break
        exp = collections.Counter()
        amb = False
        for c in S.controls:
            if c["number"] == number:
                tick, half = R.tick_of(c["time"], S.mpq, S.ppq)
                amb = amb or half
                exp[(tick, c["value"])] += 1
        g = collections.Counter()
        off_grid = None
        for c in pp.controls:
            if c["number"] == number:
                x = Fraction(float(c["time"])) * 10**6 * S.ppq / S.mpq
                k = round(x)
                if abs(x - k) > Fraction(1, 1000):
                    off_grid = c
                g[(int(k), int(c["value"]))] += 1
        ctx.check()
        if amb:
            ctx.ambiguous()
            continue
        if off_grid is not None:
            V("pedal-time-off-tick-grid", f"loaded {kind} event at {off_grid['time']!r}s is not on a tick", S.witness())
        elif g != exp:
            # (an exact repetition of an event - same tick, same value - is an event of the stream like any other)
            V(f"pedal-events-differ:{kind}", f"loaded {kind} events differ: missing {list((exp - g).elements())[:3]}, unexpected "
              f"{list((g - exp).elements())[:3]}", S.witness(controls=S.controls[:20]))
    others = [c for c in pp.controls if c["number"] not in (64, 67)]
    ctx.check()
    if others:
        V("unknown-controller-loaded", f"loaded performance has controller {others[0]['number']} events", S.witness())
    # ---- score
    if scr is None or S.suffix is None:
        return
    check_score(ctx, S, wrong, scr[0], text)


def check_score(ctx, S, wrong, lp, text=None):
    """Score side. Positions are compared in quarters counted from the first saved note that came back (the
    loaded part has its own origin and divisions); with equal notes, barlines and signatures the positions in
    beats are equal too, which is checked last."""
    A = S.A
    # an unquantised score at fine divisions: some duration is finer than the format's 1/1024 bound (open known finding). The
    # loaded part is then built from approximated values - its divisions, and with them onsets, barlines and signature
    # positions, follow those; whatever the load-side comparison of such a score finds is filed under that finding
    fine_ = any((Fraction(x["dur_q"]) / 4).denominator > 1024 or (Fraction(x["dur_q"]) / 4).numerator > 1024 for x in A["notes"].values())

    def V(key, what, witness=None, _V=globals()["V"]):           # noqa
        if fine_ and key != "score-duration-approximated:fraction-beyond-1024":
            ctx.extra["consequences_of_approximated_durations:" + key.split(":")[0]] += 1
            _V("score-duration-approximated:fraction-beyond-1024", f"(in a score with durations finer than 1/1024) {key}: {what}", witness)
        else:
            _V(key, what, witness)
    try:
        B = R.abstract_part(lp)
    except ValueError:
        V("loaded-score-several-divisions", "the loaded score part has several divisions values", S.witness())
        return
    expected_ids = {}
    for sid0, e in A["notes"].items():
        sid = S.sid(sid0)
        if sid0 in A["dup_ids"]:
            continue
        if S.s_cov[sid] != 1:
            ctx.ambiguous()                       # not mentioned by the alignment (no line in the format) or mentioned twice
            continue
        expected_ids[sid] = e
    ctx.check()
    if B["off_grid"]:
        V("loaded-score-positions-off-the-division-grid", f"the loaded score has {len(B['off_grid'])} time points at non-integer "
          f"positions, e.g. {B['off_grid'][:3]} (divisions {B['q']})", S.witness(positions=B["off_grid"][:6], loaded_divs=B["q"]))
        return
    present = {}
    for sid, e in expected_ids.items():
        g = B["notes"].get(sid)
        ctx.check()
        if g is None or sid in B["dup_ids"]:
            if "entries" not in wrong:
                V(f"score-note-{'lost' if g is None else 'duplicated'}", f"score note {sid} occurs {'0' if g is None else '>1'} times "
                  f"in the loaded score", S.witness(note=e))
            continue
        present[sid] = (e, g)
    ctx.check()
    known = {S.sid(x) for x in A["notes"]}
    added = [i for i in B["notes"] if i not in known]
    if added and "entries" not in wrong:
        V("score-note-added", f"loaded score has notes that were not saved: {added[:4]}", S.witness())
    if not present:
        return
    onset_bars = {A["measure_of"](e["t"]) for e, _ in present.values()}
    dens = {v[1] for _, v, _ in A["ts"]}
    in_between = [i for i in range(min(onset_bars), max(onset_bars) + 1) if i not in onset_bars] if None not in onset_bars else []
    timing_ctx = "meter-denominator-changes" if len(dens) > 1 else \
        (meter_context(A) + (":pickup" if A["pickup"] else "") + (":bars-without-note-onsets" if in_between else ""))
    e0, g0 = min(present.values(), key=lambda x: (x[0]["t"], str(x[0]["id"])))

    def rel_a(t):
        return Fraction(t - e0["t"], A["q"])

    def rel_b(t):
        return Fraction(t - g0["t"], B["q"])

    structure_ok = True
    onset_bad = False
    # an unquantised score at fine divisions: some duration is finer than the format's 1/1024 bound (open known finding); the
    # divisions of the loaded part are then derived from approximated values, and onsets land on that other grid
    beyond_1024 = any((Fraction(x["dur_q"]) / 4).denominator > 1024 or (Fraction(x["dur_q"]) / 4).numerator > 1024 for x in A["notes"].values())
    for sid, (e, g) in present.items():
        ctx.check(7)
        if "onset" not in wrong and rel_a(e["t"]) != rel_b(g["t"]) and not onset_bad and beyond_1024:
            onset_bad = True
            V("score-duration-approximated:fraction-beyond-1024", f"score note {sid} starts {rel_a(e['t'])} quarters after the first note in the saved "
              f"score, {rel_b(g['t'])} in the loaded one, whose divisions ({B['q']}) come from approximated durations", S.witness(note=e, loaded_divs=B["q"]))
        elif "onset" not in wrong and rel_a(e["t"]) != rel_b(g["t"]) and not onset_bad:
            onset_bad = True
            V(f"score-onset-differs:{timing_ctx}", f"score note {sid} starts {rel_a(e['t'])} quarters after the first note "
              f"{e0['id']} in the saved score, {rel_b(g['t'])} quarters after it in the loaded one",
              S.witness(note=e, first_note=e0["id"], loaded_divs=B["q"]))
        whole = Fraction(e["dur_q"]) / 4
        if "duration" not in wrong and g["dur_q"] != e["dur_q"] and (whole.numerator > 1024 or whole.denominator > 1024):
            # the format's duration field keeps numerators and denominators up to 1024 and replaces anything finer by the
            # nearest simple fraction (FractionalSymbolicDuration.bound_integers): open known finding
            structure_ok = False
            V("score-duration-approximated:fraction-beyond-1024", f"score note {sid}: duration {e['dur_q']} quarters saved "
              f"({whole} of a whole note), {g['dur_q']} loaded", S.witness(note=e, loaded_divs=B["q"]))
        elif "duration" not in wrong and g["dur_q"] != e["dur_q"]:
            structure_ok = False
            V(f"score-duration-differs:{'tied' if e['tied'] else ('grace' if e['grace'] else 'plain')}:{meter_context(A, e['t'])}",
              f"score note {sid}: duration {e['dur_q']} quarters saved, {g['dur_q']} loaded", S.witness(note=e, loaded_divs=B["q"]))
        if "spelling" not in wrong and (g["step"], g["alter"], g["octave"]) != (e["step"], e["alter"], e["octave"]):
            V("score-spelling-differs", f"score note {sid}: {e['step']}{e['alter']:+d}{e['octave']} saved, "
              f"{g['step']}{g['alter']:+d}{g['octave']} loaded", S.witness(note=e))
        if "attrs" not in wrong:
            if e["voice"] is not None and g["voice"] != e["voice"]:
                V("score-voice-differs", f"score note {sid}: voice {e['voice']} saved, {g['voice']} loaded", S.witness(note=e))
            if e["staff"] is not None and g["staff"] != e["staff"]:
                V("score-staff-differs", f"score note {sid}: staff {e['staff']} saved, {g['staff']} loaded", S.witness(note=e))
            if g["articulations"] != e["articulations"]:
                V("score-articulations-differ", f"score note {sid}: articulations {e['articulations']} saved, {g['articulations']} "
                  f"loaded", S.witness(note=e))
    if onset_bad or "onset" in wrong:
        return
    uncovered = len(present) != len(A["notes"])
    end_a = max(rel_a(e["t"] + e["dur"]) for e, _ in present.values())
    # ---- measures that overlap [first onset, end of the last sounding note); a start before the first note counts as 0
    # (a bar opening with a rest is only known from its first note on)
    ctx.check()
    m_a = [(max(rel_a(s), Fraction(0)), rel_a(e)) for s, e in A["measures"] if e is not None and rel_a(e) > 0 and rel_a(s) < end_a]
    m_b = [(max(rel_b(s), Fraction(0)), rel_b(e)) for s, e in B["measures"] if e is not None and rel_b(e) > 0 and rel_b(s) < end_a]
    if uncovered:
        ctx.ambiguous()                           # bars holding only unmentioned notes cannot be in the file
    elif A["pickup"] and 1 not in onset_bars:
        ctx.ambiguous()                           # the file gives no bar lengths: a pickup bar is delimited by an onset in the next bar
        structure_ok = None
    else:
        es, gs = [x for x, _ in m_a], [x for x, _ in m_b]
        if es != gs:
            structure_ok = False
            missing = [x for x in es if x not in gs]
            addl = [x for x in gs if x not in es]
            mq = "meter-denominator-changes" if len(dens) > 1 else meter_context(A)
            idx_missing = [i for i, (s, _) in enumerate(A["measures"]) if rel_a(s) in missing]
            if missing and not addl and all(i not in onset_bars for i in idx_missing):
                key = "measure-without-note-onset-merged-into-neighbour"
            elif missing and not addl:
                key = f"barline-lost:{mq}"
            elif addl and not missing:
                key = f"barline-added:{mq}"
            else:
                key = f"barlines-moved:{mq}" + (":pickup" if A["pickup"] else "") + (":bars-without-note-onsets" if in_between else "")
            V(key, f"measures start {[str(x) for x in es]} quarters after the first note in the saved score, "
              f"{[str(x) for x in gs]} in the loaded one", S.witness(saved_measure_starts=es, loaded_measure_starts=gs))
        elif m_a and m_a[-1][1] != m_b[-1][1] and m_a[-1][1] <= end_a:
            structure_ok = False
            V("last-measure-end-differs", f"the last judged measure ends {m_a[-1][1]} quarters after the first note in the saved score, "
              f"{m_b[-1][1]} in the loaded one", S.witness())
    # ---- signatures: at the start of the bar where they were written; of those before the first note only the one in force
    for key, name in (("ts", "time-signature"), ("ks", "key-signature")):
        if key in wrong:
            continue
        ctx.check()
        if uncovered:
            ctx.ambiguous()
            continue

        def bar_start_a(t):
            i = A["measure_of"](t)
            return A["measures"][i][0] if i is not None else t

        exp_n = R.drop_redundant([(max(rel_a(bar_start_a(s)), Fraction(0)), v) for _, v, s in A[key] if rel_a(bar_start_a(s)) < end_a])
        got_n = R.drop_redundant([(max(rel_b(s), Fraction(0)), v) for _, v, s in B[key] if rel_b(s) < end_a])
        if exp_n == got_n:
            continue
        structure_ok = False
        if key == "ks" and text is not None:
            # a mechanism of its own: the bar *number* of the line used as the position (in divisions)
            bars = sorted({f["bar"] for kd, f in R.read_text(text)["lines"] if kd == "scoreprop" and f["attr"] == "keySignature"})
            if bars and {t_ for t_, _, _ in B["ks_raw"]} <= set(bars):
                V("key-signature-placed-at-its-bar-number", f"key signatures of bars {bars} stand at positions "
                  f"{sorted({t_ for t_, _, _ in B['ks_raw']})} (divisions) of the loaded score: the bar number was used as the time",
                  S.witness(saved=[[str(a), b] for a, b in exp_n], loaded=[[str(a), b] for a, b in got_n], loaded_divs=B["q"]))
                continue
        sig_bars = {A["measure_of"](s) for _, _, s in A[key]}
        bars_wo_onset = any(i not in onset_bars for i in sig_bars)
        b_starts = {rel_b(s) for s, _ in B["measures"]}
        at_bar_start = all(p in b_starts or p == 0 for p, _ in got_n)
        if len(exp_n) == len(got_n) and all(x[1] == y[1] for x, y in zip(exp_n, got_n)):
            near = all(abs(x[0] - y[0]) < Fraction(1, B["q"]) * 2 for x, y in zip(exp_n, got_n))
            k = f"{name}-position-differs" + (":by-a-division" if near else "") + ("" if at_bar_start else ":not-at-a-bar-start") + \
                (":bar-without-note-onset" if bars_wo_onset else "")
        elif len(got_n) < len(exp_n):
            k = f"{name}-lost" + (":bar-without-note-onset" if bars_wo_onset else "")
        elif len(got_n) > len(exp_n):
            k = f"{name}-added" + (":bar-without-note-onset" if bars_wo_onset else "")
        else:
            k = f"{name}-value-differs" + (":bar-without-note-onset" if bars_wo_onset else "")
        V(k, f"{name}s (quarters after the first note, value): saved {[(str(x), y) for x, y in exp_n]}, loaded "
          f"{[(str(x), y) for x, y in got_n]}", S.witness(saved=[[str(x), y] for x, y in exp_n], loaded=[[str(x), y] for x, y in got_n]))
    # ---- beats: equal notes, barlines and signatures must give equal beats
    if structure_ok and not uncovered and not (A["pickup"] and 0 not in onset_bars) and not (wrong & {"duration", "offset", "onset"}):
        for sid, (e, g) in present.items():
            ctx.check(2)
            if abs(g["onset_beat"] - e["onset_beat"]) > BEAT_TOL or abs(g["offset_beat"] - e["offset_beat"]) > BEAT_TOL:
                V("score-beats-differ-with-equal-structure", f"score note {sid}: onset/offset {e['onset_beat']}/"
                  f"{e['offset_beat']} beats saved, {g['onset_beat']}/{g['offset_beat']} loaded although notes, barlines and "
                  f"signatures agree", S.witness(note=e, loaded_divs=B["q"]))
                break


# --------------------------------------------------------------------------- hooks
def _bind_save(a, k):
    names = ["alignment", "performance_data", "score_data", "out", "mpq", "ppq", "performer", "composer", "piece",
             "score_filename", "performance_filename", "assume_unfolded"]
    d = {"out": None, "mpq": 500000, "ppq": 480, "assume_unfolded": False}
    for n, v in zip(names, a):
        d[n] = v
    for n, v in k.items():
        d[{"spart": "score_data", "ppart": "performance_data"}.get(n, n)] = v
    return d


def _first_part(x):
    import partitura.score as S
    if isinstance(x, S.Part):
        return x
    if isinstance(x, S.PartGroup):
        return x.children[0]
    return x[0]


def _first_ppart(x):
    from partitura.performance import PerformedPart
    return x if isinstance(x, PerformedPart) else x[0]


def pre_save(*a, **k):
    d = _bind_save(a, k)
    try:
        return Saved(d["alignment"], _first_ppart(d["performance_data"]), _first_part(d["score_data"]), d["mpq"], d["ppq"],
                     bool(d["assume_unfolded"])), d
    except ValueError:
        core.CURRENT.extra["save_match_outside_domain"] += 1
        return None


def post_save(ret, exc, token, a, k):
    ctx = core.CURRENT
    if exc is not None or token is None:
        return
    S, d = token
    if d["out"] is None or not os.path.exists(str(d["out"])):
        ctx.extra["save_match_without_path"] += 1
        return
    with open(d["out"]) as f:
        text = f.read()
    wrong, T = check_text(ctx, S, text)
    load_and_judge(ctx, S, wrong, d["out"], text, "roundtrip-unfold" if not S.unfolded else "roundtrip", "save_match wrote")


def load_and_judge(ctx, S, wrong, path, text, cls, origin):
    import partitura
    with_score = sum(S.s_cov.values()) > 0         # without any score-note line there is no score to build
    status, loaded = call_with_budget(ctx, LOAD_BUDGET_S, partitura.load_match, path, create_score=with_score)
    if status == "ok" and not with_score:
        loaded = (loaded[0], loaded[1], None)
    if status == "hang":
        V("load-does-not-terminate", f"load_match(create_score=True) of the file {origin} did not return "
          f"within {LOAD_BUDGET_S} s", S.witness(file_head=text.splitlines()[:60]))
        ctx.case(["hang", core.digest(S.desc)], False, cls="load-hang")
        return
    if status == "raised":
        ctx.extra["load_raised"] += 1
        last = ctx.violations[-1] if (ctx.violations and try_call.fresh) else None
        if last is not None and last["key"].startswith("raise:") and last["witness"].get("detail") is None:
            last["witness"]["detail"] = S.witness(file_head=text.splitlines()[:60])
        ctx.case(["load-raised", core.digest(S.desc)], False, cls="load-raised")
        return
    check_loaded(ctx, S, wrong, loaded, text)
    A = S.A
    feats = {"tie": any(n["tied"] for n in A["notes"].values()), "nonquarter": meter_context(A) != "quarter-meter",
             "ts_change": len(A["ts"]) > 1, "pickup": A["pickup"], "grace": any(n["grace"] for n in A["notes"].values())}
    nontrivial = S.labels >= {"match", "deletion", "insertion", "ornament"} and \
        (feats["tie"] or feats["nonquarter"] or feats["ts_change"] or feats["pickup"])
    sig = [cls[:3], core.digest(S.desc), core.digest([S.alignment, sorted(S.pnotes.items()), S.controls, S.ppq, S.mpq, S.unfolded])]
    ctx.case(sig, nontrivial, cls=cls,
             sample={"notes": len(A["notes"]), "divs": A["q"], "meters": sorted({(b, bt) for _, b, bt in A["ts_raw"]}),
                     "labels": dict(collections.Counter(a["label"] for a in S.alignment)), "ppq": S.ppq, "mpq": S.mpq,
                     "pedal_events": len(S.controls), **feats})
    ctx.state((cls[:3], tuple(sorted(S.labels)), feats["tie"], feats["nonquarter"], feats["ts_change"], feats["pickup"], feats["grace"],
               len(A["ks"]) > 1, S.unfolded, min(len(S.controls), 3), S.ppq))


def _line_key(line):
    from partitura.io import matchfile_base as MB
    if isinstance(line, MB.BaseSnoteNoteLine):
        return ("match", str(line.snote.Anchor), str(line.note.Id))
    if isinstance(line, MB.BaseDeletionLine):
        return ("deletion", str(line.snote.Anchor), None)
    if isinstance(line, MB.BaseInsertionLine):
        return ("insertion", None, str(line.note.Id))
    if isinstance(line, MB.BaseOrnamentLine):
        return ("ornament", str(line.Anchor), str(line.note.Id))
    if isinstance(line, MB.BasePedalLine):
        return ("pedal",)
    return None


def post_load_matchfile(ret, exc, token, a, k):
    ctx = core.CURRENT
    if exc is not None:
        return
    fn = a[0] if a else k.get("filename", k.get("fn"))
    try:
        with open(fn) as f:
            raw = f.read().splitlines()
    except Exception:
        return
    kept, dropped, info = R.kept_lines(raw)
    got = collections.Counter()
    n_ped = 0
    for line in ret.lines:
        lk = _line_key(line)
        if lk is None:
            continue
        if lk[0] == "pedal":
            n_ped += 1
        else:
            got[lk] += 1
    ctx.check(sum(kept.values()) + 1)
    wit = {"file": os.path.basename(str(fn)), "duplicate_score_ids": info["dup_sids"][:5], "duplicate_performance_ids": info["dup_pids"][:5]}
    if got != kept:
        lost = list((kept - got).elements())
        addl = list((got - kept).elements())
        if lost:
            c = lost[0]
            conflict = (c[1] in info["dup_sids"]) or (c[2] in info["dup_pids"])
            V(f"note-line-lost:{c[0]}" + (":with-duplicate-id" if conflict else ""),
              f"load_matchfile lost {len(lost)} note line(s) it should keep, e.g. {c}", dict(wit, lost=lost[:5]))
        if addl:
            c = addl[0]
            if dropped[c] > 0:
                V(f"conflicting-{c[0]}-kept", f"load_matchfile kept {c} although its id occurs on several lines", dict(wit, kept=addl[:5]))
            else:
                V(f"note-line-duplicated:{c[0]}", f"load_matchfile returned {c} more often than the file has it", dict(wit, extra=addl[:5]))
    if n_ped != sum(info["pedals"].values()):
        V("pedal-line-count-differs", f"{sum(info['pedals'].values())} pedal lines in the file, {n_ped} loaded", wit)
    ctx.extra["textual_duplicates_seen"] += info["textual_duplicates"]
    ctx.extra["documented_drops_seen"] += sum(dropped.values())
    return


def post_load_match(ret, exc, token, a, k):
    ctx = core.CURRENT
    if exc is not None:
        return
    fn = a[0] if a else k.get("filename", k.get("fn"))
    try:
        with open(fn) as f:
            raw = f.read().splitlines()
    except Exception:
        return
    kept, dropped, info = R.kept_lines(raw)
    perf, alignment = ret[0], ret[1]
    scr = ret[2] if len(ret) > 2 else None
    tied_deletions = set()
    for r in raw:
        c = R.classify_line(r)
        if c and c[0] == "deletion" and "leftOutTied" in r:
            tied_deletions.add(c[1])
    exp = collections.Counter()
    for (kind, sid, pid), n in kept.items():
        if kind == "deletion" and sid in tied_deletions:
            continue                               # the continuation of a tie is a score note, not an alignment entry
        exp[(kind, sid, R.prefixed(pid) if pid is not None else None)] += n
    got = collections.Counter()
    for e in alignment:
        lab = e.get("label")
        got[(lab, e.get("score_id") if lab != "insertion" else None, e.get("performance_id") if lab != "deletion" else None)] += 1
    wit = {"file": os.path.basename(str(fn)), "duplicate_score_ids": info["dup_sids"][:5], "duplicate_performance_ids": info["dup_pids"][:5]}
    ctx.check(len(exp) + 1)
    if got != exp:
        miss = list((exp - got).elements())
        addl = list((got - exp).elements())
        V(f"alignment-not-the-note-lines:{(miss or addl)[0][0]}", f"alignment entries differ from the kept note lines: missing "
          f"{miss[:3]}, unexpected {addl[:3]}", dict(wit, missing=miss[:5], unexpected=addl[:5]))
    # every kept performed-note line is one performed note
    pids = collections.Counter()
    for (kind, sid, pid), n in kept.items():
        if pid is not None:
            pids[R.prefixed(pid)] += n
    have = collections.Counter(str(n["id"]) for n in perf[0].notes) if len(perf.performedparts) else collections.Counter()
    ctx.check(len(pids))
    for pid, n in pids.items():
        if n > 1:
            ctx.ambiguous()                        # the same id on several kept lines (conflicting matches): undocumented
            continue
        if have[pid] != 1:
            lab = next(kd for (kd, s, p) in kept if p is not None and R.prefixed(p) == pid)
            V(f"performed-note-{'lost' if have[pid] == 0 else 'duplicated'}:{lab}",
              f"performed note {pid} ({lab} line) occurs {have[pid]} times in the loaded performance", dict(wit, id=pid, label=lab))
            break
    if scr is not None:
        sids = collections.Counter()
        for (kind, sid, pid), n in kept.items():
            if kind in ("match", "deletion"):
                sids[sid] += n
        import partitura.score as SC
        all_notes = R._objects(scr[0], SC.Note)
        ids = collections.Counter(str(n.id) for n in all_notes)
        heads = collections.Counter(str(n.id) for n in all_notes if n.tie_prev is None)
        ctx.check(len(sids))
        for sid, n in sids.items():
            if n > 1:
                ctx.ambiguous()
                continue
            if ids[sid] != 1:
                if ids[sid] > 1 and heads[sid] == 1:
                    V("tie-continuation-id-collides-with-score-note-id", f"the loaded score has {ids[sid]} notes with id {sid}: the "
                      f"score note and continuation(s) of another note split at a barline", dict(wit, id=sid))
                else:
                    V(f"score-note-{'lost' if ids[sid] == 0 else 'duplicated'}",
                      f"score note {sid} occurs {ids[sid]} times in the loaded score", dict(wit, id=sid))
                break
    if token == "driver":
        return


def install(ctx):
    core.set_current(ctx)
    if _hooks:
        return
    import partitura  # noqa
    import partitura.io.exportmatch as EM
    import partitura.io.importmatch as IM
    for owner, name, pre, post, label in ((EM, "save_match", pre_save, post_save, "save_match"),
                                          (IM, "load_matchfile", None, post_load_matchfile, "load_matchfile"),
                                          (IM, "load_match", None, post_load_match, "load_match")):
        h = core.Hook(owner, name, pre=pre, post=post, ctx=ctx, label=label)
        core.rebind_everywhere(h.orig, h.wrapper)
        _hooks.append(h)


def setup(ctx):
    install(ctx)


# --------------------------------------------------------------------------- driver
def plan(tier, seed):
    quick = tier == "quick"
    items = [["gen", i] for i in range(960 if quick else 40000)]
    items += [["gen-large", i] for i in range(32 if quick else 2400)]
    items += [["unfold", i] for i in range(64 if quick else 2400)]
    items += [["corrupt", i] for i in range(128 if quick else 6000)]
    items += [["ref", i] for i in range(480 if quick else 24000)]
    items += [["ref-corrupt", i] for i in range(96 if quick else 4800)]
    items += [["fixture", f] for f in FIXTURES]
    items += [["fixture-corrupt", f, i] for f in FIXTURES[:2] for i in range(2 if quick else 12)]
    return items


def add_midbar_key(rng, part):
    """A key signature inside a bar (at a note onset that is not a barline)."""
    import partitura.score as S
    bars = {int(m.start.t) for m in R._objects(part, S.Measure)}
    onsets = sorted({int(n.start.t) for n in R._objects(part, S.Note)} - bars)
    if not onsets:
        return False
    part.add(S.KeySignature(rng.randint(-7, 7), rng.choice(["major", "minor"])), rng.choice(onsets))
    return True


def run_roundtrip(ctx, case, unfolded=True):
    import partitura
    from workloads import c08_align as W
    pp = W.build_ppart(case.perf)
    d = tempfile.mkdtemp(prefix="c08-")
    try:
        out = os.path.join(d, "x.match")
        al = copy.deepcopy(case.alignment)
        import partitura.score as SC
        from partitura.performance import Performance
        form = case.arg_form
        sdata = {"part": case.part, "score": SC.Score([case.part], id="s") if form[0] == "score" else None,
                 "list": [case.part]}[form[0]]
        pdata = {"ppart": pp, "performance": Performance(pp, id="p") if form[1] == "performance" else None, "list": [pp]}[form[1]]
        ctx.classes[f"arguments-{form[0]}-{form[1]}"] += 1
        try:
            ctx.call(partitura.save_match, al, pdata, sdata, out, mpq=case.perf["mpq"], ppq=case.perf["ppq"],
                     assume_unfolded=unfolded)
        except core.PartituraRaised as pr:
            n_match = sum(1 for a in case.alignment if a["label"] == "match")
            raised_once(ctx, pr, extra=jsonable({"class": case.klass, "matches": n_match, "score": R.describe_part(case.part)
                                           if len(case.alignment) <= 30 else None, "alignment": case.alignment[:30],
                                           "perf_notes": case.perf["notes"][:30], "ppq": case.perf["ppq"], "mpq": case.perf["mpq"]}))
            ctx.case(["raised", core.digest(case.alignment)], False, cls="save-raised")
            return None
        ctx.classes[f"alignment-{case.klass}"] += 1
        ctx.classes[f"pid-style-{case.pid_style}"] += 1
        with open(out) as f:
            return f.read()
    finally:
        shutil.rmtree(d, ignore_errors=True)


def run_reference_file(ctx, case, rng):
    """The reader alone: a file written by the reference writer (format description) is loaded and judged."""
    from workloads import c08_align as W
    pp = W.build_ppart(case.perf)
    S = Saved(case.alignment, pp, case.part, case.perf["mpq"], case.perf["ppq"], True)
    pn = {n["id"]: {"pitch": n["midi_pitch"], "velocity": n["velocity"], "on": n["note_on"], "off": n["note_off"],
                    "channel": n.get("channel", 0), "track": n.get("track", 0)} for n in case.perf["notes"]}
    right = rng.random() < 0.3
    text = R.write_text(S.A, case.alignment, pn, case.perf["controls"], S.ppq, S.mpq, right_align_pickup=right)
    d = tempfile.mkdtemp(prefix="c08-")
    try:
        fn = os.path.join(d, "ref.match")
        with open(fn, "w") as f:
            f.write(text)
        load_and_judge(ctx, S, set(), fn, text, "reference-file", "the reference writer wrote")
        ctx.classes["pickup-right-aligned" if right else "pickup-left-aligned"] += 1
    finally:
        shutil.rmtree(d, ignore_errors=True)
    return text


def run_corrupt(ctx, rng, text, tag):
    import partitura
    from workloads import c08_align as W
    new, done = W.corrupt(rng, text)
    d = tempfile.mkdtemp(prefix="c08-")
    try:
        fn = os.path.join(d, "dup.match")
        with open(fn, "w") as f:
            f.write(new)
        kept, dropped, info = R.kept_lines(new.splitlines())
        create = rng.random() < 0.7
        if not any(c[0] in ("match", "deletion") for c in kept):
            create = False                         # no score-note line survives the documented drops: there is no score to build
        status, _ = call_with_budget(ctx, LOAD_BUDGET_S, partitura.load_match, fn, create_score=create)
        if status == "hang":
            V("load-does-not-terminate", f"load_match(create_score={create}) of a file with duplicate ids did not return within "
              f"{LOAD_BUDGET_S} s", {"injected": done, "file": new.splitlines()[:80]})
        elif status == "raised":
            last = ctx.violations[-1] if (ctx.violations and try_call.fresh) else None
            if last is not None and last["key"].startswith("raise:") and last["witness"].get("detail") is None:
                last["witness"]["detail"] = {"injected": done, "create_score": create, "file": new.splitlines()[:80]}
        resolved = sum(dropped.values()) + info["textual_duplicates"]
        ctx.case(["corrupt", core.digest(new)], resolved > 0 and bool(done), cls=f"corrupt-{tag}",
                 sample={"injected": done, "documented_drops": sum(dropped.values()), "textual_duplicates": info["textual_duplicates"]})
        for k in done:
            ctx.state(("corrupt", tag, k))
    finally:
        shutil.rmtree(d, ignore_errors=True)


def run_item(ctx, item):
    import partitura
    from workloads import c08_align as W
    kind = item[0]
    if kind in ("ref", "ref-corrupt"):
        rng = ctx.rng(kind, item[1])
        case = W.make_case(rng, size=rng.choice(["tiny", "small", "small", "small", "large"]),
                           klass="complete" if kind == "ref-corrupt" else None)
        if not case.alignment:
            ctx.extra["skipped_score_without_notes"] += 1
            return
        if rng.random() < 0.2 and add_midbar_key(rng, case.part):
            ctx.extra["cases_with_midbar_key"] += 1
        text = run_reference_file(ctx, case, rng)
        if kind == "ref-corrupt":
            for j in range(3):
                run_corrupt(ctx, ctx.rng("ref-corrupt", item[1], j), text, "reference")
    elif kind in ("gen", "gen-large", "unfold", "corrupt"):
        rng = ctx.rng(kind, item[1])
        size = "large" if kind == "gen-large" else rng.choice(["tiny", "small", "small", "small"])
        case = W.make_case(rng, size=size, klass="complete" if kind in ("unfold", "corrupt") else None,
                           id_style="default" if kind == "unfold" else None)
        if not case.alignment:
            ctx.extra["skipped_score_without_notes"] += 1
            return
        if rng.random() < 0.2 and add_midbar_key(rng, case.part):
            ctx.extra["cases_with_midbar_key"] += 1
        case.arg_form = (rng.choices(["part", "score", "list"], [0.6, 0.2, 0.2])[0],
                         rng.choices(["ppart", "performance", "list"], [0.6, 0.2, 0.2])[0])
        text = run_roundtrip(ctx, case, unfolded=(kind != "unfold"))
        if kind == "corrupt" and text is not None:
            for j in range(3):
                run_corrupt(ctx, ctx.rng("corrupt", item[1], j), text, "generated")
    elif kind == "fixture":
        fn = os.path.join(core.REPO, "tests", "data", "match", item[1])
        perf, al, scr = ctx.call(partitura.load_match, fn, create_score=True)
        ctx.case(["fixture-load", item[1]], True, cls="fixture-load", sample={"fixture": item[1], "entries": len(al)})
        d = tempfile.mkdtemp(prefix="c08-")
        try:
            out = os.path.join(d, "again.match")
            pp = perf[0]
            ctx.call(partitura.save_match, copy.deepcopy(al), pp, scr[0], out, mpq=int(pp.mpq), ppq=int(pp.ppq), assume_unfolded=True)
        finally:
            shutil.rmtree(d, ignore_errors=True)
    elif kind == "fixture-corrupt":
        fn = os.path.join(core.REPO, "tests", "data", "match", item[1])
        with open(fn) as f:
            text = f.read()
        run_corrupt(ctx, ctx.rng("fixture-corrupt", item[1], item[2]), text, "fixture")
    else:
        raise ValueError(item)
