"""Fixture corpora shipped with the repository (read-only)."""
import glob
import os

REPO = os.environ.get("VERIF_REPO", "/repo")
DATA = os.path.join(REPO, "tests", "data")
# files that are deliberately malformed / need absent tools
# files the readers reject on every tree (no xml:id / mensural notation): counted by C19, not usable as smoke input
SKIP = {"mensural.mei", "Bach_Hilf_Herr_Jesu.mei"}


def _ls(sub, pats):
    out = []
    for p in pats:
        out += glob.glob(os.path.join(DATA, sub, p))
    return sorted(f for f in out if os.path.basename(f) not in SKIP)


def musicxml_files():
    return _ls("musicxml", ["*.xml", "*.musicxml"])


def mei_files():
    return _ls("mei", ["*.mei"])


def kern_files():
    return _ls("kern", ["*.krn"])


def midi_files():
    return _ls("midi", ["*.mid"])


def match_files():
    return _ls("match", ["*.match"])


def score_files(limit=None):
    fs = musicxml_files() + mei_files() + kern_files() + midi_files()
    if limit:
        # spread over formats
        step = max(1, len(fs) // limit)
        fs = fs[::step][:limit]
    return fs
