#!/usr/bin/env python3
"""tools/store_seed.py <name> <property> <srcdir> <initially_caught yes|no> <needs...>
Stores a confirmed seeded change as /verif/seeded/<name>/{patch.diff,demo.py,notes.md,meta.json}."""
import json, os, shutil, subprocess, sys
name, prop, src, caught0 = sys.argv[1:5]
needs = " ".join(sys.argv[5:])
dst = f"/verif/seeded/{name}"
os.makedirs(dst, exist_ok=True)
for f in ("patch.diff", "demo.py", "notes.md"):
    if os.path.exists(os.path.join(src, f)):
        shutil.copy(os.path.join(src, f), dst)
log = os.environ.get("SEEDLOG") or f"/tmp/try_seed_{prop}.log"
keys = []
if os.path.exists(log):
    for l in open(log):
        if l.strip().startswith("key="):
            keys.append(l.strip().split(" what=")[0][4:])
head = subprocess.run(["git", "-C", "/repo", "log", "--format=%h", "-1"], capture_output=True, text=True).stdout.strip()
meta = {
    "property": prop,
    "breaks": open(os.path.join(src, "notes.md")).read()[:600] if os.path.exists(os.path.join(src, "notes.md")) else "",
    "needs_to_manifest": needs,
    "origin": "independent sub-agent given only the property text and its own worktree (no access to /verif)",
    "confirmed": {
        "applies_to_repo_head": head,
        "baseline": "tools/confirm_seed.sh: 228/228 stable tests pass with the change applied (scratch worktree under /tmp, removed afterwards)",
        "demo": "demo.py exits 0 without the change and 1 with it",
    },
    "ran": [os.environ.get("SEEDRAN") or f"tools/try_seed.sh {prop} seeded/{name}/patch.diff   (git -C /repo apply; ./check {prop} --tier quick; git -C /repo checkout -- .)"],
    "caught_by": {"check": f"./check {prop} --tier quick", "exit": 1, "violation_keys": sorted(set(keys))[:8]},
    "caught_before_strengthening": caught0 == "yes",
}
json.dump(meta, open(os.path.join(dst, "meta.json"), "w"), indent=1)
print("stored", dst, meta["caught_by"]["violation_keys"][:3])
