"""Render an abstract score (refmodels/notation.py) as an MEI 4 document.

Plain string building: nothing of partitura (or of its exporter) is used.
Options (dict `o`, all chosen by the workload and recorded in the witness):
  sig       "staffdef-attr" | "staffdef-child" | "scoredef-attr" | "scoredef-child"   where meter and key are declared
  clef      "attr" | "child"                    clef.shape/clef.line on staffDef or a <clef> child
  ppq       None | int                          @ppq on every staffDef
  durppq    bool                                @dur.ppq on every note/chord/rest/space (needs `unit`)
  grace_durppq bool                             grace notes carry @dur.ppq too (they still take no time)
  unit      int                                 divisions per quarter used for dur.ppq values
  beams     bool                                wrap runs of short notes in <beam>
  accid     "attr" | "ges" | "child" | "mix"    how alterations are written
  layer_n   bool                                @n on <layer>
  chord_note_dur bool                           notes inside a chord repeat @dur/@dots
  ties      "start" | "end" | "last"            which measure holds the <tie> elements
  nest      None | "tail" | "head"              put two staffDefs into an inner <staffGrp symbol="brace">
  sections  "flat" | "nested"                   group measures into nested <section>s
  breaks    bool                                <sb/> / <pb/> between measures
  change    "attr" | "child"                    how mid-piece scoreDef changes are written
  mode      bool                                write key mode
"""
from fractions import Fraction as F

from . import notation as N

DUR = {"long": "long", "breve": "breve", "whole": "1", "half": "2", "quarter": "4", "eighth": "8", "16th": "16",
       "32nd": "32", "64th": "64", "128th": "128"}
ACC = {-2: "ff", -1: "f", 0: "n", 1: "s", 2: "ss"}
NS = "http://www.music-encoding.org/ns/mei"


def sig_text(fifths):
    return "0" if fifths == 0 else (f"{fifths}s" if fifths > 0 else f"{-fifths}f")


def _attrs(d):
    return "".join(f' {k}="{v}"' for k, v in d.items() if v is not None)


class _W:
    def __init__(self, A, o, rng):
        self.A, self.o, self.rng = A, o, rng
        self.lines = []
        self.ties = []       # (start id, end id, start measure, end measure)
        self.nid = 0

    def xid(self, p):
        self.nid += 1
        return f"{p}{self.nid}"

    # ------------------------------------------------------------ header
    def staffdef(self, st):
        o, A = self.o, self.A
        a = {"xml:id": f"sd{st['n']}", "n": st["n"], "lines": 5}
        kids = []
        if o.get("ppq"):
            a["ppq"] = o["ppq"]
        if o["sig"] == "staffdef-attr":
            a["meter.count"], a["meter.unit"] = A["meter"]
            a["key.sig"] = sig_text(A["key"][0])
            if o.get("mode") and A["key"][1]:
                a["key.mode"] = A["key"][1]
        elif o["sig"] == "staffdef-child":
            kids.append(f'<meterSig count="{A["meter"][0]}" unit="{A["meter"][1]}"/>')
            m = f' mode="{A["key"][1]}"' if o.get("mode") and A["key"][1] else ""
            kids.append(f'<keySig sig="{sig_text(A["key"][0])}"{m}/>')
        if o["clef"] == "attr":
            a["clef.shape"], a["clef.line"] = st["clef"]
        else:
            kids.append(f'<clef shape="{st["clef"][0]}" line="{st["clef"][1]}"/>')
        if kids:
            return f"<staffDef{_attrs(a)}>" + "".join(kids) + "</staffDef>"
        return f"<staffDef{_attrs(a)}/>"

    def scoredef(self):
        o, A = self.o, self.A
        a = {"xml:id": "scd0"}
        kids = []
        if o["sig"] == "scoredef-attr":
            a["meter.count"], a["meter.unit"] = A["meter"]
            a["key.sig"] = sig_text(A["key"][0])
            if o.get("mode") and A["key"][1]:
                a["key.mode"] = A["key"][1]
        elif o["sig"] == "scoredef-child":
            kids.append(f'<meterSig count="{A["meter"][0]}" unit="{A["meter"][1]}"/>')
            m = f' mode="{A["key"][1]}"' if o.get("mode") and A["key"][1] else ""
            kids.append(f'<keySig sig="{sig_text(A["key"][0])}"{m}/>')
        sds = [self.staffdef(st) for st in A["staves"]]
        nest = o.get("nest")
        if nest and len(sds) >= 2:
            if nest == "tail":
                sds = sds[:-2] + ['<staffGrp xml:id="sg1" symbol="brace">' + sds[-2] + sds[-1] + "</staffGrp>"]
            else:
                sds = ['<staffGrp xml:id="sg1" symbol="brace">' + sds[0] + sds[1] + "</staffGrp>"] + sds[2:]
        return (f"<scoreDef{_attrs(a)}>" + "".join(kids) + '<staffGrp xml:id="sg0" symbol="bracket">' + "".join(sds)
                + "</staffGrp></scoreDef>")

    # ------------------------------------------------------------ events
    def ppq_of(self, ev, nominal):
        if not self.o.get("durppq") or (ev["k"] == "g" and not self.o.get("grace_durppq")):
            return None
        v = nominal if ev["k"] == "m" else N.value(ev)
        x = v * self.o["unit"]
        if ev["k"] == "g" and x.denominator != 1:
            return None
        assert x.denominator == 1, (ev, self.o["unit"])
        return int(x)

    def accid(self, alter, attrs):
        """-> child text; may add to attrs."""
        if alter is None:
            return ""
        mode = self.o["accid"]
        if mode == "mix":
            mode = self.rng.choice(["attr", "ges", "child", "childges"])
        if mode == "attr":
            attrs["accid"] = ACC[alter]
        elif mode == "ges":
            attrs["accid.ges"] = ACC[alter]
        elif mode == "child":
            return f'<accid xml:id="{self.xid("ac")}" accid="{ACC[alter]}"/>'
        else:
            return f'<accid xml:id="{self.xid("ac")}" accid.ges="{ACC[alter]}"/>'
        return ""

    def event(self, ev, nominal):
        k = ev["k"]
        if k == "m":
            return f'<mRest xml:id="{ev["id"]}"/>'
        a = {"xml:id": ev["id"], "dur": DUR[ev["t"]]}
        if ev.get("d"):
            a["dots"] = ev["d"]
        pq = self.ppq_of(ev, nominal)
        if pq is not None:
            a["dur.ppq"] = pq
        if k == "r":
            return f"<rest{_attrs(a)}/>"
        if k == "s":
            if self.o.get("bare_space") and self.rng.random() < 0.5:
                a = {k_: v_ for k_, v_ in a.items() if k_ != "xml:id"}          # (spaces are usually written without an id)
            return f"<space{_attrs(a)}/>"
        if k in ("n", "g"):
            step, alter, octave = ev["p"][0][:3]
            a["pname"], a["oct"] = step.lower(), octave
            if k == "g":
                a["grace"] = ev.get("gt", "unacc")
            xs = dict(map(tuple, ev.get("xs", [])))
            if 0 in xs:
                a["staff"] = xs[0]              # the note is written on another staff than the one holding its layer
            child = self.accid(alter, a)
            return f"<note{_attrs(a)}>{child}</note>" if child else f"<note{_attrs(a)}/>"
        # chord
        notes = []
        for pi, p in enumerate(ev["p"]):
            na = {"xml:id": f"{ev['id']}n{pi}", "pname": p[0].lower(), "oct": p[2]}
            if pi in dict(map(tuple, ev.get("xs", []))):
                na["staff"] = dict(map(tuple, ev["xs"]))[pi]      # @staff on this note only: its siblings stay on the layer's staff
            if self.o.get("chord_note_dur"):
                na["dur"] = a["dur"]
                if ev.get("d"):
                    na["dots"] = ev["d"]
            child = self.accid(p[1], na)
            notes.append(f"<note{_attrs(na)}>{child}</note>" if child else f"<note{_attrs(na)}/>")
        return f"<chord{_attrs(a)}>" + "".join(notes) + "</chord>"

    def layer(self, layer, nominal, clef_change=None):
        evs = layer["ev"]
        out = []
        if clef_change:
            out.append(f'<clef xml:id="{self.xid("cl")}" shape="{clef_change[0]}" line="{clef_change[1]}"/>')
        beamable = [e["k"] in ("n", "c") and N.P.TYPES[e["t"]] <= F(1, 2) for e in evs]
        i = 0
        n = len(evs)
        while i < n:
            ev = evs[i]
            if ev.get("tu") and ev.get("ts"):
                j = i
                while not evs[j].get("te"):
                    j += 1
                group = evs[i:j + 1]
                inner = "".join(self.event(e, nominal) for e in group)
                a, nn = ev["tu"]
                allb = all(beamable[i:j + 1]) and len(group) >= 2
                mode = self.rng.choice(["none", "in", "out"]) if (self.o.get("beams") and allb) else "none"
                if mode == "in":
                    inner = f'<beam xml:id="{self.xid("b")}">{inner}</beam>'
                txt = f'<tuplet xml:id="{self.xid("t")}" num="{a}" numbase="{nn}">{inner}</tuplet>'
                if mode == "out":
                    txt = f'<beam xml:id="{self.xid("b")}">{txt}</beam>'
                out.append(txt)
                i = j + 1
                continue
            if self.o.get("beams") and beamable[i] and not ev.get("tu") and self.rng.random() < 0.6:
                j = i
                while j + 1 < n and beamable[j + 1] and not evs[j + 1].get("tu") and j - i < 3:
                    j += 1
                if j > i:
                    inner = "".join(self.event(e, nominal) for e in evs[i:j + 1])
                    out.append(f'<beam xml:id="{self.xid("b")}">{inner}</beam>')
                    i = j + 1
                    continue
            if (ev["k"] == "s" and i == n - 1 and not ev.get("tu") and self.o.get("bare_space") and not self.o.get("durppq")
                    and sum((N.value(e) for e in evs if e["k"] not in ("g", "m")), F(0)) == nominal and self.rng.random() < 0.7):
                out.append(f'<space xml:id="{ev["id"]}"/>')
                self.bare_spaces = getattr(self, "bare_spaces", 0) + 1
                i += 1
                continue
            out.append(self.event(ev, nominal))
            i += 1
        a = {"xml:id": self.xid("ly")}
        if self.o.get("layer_n", True):
            a["n"] = layer["n"]
        return f"<layer{_attrs(a)}>" + "".join(out) + "</layer>"

    # ------------------------------------------------------------ body
    def render(self):
        A, o = self.A, self.o
        den = N.denote(A)
        # tie elements from the denotation's note links
        id2measure = {}
        for sn, d in den.items():
            for note in d["notes"]:
                id2measure[note["id"]] = note["info"]["measure"]
        tie_at = {}
        last = len(A["measures"]) - 1
        for sn, d in den.items():
            for note in d["notes"]:
                if note["tie_next"] is not None:
                    m = {"start": id2measure[note["id"]], "end": id2measure[note["tie_next"]], "last": last}[o["ties"]]
                    tie_at.setdefault(m, []).append(
                        f'<tie xml:id="{self.xid("tie")}" startid="#{note["id"]}" endid="#{note["tie_next"]}"/>')
        meter = tuple(A["meter"])
        body = []
        open_ending = None
        depth = 0
        for mi, M in enumerate(A["measures"]):
            if o.get("breaks") and mi and self.rng.random() < 0.3:
                body.append(self.rng.choice(["<sb/>", "<pb/>"]))
            if M.get("ending") != open_ending:
                if open_ending is not None:
                    body.append("</ending>")
                if M.get("ending") is not None:
                    body.append(f'<ending xml:id="{self.xid("end")}" n="{M["ending"]}">')
                open_ending = M.get("ending")
            elif o.get("sections") == "nested" and open_ending is None and mi and self.rng.random() < 0.3:
                if depth and self.rng.random() < 0.5:
                    body.append("</section>")
                    depth -= 1
                else:
                    body.append(f'<section xml:id="{self.xid("sec")}">')
                    depth += 1
            if M.get("meter") or M.get("key"):
                a = {"xml:id": self.xid("scd")}
                kids = []
                if M.get("meter"):
                    meter = tuple(M["meter"])
                    if o.get("change") == "child":
                        kids.append(f'<meterSig count="{meter[0]}" unit="{meter[1]}"/>')
                    else:
                        a["meter.count"], a["meter.unit"] = meter
                if M.get("key"):
                    if o.get("change") == "child":
                        m = f' mode="{M["key"][1]}"' if o.get("mode") and M["key"][1] else ""
                        kids.append(f'<keySig sig="{sig_text(M["key"][0])}"{m}/>')
                    else:
                        a["key.sig"] = sig_text(M["key"][0])
                        if o.get("mode") and M["key"][1]:
                            a["key.mode"] = M["key"][1]
                body.append(f"<scoreDef{_attrs(a)}>" + "".join(kids) + "</scoreDef>" if kids else f"<scoreDef{_attrs(a)}/>")
            nominal = F(4 * meter[0], meter[1])
            ma = {"xml:id": f"m{mi}", "n": M.get("name"), "left": M.get("left"), "right": M.get("right")}
            if M.get("pickup"):
                ma["metcon"] = "false"
            parts = []
            for st in A["staves"]:
                layers = M["staves"][str(st["n"])]
                cc = (M.get("clef") or {}).get(str(st["n"]))
                ltxt = "".join(self.layer(ly, nominal, cc if li == 0 else None) for li, ly in enumerate(layers))
                parts.append(f'<staff xml:id="{self.xid("st")}" n="{st["n"]}">{ltxt}</staff>')
            body.append(f"<measure{_attrs(ma)}>" + "".join(parts) + "".join(tie_at.get(mi, [])) + "</measure>")
        if open_ending is not None:
            body.append("</ending>")
        body.append("</section>" * depth)
        head = ('<?xml version="1.0" encoding="UTF-8"?>\n'
                f'<mei xmlns="{NS}" meiversion="4.0.1"><meiHead><fileDesc><titleStmt><title>generated</title></titleStmt>'
                "<pubStmt/></fileDesc></meiHead><music><body><mdiv><score>")
        return (head + self.scoredef() + '<section xml:id="sec0">' + "\n".join(body) + "</section>"
                + "</score></mdiv></body></music></mei>\n")


def render(A, o, rng):
    return _W(A, o, rng).render()
