#!/bin/sh
# tools/try_seed.sh <Cnn> <patch.diff> [tier]  — apply a seeded change to /repo, run the check, undo it straight afterwards.
ID=$1; PATCH=$2; TIER=${3:-quick}
cd /repo || exit 9
if ! git diff --quiet; then echo "/repo has uncommitted changes"; exit 9; fi
if ! git apply --check "$PATCH" 2>/dev/null; then echo "PATCH DOES NOT APPLY to current /repo"; exit 8; fi
git apply "$PATCH"
cd /verif && ./check "$ID" --tier "$TIER" > /tmp/try_seed_$ID.log 2>&1
rc=$?
git -C /repo checkout -- .
grep -c "^VIOLATION" /tmp/try_seed_$ID.log | sed "s/^/violation lines: /"
grep "key=" /tmp/try_seed_$ID.log | sort | uniq -c | cut -c1-260 | head -8
tail -1 /tmp/try_seed_$ID.log | cut -c1-200
echo "exit=$rc"
