"""Seeded generator of note arrays and option sets for the piano-roll functions (C13).

make_case(rng, big=False, small=False) -> dict
    na      structured note array (pitch i4, onset_*/duration_* f4 or i4 for div/tick, optional velocity,
            channel, id) whose rows are in a generated order
    opts    keyword arguments for compute_pianoroll (only non-default ones are present)
    meta    what was generated (selected unit, grid flag, order, ...)

The generator knows which time unit the call will use only in order to put
*that* unit's values on the 1/time_div grid; the other unit columns hold the
same notes under another scaling, so that reading the wrong column gives a
different roll.  It does not compute expected results.
"""
import numpy as np

EDGE_PITCHES = [0, 1, 11, 12, 20, 21, 22, 107, 108, 109, 119, 120, 126, 127]
SCORE_SETS = [("beat", "quarter", "div"), ("beat",), ("quarter",), ("div",), ("beat", "quarter"), ("beat", "div")]
PERF_SETS = [("sec",), ("sec", "tick"), ("tick",)]


def selected_unit(units, time_unit):
    if time_unit != "auto":
        return time_unit
    for u in ("beat", "quarter", "div", "sec", "tick"):
        if u in units:
            return u


def make_case(rng, big=False, small=False):
    perf = rng.random() < 0.5
    units = rng.choice(PERF_SETS if perf else SCORE_SETS)
    time_unit = "auto" if rng.random() < 0.4 else rng.choice(units)
    sel = selected_unit(units, time_unit)
    integral = sel in ("div", "tick")
    tds = [1, 2, 4, 8, 12] + ([3, 5, 6, 16, 24] if big else [])
    td = rng.choice([1, 1, 2] if integral else tds)
    td_auto = rng.random() < 0.12
    if td_auto:
        td = 1 if integral else 8
    grid = rng.random() < 0.85 or integral
    if small:
        n = rng.randint(1, 3)
        H = rng.choice([2, 4, 6])
    else:
        n = rng.randint(1, 40 if big and rng.random() < 0.3 else 12)
        H = rng.choice([4, 8, 16, 32] + ([64, 128, 200] if big else []))
    start = rng.choice([0, 0, 1, 3, 7, td, 5 * td])
    neg = rng.random() < 0.08

    # ------------------------------------------------------------------ pitches
    piano_range = rng.random() < 0.25
    pool_n = rng.choice([1, 2, 3, 6, 20])
    lo, hi = (21, 108) if (piano_range and rng.random() < 0.7) else (0, 127)
    pool = []
    for _ in range(pool_n):
        if rng.random() < 0.3:
            p = rng.choice([e for e in EDGE_PITCHES if lo <= e <= hi])
        else:
            p = rng.randint(lo, hi)
        pool.append(p)

    # ------------------------------------------------------------------ notes (frames of the selected unit)
    notes = []
    for i in range(n):
        p = rng.choice(pool)
        if grid:
            on = start + rng.randint(0, H)
            r = rng.random()
            du = 0 if r < 0.1 else (rng.choice([1, 1, 2, 3]) if r < 0.6 else rng.randint(1, max(1, H // 2)))
            if integral:
                on_t, du_t = float(on), float(du)
            else:
                on_t, du_t = on / td, du / td
        else:
            on_t = start / td + rng.uniform(0, H / td)
            du_t = rng.choice([0.0, rng.uniform(0, 1.0 / td), rng.uniform(0, H / (2.0 * td))])
            if rng.random() < 0.15:                      # sit on an exact half frame
                on_t = (start + rng.randint(0, H) + 0.5) / td
        if neg:
            on_t -= (start + H // 2) / (1 if integral else td)
        notes.append([p, on_t, du_t, rng.randint(1, 127), rng.choice([0, 0, 1, 3, 9 if rng.random() < 0.6 else 2])])
    # forced same-pitch duplicates / overlaps
    if n >= 2 and rng.random() < 0.35:
        for _ in range(rng.randint(1, 2)):
            src = rng.choice(notes)
            tgt = rng.choice(notes)
            tgt[0] = src[0]
            if rng.random() < 0.6:
                tgt[1] = src[1]
            tgt[3] = rng.randint(1, 127)
    if all(x[4] == 9 for x in notes):
        notes[0][4] = 0

    # ------------------------------------------------------------------ order of the rows
    order = rng.choice(["sorted", "shuffled", "shuffled", "reversed"])
    notes.sort(key=lambda x: x[1])
    if order == "shuffled":
        rng.shuffle(notes)
    elif order == "reversed":
        notes.reverse()

    # ------------------------------------------------------------------ array
    has_vel = rng.random() < (0.85 if perf else 0.2)
    has_chan = rng.random() < (0.5 if perf else 0.1)
    has_id = rng.random() < 0.5
    f8 = rng.random() < 0.1
    ft = "f8" if f8 else "f4"
    factors = {}
    if perf:
        ppq = rng.choice([24, 96, 480])
        factors = {"sec": 1.0, "tick": float(ppq)} if sel == "sec" else {"tick": 1.0, "sec": 1.0 / ppq}
    else:
        divs = rng.choice([1, 2, 4, 12, 480])
        bf = rng.choice([0.5, 2.0, 1.5])
        if sel == "beat":
            factors = {"beat": 1.0, "quarter": 1.0 / bf, "div": divs / bf}
        elif sel == "quarter":
            factors = {"quarter": 1.0, "beat": bf, "div": float(divs)}
        else:
            factors = {"div": 1.0, "quarter": 1.0 / divs, "beat": bf / divs}
    dtype = [("pitch", "i4")]
    for u in units:
        t = "i4" if (u in ("div", "tick") and u == sel) else ft     # derived columns may be fractional
        dtype += [(f"onset_{u}", t), (f"duration_{u}", t)]
    if has_vel:
        dtype.append(("velocity", "i4"))
    if has_chan:
        dtype.append(("channel", "i4"))
    if has_id:
        dtype.append(("id", "U256"))
    na = np.zeros(len(notes), dtype=dtype)
    for i, (p, on_t, du_t, v, ch) in enumerate(notes):
        na["pitch"][i] = p
        for u in units:
            na[f"onset_{u}"][i] = on_t * factors[u]
            na[f"duration_{u}"][i] = du_t * factors[u]
        if has_vel:
            na["velocity"][i] = v
        if has_chan:
            na["channel"][i] = ch
        if has_id:
            na["id"][i] = f"n{i}"

    # ------------------------------------------------------------------ options
    opts = {}
    if time_unit != "auto":
        opts["time_unit"] = time_unit
    if not td_auto:
        opts["time_div"] = td
    p_opt = rng.choice([0.1, 0.3, 0.5])
    if rng.random() < p_opt:
        opts["onset_only"] = True
    if rng.random() < p_opt:
        opts["note_separation"] = True
    if rng.random() < p_opt:
        opts["pitch_margin"] = rng.choice([0, 1, 2, 5])
    if rng.random() < p_opt:
        opts["time_margin"] = rng.choice([1, 1, 2, 3])
    if piano_range:
        opts["piano_range"] = True
    if neg:
        if rng.random() < 0.3:
            opts["remove_silence"] = False               # origin left open by the statement: only loosely judged
    elif rng.random() < p_opt:
        opts["remove_silence"] = False
    if rng.random() < p_opt:
        opts["binary"] = True
    if rng.random() < 0.5:
        opts["return_idxs"] = True
    if rng.random() < 0.2:
        opts["remove_drums"] = False
    if rng.random() < p_opt:
        # an end time at/after the end of the last note (read from the stored values), sometimes allowing for the margin
        on_c = na[f"onset_{sel}"].astype(float)
        du_c = na[f"duration_{sel}"].astype(float)
        if has_chan and opts.get("remove_drums", True):
            keep = na["channel"] != 9
            on_c, du_c = on_c[keep], du_c[keep]
        last = float(np.max(on_c + np.maximum(du_c, 1.0 / td)))
        extra = rng.choice([0, 0, 1, 2, 5, td]) / td
        if opts.get("time_margin") and rng.random() < 0.5:
            extra += opts["time_margin"]
        if not grid:
            extra += 2.0 / td + rng.uniform(0, 1)
        elif rng.random() < 0.25:
            extra += rng.choice([0.37, 0.5, 0.81]) / td          # the end time falls inside a frame
        e = last + extra
        if rng.random() < 0.05:
            e = last - 1.0 / td                              # documented rejection
        if float(e).is_integer() and rng.random() < 0.5:
            e = int(e)
        elif rng.random() < 0.3:
            e = np.float64(e)
        opts["end_time"] = e
    meta = {"perf": perf, "units": list(units), "sel": sel, "td": td, "td_auto": td_auto, "grid": grid, "order": order,
            "neg": neg, "has_vel": has_vel, "has_chan": has_chan, "n": len(notes)}
    return {"na": na, "opts": opts, "meta": meta}


def make_roll(rng, big=False):
    """An integer roll (128 or 88 rows) for the inverse: ("notes" kind) runs of one
    velocity separated by at least one empty frame, or ("random" kind) arbitrary
    integers with touching runs."""
    rows = rng.choice([128, 88])
    n = rng.choice([1, 2, 5, 12, 30] + ([80, 200] if big else []))
    kind = "notes" if rng.random() < 0.7 else "random"
    roll = np.zeros((rows, n), dtype=rng.choice(["i8", "i4", "i8"]))
    prs = [rng.randrange(rows) for _ in range(rng.choice([1, 2, 4, 8]))] + [0, rows - 1]
    if kind == "notes":
        for r in set(prs):
            j = rng.randint(0, 2)
            while j < n:
                ln = rng.randint(1, max(1, n // 3))
                roll[r, j:j + ln] = rng.randint(1, 127)
                j += ln + rng.randint(1, 4)
    else:
        for r in set(prs):
            for j in range(n):
                if rng.random() < 0.6:
                    roll[r, j] = rng.choice([1, 1, 64, rng.randint(1, 127)])
    return roll, kind
