"""Reference reading of a performance MIDI file and reference seconds->tick rounding (C06).

Written from the property statement, not from partitura's reader:

* byte parsing is trusted to `mido` (the model starts from `mido.MidiFile.tracks`);
* tick -> seconds integrates *every* set_tempo event of the file, from all
  tracks, in tick order, with exact `Fraction` arithmetic
  (seconds = ticks * mpq / (10^6 * ppq) inside each tempo segment);
* a note-on (velocity > 0) is paired with the next note-off / zero-velocity
  note-on of the same channel and pitch of the stream that is read (one track,
  or the stable tick-ordered merge of all tracks);
* ids follow (onset, pitch, offset, channel, track).

Situations the statement excludes or leaves open are *flagged*, never judged:
`overlap` (a second note-on while the same channel/pitch sounds), `stray`
(note-off without a sounding note), `tempo_ambiguous` (two tracks change the
tempo to different values at the very same tick).
"""
import math
from fractions import Fraction

HALF = Fraction(1, 2)
HALF_WINDOW = Fraction(1, 10**6)


# ------------------------------------------------------------------ seconds -> ticks
def exact_ticks(t, mpq, ppq):
    """10^6 * ppq * t / mpq as an exact rational (t is taken at its float value)."""
    return Fraction(t) * 10**6 * ppq / Fraction(mpq)


def allowed_ticks(t, mpq, ppq):
    """Ticks that 'the nearest tick of t' may be: one value, or both neighbours
    when t sits (within float evaluation noise) on a half tick."""
    x = exact_ticks(t, mpq, ppq)
    lo = math.floor(x)
    frac = x - lo
    if abs(frac - HALF) < HALF_WINDOW:
        return (lo, lo + 1)
    return (lo,) if frac < HALF else (lo + 1,)


def tick_seconds(tick, mpq, ppq):
    return Fraction(tick) * mpq / (10**6 * ppq)


# ------------------------------------------------------------------ tempo map
class TempoMap:
    def __init__(self, mid, default_mpq=500000):
        self.ppq = mid.ticks_per_beat
        evs = []
        for ti, tr in enumerate(mid.tracks):
            t = 0
            for pos, m in enumerate(tr):
                t += m.time
                if m.type == "set_tempo":
                    evs.append((t, ti, pos, m.tempo))
        evs.sort(key=lambda e: (e[0], e[1], e[2]))
        self.events = evs
        self.tracks_with_tempo = sorted({e[1] for e in evs})
        self.ambiguous = False
        for a, b in zip(evs, evs[1:]):
            if a[0] == b[0] and a[1] != b[1] and a[3] != b[3]:
                self.ambiguous = True
        segs = [(0, Fraction(default_mpq))]
        for t, _, _, mpq in evs:
            if segs[-1][0] == t:
                segs[-1] = (t, Fraction(mpq))
            else:
                segs.append((t, Fraction(mpq)))
        self.ticks = [s[0] for s in segs]
        self.mpqs = [s[1] for s in segs]
        self.cum = [Fraction(0)]
        for i in range(1, len(segs)):
            self.cum.append(self.cum[-1] + (self.ticks[i] - self.ticks[i - 1]) * self.mpqs[i - 1] / (10**6 * self.ppq))
        self.n_changes_after_zero = sum(1 for i in range(1, len(segs)) if self.mpqs[i] != self.mpqs[i - 1])

    def seconds(self, tick):
        # last segment starting at or before tick
        lo, hi = 0, len(self.ticks) - 1
        while lo < hi:
            mid = (lo + hi + 1) // 2
            if self.ticks[mid] <= tick:
                lo = mid
            else:
                hi = mid - 1
        return self.cum[lo] + (tick - self.ticks[lo]) * self.mpqs[lo] / (10**6 * self.ppq)


def integrate(tick, tempo_changes, ppq):
    """Exact seconds of `tick` for a tick-sorted list [(tick, mpq), ...]."""
    total = Fraction(0)
    last_tick, last_mpq = 0, Fraction(tempo_changes[0][1])
    for ct, mpq in tempo_changes:
        if tick < ct:
            break
        total += Fraction(ct - last_tick) * last_mpq / (10**6 * ppq)
        last_tick, last_mpq = ct, Fraction(mpq)
    return total + Fraction(tick - last_tick) * last_mpq / (10**6 * ppq)


# ------------------------------------------------------------------ streams
def streams(mid, merge):
    per = []
    for ti, tr in enumerate(mid.tracks):
        t = 0
        evs = []
        for pos, m in enumerate(tr):
            t += m.time
            evs.append((t, ti, pos, m))
        per.append(evs)
    if merge:
        allv = [e for evs in per for e in evs]
        allv.sort(key=lambda e: e[0])        # stable: track order, then position inside the track
        return [(0, allv)]
    return list(enumerate(per))


def meta_payload(m):
    d = {k: v for k, v in vars(m).items() if k not in ("time", "type")}
    return norm_payload(d)


def norm_value(v):
    if isinstance(v, (tuple, list)):
        return tuple(int(x) for x in v)
    if isinstance(v, (bytes, bytearray)):
        return tuple(v)
    if hasattr(v, "item") and not isinstance(v, str):
        return v.item()
    return v


def norm_payload(d):
    return tuple(sorted((k, norm_value(v)) for k, v in d.items()))


class PartModel:
    def __init__(self, track):
        self.track = track
        self.notes = []       # dict(on, off, pitch, ch, vel)
        self.controls = []    # (tick, number, value, ch)
        self.programs = []    # (tick, program, ch)
        self.keys = []        # (tick, key name)
        self.times = []       # (tick, numerator, denominator)
        self.metas = []       # (tick, type, payload)
        self.overlap = False
        self.stray = 0
        self.unterminated = 0
        self.cross_track_same_tick = False

    @property
    def has_content(self):
        return bool(self.notes or self.controls or self.programs)

    def id_key(self, n):
        return (n["on"], n["pitch"], n["off"], n["ch"], self.track)


def read(mid, merge=False):
    """-> list of PartModel, one per stream (track), including streams without
    notes/controls/programs (the caller decides what a reader may drop)."""
    parts = []
    for track, evs in streams(mid, merge):
        pm = PartModel(track)
        sounding = {}
        last_evt = {}   # (ch, pitch) -> (tick, source track) of the last note event, for merge ambiguity
        for tick, src, pos, m in evs:
            ty = m.type
            if ty in ("note_on", "note_off"):
                k = (m.channel, m.note)
                if merge and k in last_evt and last_evt[k][0] == tick and last_evt[k][1] != src:
                    # order of equal-tick events of different tracks decides the pairing: open
                    pm.cross_track_same_tick = True
                last_evt[k] = (tick, src)
                if ty == "note_on" and m.velocity > 0:
                    if k in sounding:
                        pm.overlap = True
                    sounding[k] = (tick, m.velocity)
                else:
                    if k not in sounding:
                        pm.stray += 1
                        continue
                    on, vel = sounding.pop(k)
                    pm.notes.append(dict(on=on, off=tick, pitch=m.note, ch=m.channel, vel=vel))
            elif ty == "control_change":
                pm.controls.append((tick, m.control, m.value, m.channel))
            elif ty == "program_change":
                pm.programs.append((tick, m.program, m.channel))
            elif ty == "key_signature":
                pm.keys.append((tick, str(m.key)))
            elif ty == "time_signature":
                pm.times.append((tick, int(m.numerator), int(m.denominator)))
            elif ty == "set_tempo":
                pass
            elif getattr(m, "is_meta", False):
                pm.metas.append((tick, ty, meta_payload(m)))
        pm.unterminated = len(sounding)
        parts.append(pm)
    return parts
