"""Per-property manifest texts."""
NOT_APPLICABLE = {}
CHECKS = {
 "C12": {
  "technique": "runtime contracts (icontract.ensure) on the real conversion functions + exhaustive driver against from-scratch arithmetic",
  "text": "Every conversion function named by the property carries a post-condition comparing its result with independent "
          "twelve-tone / circle-of-fifths / rational-duration arithmetic; a driver enumerates the quantifier's finite domains "
          "completely (exhaustive) and samples (ppq, mpq, t) triples as scalars and arrays. Held = no disagreement on any executed call.",
  "note": "Trusted: vmon/refmodels/pitch.py, CPython, numpy. Float results compared with rel. tol. 1e-9; exact .5 ticks are don't-care.",
 },
 "C16": {
  "technique": "post-condition hook on the real transpose/transpose_note + deep argument snapshot + exhaustive note x interval table",
  "text": "Every call of transpose is observed by a hook that snapshots the argument before and after (must be identical, same "
          "objects), compares each pitched note of the result (tie continuations and grace notes included) with from-scratch "
          "diatonic arithmetic and everything else structurally with the argument. The driver runs the complete table steps x "
          "alter -2..2 x octaves 0..8 x 39 intervals x 2 directions through a part and a score, up-then-down identity, the "
          "chord-root arithmetic, and generated scores with ties/chords/grace notes.",
  "note": "Trusted: vmon/refmodels/pitch.py, vmon/snapshot.py. Cases whose correct result needs |alter| > 2 are counted out of domain.",
 },
 "C01": {
  "technique": "lock-step executable reference model driven from hooks on the real Part mutators; structural invariant after every mutator; query results vs model",
  "text": "Hooks on Part.add/remove/set_quarter_duration/get_or_add_point update a dict-based reference timeline in lock step and, "
          "after every outermost mutator returns, compare the real part with it: point set and order, prev/next links, every "
          "object's start/end being the listing point, registrations, quarter duration per point and as a map; random batches of "
          "iter_all / iter_prev / iter_next / first / last / get_point queries are compared as multisets in time order. Seeded "
          "hostile edit histories (collisions on few times, removal at first/last point, emptied parts, redundant quarter changes).",
  "note": "Trusted: vmon/refmodels/timeline.py. Open documentation points (redundant quarter change, pending point) are accepted both ways.",
 },
 "C02": {
  "technique": "contract on the real map property getters, evaluated at every integer position against an exact Fraction integration model",
  "text": "Hooks on Part.quarter_map / beat_map / inv_quarter_map / inv_beat_map / quarter_duration_map fire whenever any "
          "workload obtains a map; the map is evaluated at every integer position (vector and sampled scalar calls) and compared "
          "with an exact rational integration of divisions and time signatures incl. the pickup origin rule; inverses must undo the "
          "forward maps. Workload: generated parts with division/signature changes on and off barlines, pickups of every length, "
          "full first bars made of stretches with different divisions, musical-beat mode, parts starting after 0, one-point parts, "
          "and the fixture corpus.",
  "note": "Trusted: vmon/refmodels/timemaps.py. Origin judged only where the statement fixes it; rel. tol. 1e-9.",
 },
 "C10": {
  "technique": "contract on the six real map property getters, evaluated at every integer position against a brute-force 'latest element <= t' model",
  "text": "Hooks on Part.time_signature_map / key_signature_map / clef_map / measure_map / measure_number_map / "
          "metrical_position_map fire whenever a map is obtained; it is evaluated (vector call + sampled scalar calls) at every "
          "integer position and compared with a brute-force search over the registered elements (back-fill before the first "
          "element, documented defaults, pickup convention). Workload: generated parts with 0-5 elements of each kind on and off "
          "barlines, staves without clef, irregular measures, pickups, late first elements, musical-beat mode, gen_score parts and fixtures.",
  "note": "Trusted: vmon/refmodels/sigmaps.py. Measure gaps / beyond the last measure / first measure without its signature at the start are don't-care.",
 },
 "C05": {
  "technique": "post-condition hooks on the real note/rest array builders; cell-by-cell comparison with an independent row builder over the timeline + exact C02/C10 models",
  "text": "Hooks on note_array_from_part, rest_array_from_part and note_array_from_part_list compare every returned structured "
          "array cell by cell (matched by id) with rows built by walking the registered objects: tie chains merged, grace notes "
          "zero-length, exact quarter/beat values, spelled pitch, voice/staff, key/time signature, metrical position, divs_pq, "
          "lcm rescaling and id prefixes for score-level arrays, row order. Inverse direction: note_array_to_score on generated "
          "arrays with beat-only, div-only and both time columns must return the same onsets, durations and pitches.",
  "note": "Trusted: vmon/refmodels/timemaps.py, sigmaps.py, pitch.py. f4 columns compared with rel. tol. 2e-6; cells of notes without voice/staff are don't-care.",
 },
 "C07": {
  "technique": "online contract on every MatchLine.matchline evaluation (re-parse + field equality + second-format fixpoint), contracts on to_v1/from_instance and on duration/key/time-signature string parsers",
  "text": "A hook on the matchline property of every line class (all versions) re-parses each produced text through the class's own "
          "from_matchline and through parse_matchline, compares kind and fields (floats where the format's decimal grid can denote "
          "them) and demands that formatting is a fixpoint after one round; contracts on to_v1/from_instance compare musical "
          "content before/after; FractionalSymbolicDuration/key/time-signature strings are judged against an independent reading "
          "and exact Fraction sums. Workload: every line kind x version with hostile field values, exhaustive key tables, "
          "the three fixture files re-emitted.",
  "note": "Trusted: vmon/refmodels/matchline.py. Values the format cannot denote are judged on the fixpoint only; sums beyond the class's 1024 bound are don't-care.",
 },
 "C14": {
  "technique": "post-condition hooks on PerformedPart construction, threshold setter, adjust_offsets_w_sustain, note_array, from_note_array, sanitize_track_numbers vs an event-sweep pedal model",
  "text": "Every construction / threshold assignment / note_array / from_note_array call is observed and each note's sounding end "
          "compared with an exact step-function pedal model (release, first later pedal-up, first later re-strike of the pitch); "
          "threshold monotonicity over sweeps on the same object, seconds/ticks agreement under ppq/mpq, round trip through the "
          "note array, track renumbering injectivity. Hostile note lists: 1-3 pitches with overlaps and nestings, zero-length "
          "notes, unsorted order, pedal events before/after all notes, other controllers interleaved.",
  "note": "Trusted: vmon/refmodels/c14_pedal.py. Exact ties in time (pedal event at a release, equal-time pedal events, onset at the release) are don't-care.",
 },
 "C17": {
  "technique": "contracts on estimate_spelling / estimate_voices / estimate_key / load_score_midi with metamorphic re-invocation of the real functions",
  "text": "Hooks on the three estimators and the MIDI score importer check sounding-pitch equality and |alter| <= 2, permutation "
          "invariance (re-invoking the real function on shuffled rows), voice numbering 1..k without gaps and chord-mode "
          "grouping, valid key names, invariance under octave shifts and duration scaling and equivariance under transposition "
          "(re-invocation on transformed input, judged only when an independent Krumhansl-Schmuckler reference separates the two "
          "best keys); imported MIDI scores are compared with an independent mido read of the file.",
  "note": "Trusted: vmon/refmodels/pitch.py, keyprofile.py (ambiguity guard only), mido. Near-tie key decisions are don't-care.",
 },
 "C11": {
  "technique": "pre/post hooks on add_measures / tie_notes / find_tuplets / fill_rests / sanitize_part (sounding-note and measure tables before/after, exact duration arithmetic) + contract on estimate_symbolic_duration over the duration table",
  "text": "Hooks on the five normalisation functions record the sounding-note multiset, the measure table and all symbolic durations "
          "before the call and compare after it: sounding notes identical, existing measures untouched, exact tiling of the timeline "
          "by measures, added bars of exactly the signature's length unless cut by a signature change / existing measure / end, "
          "consecutive numbering, no pitched note across a barline, tie chains contiguous and homogeneous, every symbolic duration "
          "assigned during the call exact under the divisions in force. A contract on estimate_symbolic_duration demands that a "
          "returned value converts back exactly and that exact plain values are not missed; quick samples 2% of the table "
          "div 1..960 x d 1..8*div, thorough enumerates it completely.",
  "note": "Trusted: vmon/refmodels/pitch.py (notated values as Fractions), timemaps.py. Bars whose exact end is not an integer position are don't-care.",
 },
 "C13": {
  "technique": "post-condition hooks on _make_pianoroll / compute_pianoroll / compute_pitch_class_pianoroll / pianoroll_to_notearray vs an independent dense rasteriser + permutation re-runs",
  "text": "Every piano roll produced is compared with a from-scratch rasteriser (shape, cells, velocities with max on collisions, "
          "onset-only, note separation, margins, piano range, silence removal, end_time, index rows in input order), re-run on "
          "permuted rows, folded to pitch classes and decoded back to notes; sampled over all option combinations and both time units.",
  "note": "Trusted: vmon/refmodels/pianoroll.py. Cell-exact only where onsets/durations lie on the frame grid; exact .5 frames are don't-care.",
 },
 "C15": {
  "technique": "post-condition hook on the real merge_parts: inputs fingerprinted before the call, result compared element-wise under the exact lcm rescale, voice/staff partition check",
  "text": "Every merge_parts call is observed: the input parts are fingerprinted before the call (the function consumes them), and "
          "the result must hold every note, rest and non-structural element at start*lcm/div, divisions equal to the lcm, structural "
          "classes from the first part only, a voice (staff) partition in which same-input-and-same-old-voice <=> same-new-voice, a "
          "single part returned as is, and sounding notes equal to the score-level note array taken beforehand. Workload: 2-5 aligned "
          "parts with divisions whose lcm often exceeds all, missing staves, directions, as list/group/nested/Score x 3 modes.",
  "note": "Trusted: gen_score aligned generator, vmon/refmodels/pitch.py. Classes the code drops beyond the documented list are don't-care.",
 },
 "C06": {
  "technique": "post-condition hooks on save_performance_midi / load_performance_midi / adjust_time vs an independent exact (Fraction) MIDI reader and nearest-tick model",
  "text": "Every save_performance_midi call is re-parsed and compared per track with a snapshot of the argument (ticks must be the "
          "exact nearest tick, pitch/velocity/channel/track, controls, programs, signatures, meta events); every "
          "load_performance_midi result is compared with an independent pass over the mido messages that integrates all tempo "
          "changes of all tracks with Fractions, pairs note-ons with the next off of channel and pitch and orders ids. Workload: "
          "performances as Performance / part / list, several tracks, half-tick times, raw MIDI files with tempo events in any "
          "track, zero-velocity offs, the fixture files, PYTHONHASHSEED sweep on thorough.",
  "note": "Trusted: vmon/refmodels/midi_model.py, mido. Exact .5 ticks accept both neighbours; touching notes in non-chronological list order are don't-care.",
 },
 "C09": {
  "technique": "hooks on new_part_from_path / get_paths / unfold_part_*: segment-copy checker, path-validity checker against an independent reading of the marks, exact-path oracle for repeat/volta structures, argument snapshot",
  "text": "Every part built by new_part_from_path is rebuilt independently from the original and the path (notes, rests, grace notes "
          "per visit with shifted times and visit-suffixed ids; other classes one-sided), its length, the absence of jump objects and "
          "of references into the original are checked, and the path is validated step by step against the successor relation "
          "derived from the registered repeats/endings/navigation marks. For non-nested repeat/volta structures the maximal and "
          "minimal paths and the 2^r variant count are compared with the notated structure. The argument is snapshotted around "
          "every unfold entry point. Workload: block-grammar parts with voltas '1,2'/'3', nested repeats, D.C./D.S./coda/fine, "
          "boundary-crossing ties and slurs, division/signature changes; unfold fixtures.",
  "note": "Trusted: vmon/refmodels/repeats.py, vmon/snapshot.py. Open known findings: Segment objects cached on the argument; segment that is both leap source and destination; overhanging slur.",
 },
 "C19": {
  "technique": "post-condition hooks on load_mei / load_kern / load_score / save_mei / save_kern: the loaded score vs the abstract score the document was rendered from by independent MEI/kern writers",
  "text": "A generator draws abstract scores (exact Fractions) and renders them with independent MEI and kern writers inside the "
          "supported subsets; hooks on the readers compare the returned Score with the notation's denotation: parts, divisions "
          "exactness, onset/duration/spelling/voice/staff of every note and rest, grace notes, ties, measure starts, meter/key/clef "
          "in force; writer hooks load the written file back and compare onset, duration, pitch and staff; load_score must pick "
          "the reader from the extension. Fixture files as smoke input.",
  "note": "Trusted: vmon/refmodels/notation.py, mei_writer.py, kern_writer.py (the stated subset only). Fixtures without xml:id are counted, not judged.",
 },
 "C20": {
  "technique": "generic deep-snapshot wrapper (before == after, same objects) on every read-only entry point + repeat-call / call-order driver + iteration trace checks on Score and Performance",
  "text": "Hooks on save_musicxml, save_score_midi, save_performance_midi, save_match, matchfile_from_alignment, the note/rest array "
          "builders, piano rolls, the eleven map getters, pretty, unfold_part_maximal/minimal, estimate_spelling/voices/key and "
          "transpose take a deep identity-preserving snapshot of the argument before and after every call; a driver calls each "
          "entry point once, twice and in sampled pairs in both orders on the same object and compares results; Score and "
          "Performance are checked for len/index/iter agreement and for nested, interleaved and restarted iteration.",
  "note": "Trusted: vmon/snapshot.py. Open known finding: Segment objects cached on the argument by the unfolders (shared with C09).",
 },
 "C04": {
  "technique": "post-condition hook on the real save_score_midi (exact rational tick model, mode table, velocity, signature/tempo positions) + re-import through both importers",
  "text": "Every save_score_midi call is observed: ticks_per_beat must be the lcm of all divisions doubled up to minimum_ppq, "
          "every note on/off tick the exact integer ppq*(quarter position - origin) for the chosen pickup policy, the partition "
          "of notes into (track, channel) the one the mode prescribes, note-on velocity the requested one, key/time signatures and "
          "tempo marks at their ticks; the file is then read back by load_performance_midi and by load_score_midi with the same "
          "mode and the sounding notes and the part/voice grouping compared. Workload: aligned multi-part scores with non-binary "
          "divisions and tuplets, pickups, grace notes, ties, groups x modes x policies x minimum_ppq x velocity.",
  "note": "Trusted: vmon/refmodels/timemaps.py, mido. time_sig_change rewrites signatures by design (positions judged for the other policies); files with a 0/x signature are not re-imported.",
 },
 "C03": {
  "technique": "post-condition hook on the real save_musicxml: reload + canonical fingerprint on the statement's attribute list, independent MusicXML interpreter for the sounding notes, byte-for-byte re-export",
  "text": "For every save_musicxml call the produced bytes are re-loaded with load_musicxml and compared with the argument on "
          "exactly the attributes the statement lists (parts/groups, measures, divisions, signatures, clefs, every note's id, "
          "onset, duration, spelling, voice, staff, symbolic duration, ties, articulations, fingering, stem, fermata, slurs, "
          "tuplets, dynamics, wedges, words, tempo, repeats, endings, barline fermatas); a from-scratch MusicXML reader "
          "(divisions, backup/forward, chords, ties, grace) must find the argument's sounding notes in exact quarters; the "
          "re-loaded score is saved again and compared byte for byte. Workload: generated scores in the importer's image, all "
          "MusicXML fixtures, hostile classes (under-full measures, unequal chords inside a voice).",
  "note": "Trusted: vmon/refmodels/musicxml_reader.py, timemaps.py, lxml. Open known findings: Words not written, under-full measure shrinks, voice reassignment on intra-voice overlap, zero-length wedge, <print> gained by scores without page/system objects.",
 },
 "C08": {
  "technique": "post-condition hooks on save_match / load_match / load_matchfile; independent regex reader of the written text; reference v1.0.0 writer; exact beat and tick models",
  "text": "A hook on save_match reads the written text with an independent reader, loads the file with the real load_match and "
          "compares alignment (labels and ids), performance (pitch, velocity, ticks, seconds, pedals, clock units/rate) and score "
          "(onset and duration in beats, spelling, ids, voices, staves, articulations, measures, signatures at their bar) with what "
          "was saved. Hooks on load_matchfile/load_match check line conservation: every kept note line is one alignment entry, one "
          "performed note and one score note; duplicate ids are resolved as documented. Workload: generated single-divisions scores "
          "(pickups, meter changes between quarter and non-quarter meters, ties, graces, chords, voices, staves, key changes) with "
          "performed parts aligned by shuffled partial alignments mixing all four labels, ppq/mpq pairs, pedal streams, every "
          "argument form, assume_unfolded on/off; files written by a reference writer (reader alone); files corrupted with "
          "duplicate ids; the fixture match files loaded, saved and loaded again.",
  "note": "Trusted: vmon/refmodels/c08_match.py, gen_score. Don't-care: pickup bars opening with a rest, measures after the last sounding note, "
          "two key signatures in one bar, exactly repeated pedal events, the base of bar numbering. 16 defects repaired in /repo (known_findings.json).",
 },
 "C18": {
  "technique": "post-condition hooks on to_matched_score / get_matched_notes / get_time_maps_from_alignment / encode_performance / decode_performance; round-trip judge with one common shift",
  "text": "Hooks on the codec entry points check that the matched-note table pairs exactly the alignment's matches present on both "
          "sides, ordered by score onset then pitch; that the time maps pass through every matched onset (chords by their mean) in "
          "both directions; and that decoding the encoded parameters against the same score reproduces every matched note's onset "
          "(up to one common shift), duration and velocity within single-precision tolerance, for the five normalisations and both "
          "tempo-curve methods. Workload: generated single-part scores (chords, voices, grace notes, pickups, unisons) with "
          "note-for-note performances plus insertions/deletions/ornaments, deadpan tempo, dangling ids; the match fixtures.",
  "note": "Trusted: vmon/refmodels/c18_align.py. Open known finding: grace notes decode with duration 0 by design of the articulation parameter.",
 },
}
