"""Reference model for C14: sounding end of performed notes under a sustain pedal.

Written from the property statement only:

  * the sounding end of a note is never before its release;
  * it EQUALS the release when there are no pedal events, when the pedal is
    never above the threshold (in particular threshold 127), or when the pedal
    is up (value <= threshold) at the moment of the release;
  * otherwise it is the first LATER moment at which the pedal value is at or
    below the threshold, or at which the same pitch is struck again.

The pedal is a step function: its value at time t is the value of the latest
pedal event at or before t; before the first event it is up.

Open boundaries (returned as end=None with a reason starting "amb:", the caller
judges only end >= release there):

  amb:pedal-event-at-release      a pedal event at exactly the release time (or
                                  an unordered equal-time group just before it)
                                  makes "the pedal state at that moment" depend
                                  on an order the statement does not fix
  amb:equal-time-pedal-events     the releasing pedal moment is an equal-time
                                  group containing both up and down values
  amb:onset-at-release            another note of the pitch starts exactly at
                                  the release (either reading of "later")
  amb:pedal-never-released        pedal down at the release, never up again and
                                  the pitch never struck again: the statement
                                  names no moment

All times are exact rationals (`fractions.Fraction` of the given numbers).
"""
from bisect import bisect_left, bisect_right
from fractions import Fraction
import numbers

UP, DOWN = 0, 1


def F(x):
    """Exact rational value of a Python/numpy number."""
    if isinstance(x, Fraction):
        return x
    if isinstance(x, numbers.Integral):
        return Fraction(int(x))
    return Fraction(float(x))      # float32 -> float64 is exact


class PedalTable:
    """Pedal events of one controller, thresholded; equal-time events grouped."""

    def __init__(self, pedal, threshold):
        ev = sorted(((F(t), v) for t, v in pedal), key=lambda e: e[0])
        self.n_events = len(ev)
        self.times = []          # distinct event times, ascending
        self.states = []         # per time: set of thresholded states present
        for t, v in ev:
            s = DOWN if v > threshold else UP
            if self.times and self.times[-1] == t:
                self.states[-1].add(s)
            else:
                self.times.append(t)
                self.states.append({s})
        self.ever_down = any(DOWN in s for s in self.states)
        # moments at which the pedal value is at or below the threshold
        self.up_times = [t for t, s in zip(self.times, self.states) if UP in s]
        self.up_mixed = [len(s) > 1 for s in self.states if UP in s]

    def states_at(self, t):
        """Set of pedal states the statement allows at moment t, and whether an
        event coincides with t."""
        i = bisect_left(self.times, t)            # groups strictly before t: [0, i)
        cand = set(self.states[i - 1]) if i > 0 else {UP}
        at = i < len(self.times) and self.times[i] == t
        if at:
            cand |= self.states[i]
        return cand, at

    def first_up_after(self, t):
        """(time, mixed) of the first pedal moment strictly after t with a value
        at or below the threshold, or (None, False)."""
        j = bisect_right(self.up_times, t)
        if j == len(self.up_times):
            return None, False
        return self.up_times[j], self.up_mixed[j]


def sounding_ends(notes, pedal, threshold):
    """notes: [(pitch, onset, release)], pedal: [(time, value)] of the sustain
    controller only.  Returns [(end or None, reason)] in note order."""
    tab = PedalTable(pedal, threshold)
    onsets = {}
    for p, on, _ in notes:
        onsets.setdefault(p, []).append(F(on))
    for lst in onsets.values():
        lst.sort()
    out = []
    for p, on, off in notes:
        on, off = F(on), F(off)
        if tab.n_events == 0:
            out.append((off, "no-pedal-events"))
            continue
        if not tab.ever_down:
            out.append((off, "pedal-never-down"))
            continue
        cand, at = tab.states_at(off)
        if cand == {UP}:
            out.append((off, "pedal-up-at-release"))
            continue
        if cand != {DOWN}:
            out.append((None, "amb:pedal-event-at-release" if at else "amb:equal-time-pedal-events"))
            continue
        # pedal down at the release
        lst = onsets[p]
        lo, hi = bisect_left(lst, off), bisect_right(lst, off)
        others_at_release = (hi - lo) - (1 if on == off else 0)
        if others_at_release > 0:
            out.append((None, "amb:onset-at-release"))
            continue
        s = lst[hi] if hi < len(lst) else None           # first same-pitch onset strictly later
        pt, mixed = tab.first_up_after(off)
        if s is not None and (pt is None or s < pt):
            out.append((s, "restrike"))
        elif pt is None:
            out.append((None, "amb:pedal-never-released"))
        elif mixed:
            out.append((None, "amb:equal-time-pedal-events"))
        elif s is not None and s == pt:
            out.append((pt, "restrike-and-pedal-release"))
        else:
            out.append((pt, "pedal-release"))
    return out


# ------------------------------------------------------------------ ticks
def exact_ticks(seconds, ppq, mpq):
    return F(seconds) * 10**6 * int(ppq) / F(mpq)


def tick_roundings(x, window=Fraction(1, 10**6)):
    """Integers that are a legitimate rounding of the exact tick position x:
    the nearest one; both neighbours when x is (within float noise of) a half."""
    lo = x.numerator // x.denominator
    frac = x - lo
    if abs(frac - Fraction(1, 2)) <= window:
        return {lo, lo + 1}
    return {lo if frac < Fraction(1, 2) else lo + 1}
