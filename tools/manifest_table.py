"""Per-property manifest texts."""
NOT_APPLICABLE = {}
CHECKS = {
 "C12": {
  "technique": "runtime contracts (icontract.ensure) on the real conversion functions + exhaustive driver against from-scratch arithmetic",
  "text": "Every conversion function named by the property carries a post-condition comparing its result with independent "
          "twelve-tone / circle-of-fifths / rational-duration arithmetic; a driver enumerates the quantifier's finite domains "
          "completely (exhaustive) and samples (ppq, mpq, t) triples as scalars and arrays. Held = no disagreement on any executed call.",
  "note": "Trusted: vmon/refmodels/pitch.py, CPython, numpy. Float results compared with rel. tol. 1e-9; exact .5 ticks are don't-care.",
 },
}
