#!/bin/sh
# tools/confirm_seed.sh <name> <dir-with-patch.diff-and-demo.py>
# Confirms in a scratch worktree (outside /repo and /verif) that the change applies, the baseline suite still passes,
# and the demonstration passes without / fails with the change. Prints one summary line. Removes the worktree.
NAME=$1; DIR=$2
WT=/tmp/confirm_$NAME
git -C /repo worktree remove --force $WT >/dev/null 2>&1
git -C /repo worktree add -q --detach $WT HEAD || exit 9
cd $WT
PYTHONPATH=$WT /venv/bin/python $DIR/demo.py >/dev/null 2>&1; d0=$?
if git apply $DIR/patch.diff 2>/dev/null; then ap=ok; else ap=FAIL; fi
PYTHONPATH=$WT /venv/bin/python $DIR/demo.py >/dev/null 2>&1; d1=$?
b=$(/tmp/seedtools/baseline.sh $WT | head -1)
cd /; git -C /repo worktree remove --force $WT
echo "$NAME apply=$ap demo_without=$d0 demo_with=$d1 :: $b"
